#!/venv/bin/python
"""
seedrecheck.py — re-run the checks against already confirmed seeded changes and refresh
the `checks` part of seeded/<name>/meta.json (demonstration and baseline-suite confirmation
are not repeated: they do not depend on /verif).

  seedrecheck.py [--verif DIR] [--checks C01,C03] [--all-listed] <name> [<name> ...]

--verif DIR   run bin/check from this copy of /verif (default: the tree this file is in); metas are
              always written to the tree this file is in.  Several copies allow parallel runs
              (each check regenerates lean/CC/Gen from CC_REPO, so one copy = one run at a time).
Nothing is ever applied to /repo itself.
"""
import argparse, json, os, re, shutil, subprocess, sys, tempfile
from pathlib import Path
ROOT = Path(__file__).resolve().parent.parent

def sh(cmd, **kw):
    return subprocess.run(cmd, shell=True, capture_output=True, text=True, **kw)

def main():
    ap = argparse.ArgumentParser()
    ap.add_argument('names', nargs='+'); ap.add_argument('--verif', default=str(ROOT)); ap.add_argument('--checks', default='')
    a = ap.parse_args()
    verif = Path(a.verif)
    for name in a.names:
        d = ROOT / 'seeded' / name
        meta = json.loads((d / 'meta.json').read_text())
        checks = [c for c in a.checks.split(',') if c] or list(meta.get('checks', {})) or [meta['property']]
        wt = Path(tempfile.mkdtemp(prefix='seedre_')); shutil.rmtree(wt)
        import time as _t
        for _try in range(8):
            if sh(f'git -C /repo worktree add -q --detach {wt} HEAD').returncode == 0: break
            _t.sleep(2 + _try)
        else:
            print(name, 'could not create a scratch worktree'); continue
        try:
            ap_ = sh(f'git -C {wt} apply {d / "patch.diff"}')
            if ap_.returncode:
                # the repository moved on (fix: commits): rebase the seeded change by a three-way merge and keep the rebased patch
                ap3 = sh(f'git -C {wt} apply --3way {d / "patch.diff"}')
                diff = sh(f'git -C {wt} diff HEAD').stdout
                if ap3.returncode or '<<<<<<<' in diff or not diff.strip():
                    print(name, 'patch does not apply to the current HEAD:', ap_.stderr.strip()); continue
                (d / 'patch.diff').write_text(diff)
                sh(f'git -C {wt} reset -q')
                meta['rebased_to'] = sh('git -C /repo rev-parse --short HEAD').stdout.strip()
                demo = sh(f'MPLBACKEND=Agg /venv/bin/python {d / "demo.py"} {wt}/src')
                meta['demo_with_change_rc'] = demo.returncode
                print(name, 'rebased by three-way merge; demonstration with the change exits', demo.returncode)
            env = dict(os.environ, CC_REPO=str(wt), VERIF_SEED='0', VERIF_EVIDENCE_DIR=tempfile.mkdtemp(prefix='seed_ev_'))
            meta['repo_head'] = sh('git -C /repo rev-parse --short HEAD').stdout.strip()
            for p in checks:
                c = subprocess.run([str(verif / 'bin' / 'check'), '--property', p, '--tier', 'quick'], capture_output=True, text=True, env=env)
                vio = [l for l in c.stdout.splitlines() if l.startswith('VIOLATION')]
                info = dict(rc=c.returncode, line=re.sub(r'replay=\S*/replays/', 'replay=replays/', vio[0]) if vio else '')
                m = re.search(r'replay=(\S+)', vio[0]) if vio else None
                if m and Path(m.group(1)).exists():
                    rp = json.loads(Path(m.group(1)).read_text())
                    info['replay_kind'] = rp.get('kind'); info['what'] = rp.get('what') or [o[0] for o in rp.get('obligation', [])][:4]
                meta.setdefault('checks', {})[p] = info
                print(name, p, info, flush=True)
            shutil.rmtree(env['VERIF_EVIDENCE_DIR'], ignore_errors=True)
        finally:
            sh(f'git -C /repo worktree remove --force {wt}')
        (d / 'meta.json').write_text(json.dumps(meta, indent=1))
    # leave the copy's generated files as they are for /repo
    sh(f'/venv/bin/python {verif}/harness/extract.py /repo/src')
    subprocess.run(['lake', 'build'], cwd=verif / 'lean', capture_output=True)

if __name__ == '__main__':
    main()
