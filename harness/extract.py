"""
extract.py — the translator: /repo/src (Python AST) → lean/CC/Gen/*.lean.
Regenerated on every run; a file is rewritten only when its content changes.
See DESIGN.md §2.2(a) and Appendix A for the grammar.  Anything outside the grammar
raises ExtractError (a refusal is a broken obligation, never a guess).
"""
from __future__ import annotations
import ast
from pathlib import Path

class ExtractError(Exception):
    pass

GENERATORS = []   # (filename, function(src_root) -> lean source)

def generator(filename):
    def deco(f):
        GENERATORS.append((filename, f)); return f
    return deco

def parse(src: Path, rel: str) -> ast.Module:
    return ast.parse((src / 'CircuitCalculator' / rel).read_text(), filename=rel)

def lean_str(s: str) -> str:
    return '"' + s.replace('\\', '\\\\').replace('"', '\\"').replace('\n', '\\n') + '"'

def generate(src: Path, out: Path) -> list[str]:
    out.mkdir(parents=True, exist_ok=True)
    changed = []
    errors = []
    for fn, g in GENERATORS:
        try:
            text = g(src)
        except ExtractError as e:
            errors.append(f'{fn}: {e}')
            text = f'-- translator refused: {e}\n#eval (panic! "translator refused" : Unit)\nexample : False := by decide\n'
        p = out / fn
        if not p.exists() or p.read_text() != text:
            p.write_text(text)
            changed.append(fn)
    if errors:
        raise ExtractError('; '.join(errors))
    return changed

def _load_generators():
    """every harness/extract_*.py registers its generators with @generator(filename)"""
    import importlib, sys
    here = Path(__file__).resolve().parent
    if str(here) not in sys.path:
        sys.path.insert(0, str(here))
    sys.modules.setdefault('extract', sys.modules[__name__])
    for p in sorted(here.glob('extract_*.py')):
        importlib.import_module(p.stem)

_load_generators()

if __name__ == '__main__':
    import sys
    src = Path(sys.argv[1] if len(sys.argv) > 1 else '/repo/src')
    out = Path(__file__).resolve().parent.parent / 'lean' / 'CC' / 'Gen'
    print(generate(src, out))
