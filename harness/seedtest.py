#!/venv/bin/python
"""
seedtest.py — run checks against a seeded change without touching /repo.

  seedtest.py <patch.diff> [--props C01,C03] [--tier quick] [--demo demo.py]

Creates a scratch git worktree of /repo's HEAD, applies the patch, optionally runs the
demonstration (must fail with the patch and pass without), runs the selected checks with
CC_REPO pointing at the scratch tree, prints one line per check, removes the worktree and
regenerates lean/CC/Gen from /repo.
"""
import argparse, json, os, subprocess, sys, tempfile, shutil, re
from pathlib import Path
ROOT = Path(__file__).resolve().parent.parent

def sh(cmd, **kw):
    return subprocess.run(cmd, shell=True, capture_output=True, text=True, **kw)

def main():
    ap = argparse.ArgumentParser()
    ap.add_argument('patch'); ap.add_argument('--props', default=''); ap.add_argument('--tier', default='quick')
    ap.add_argument('--demo'); ap.add_argument('--seed', default='0')
    a = ap.parse_args()
    props = [p for p in a.props.split(',') if p] or sorted(p.stem.upper() for p in (ROOT / 'harness' / 'props').glob('c[0-9]*.py'))
    wt = Path(tempfile.mkdtemp(prefix='seed_wt_'))
    shutil.rmtree(wt)
    r = sh(f'git -C /repo worktree add -q --detach {wt} HEAD')
    if r.returncode: print(r.stderr); sys.exit(2)
    res = {}
    try:
        if a.demo:
            d0 = sh(f'MPLBACKEND=Agg /venv/bin/python {a.demo} {wt}/src')
            res['demo_without'] = d0.returncode
        r = sh(f'git -C {wt} apply {Path(a.patch).resolve()}')
        if r.returncode: print('patch does not apply:', r.stderr); sys.exit(2)
        if a.demo:
            d1 = sh(f'MPLBACKEND=Agg /venv/bin/python {a.demo} {wt}/src')
            res['demo_with'] = d1.returncode
            print(f'demo: without={res["demo_without"]} with={res["demo_with"]}')
        env = dict(os.environ, CC_REPO=str(wt), VERIF_SEED=a.seed, VERIF_EVIDENCE_DIR=tempfile.mkdtemp(prefix='seed_ev_'))
        for p in props:
            c = subprocess.run([str(ROOT / 'bin' / 'check'), '--property', p, '--tier', a.tier], capture_output=True, text=True, env=env)
            vio = [l for l in c.stdout.splitlines() if l.startswith('VIOLATION')]
            res[p] = dict(rc=c.returncode, violation=vio[:1])
            print(f'{p}: rc={c.returncode} {vio[0] if vio else ""}')
            if vio:
                m = re.search(r'replay=(\S+)', vio[0])
                if m and Path(m.group(1)).exists():
                    rp = json.loads(Path(m.group(1)).read_text())
                    print('    ', rp.get('kind'), '|', rp.get('what') or [o[0] for o in rp.get('obligation', [])][:4], '|', json.dumps(rp.get('canon'))[:200])
    finally:
        sh(f'git -C /repo worktree remove --force {wt}')
        sh(f'/venv/bin/python {ROOT}/harness/extract.py /repo/src')
        subprocess.run(['lake', 'build'], cwd=ROOT / 'lean', capture_output=True)
    print(json.dumps(res))

if __name__ == '__main__':
    main()
