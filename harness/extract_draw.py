"""
extract_draw.py — translator part of group Draw (C13, C15):
/repo/src (Python AST) → lean/CC/Gen/DrawTables.lean.

Generated (see CC/Model/DrawTypes.lean for the record types):
  * `translatorMap`      SimpleCircuit/CircuitComponentTranslators.circuit_translator_map
                         (class name ↦ translator function name, in source order)
  * `translators`        every translator function body: guarded return cases, constructor
                         called, node tuple (plain / swapped under `is_reverse` / single),
                         keyword arguments as value expressions (attribute reads, `.real`,
                         negation, `x if not element.is_reverse else y`, degree→radian, constants)
  * `ctors`              Circuit/components.py constructors that the translators call: kind
                         string, parameters with defaults, `< 0` guards, value dictionary
  * `elemClasses`        SimpleCircuit/Elements.py symbol classes: `type` string, bases,
                         constructor parameters (order, keyword-only, defaults), field
                         assignments (`self._V = V if not reverse else -V`), the `sin` phase shift,
                         property getters, the `reverse` expression forwarded to schemdraw
  * `loaderTypes`        SimpleCircuit/dump_load.simple_circuit_element_types (type ↦ class,
                         complex recombination keys)
  * `declHandlers`       SimpleSimulation/schematic.element_handlers (type ↦ class; the
                         `line` entry's name test)
  * `wavetypes`          SignalProcessing/periodic_functions class ↦ wavetype string
Anything outside this grammar raises ExtractError (a refusal is a broken obligation).
"""
from __future__ import annotations
import ast
from fractions import Fraction
from pathlib import Path
import extract
from extract import ExtractError, lean_str

ELM = 'SimpleCircuit/Elements.py'
TRS = 'SimpleCircuit/CircuitComponentTranslators.py'
CMP = 'Circuit/components.py'
DLD = 'SimpleCircuit/dump_load.py'
SCH = 'SimpleSimulation/schematic.py'
PFN = 'SignalProcessing/periodic_functions.py'

def _err(rel, node, msg):
    raise ExtractError(f'{rel}:{getattr(node, "lineno", "?")}: {msg}')

def lean_rat(x) -> str:
    """literal of type Rat for a Python int / float constant (exact binary64 value)"""
    if isinstance(x, bool):
        raise ExtractError('boolean where a number was expected')
    fr = Fraction(x) if isinstance(x, int) else Fraction(*float(x).as_integer_ratio())
    if fr.denominator == 1:
        return f'({fr.numerator} : Rat)'
    return f'(({fr.numerator} : Rat) / {fr.denominator})'

def lean_list(items, sep=',\n    ') -> str:
    items = list(items)
    if not items:
        return '[]'
    return '[' + sep.join(items) + ']'

def lean_opt(s):
    return 'none' if s is None else f'(some {s})'

# --------------------------------------------------------------------------- translators

def _is_elem_attr(n, attr=None):
    return (isinstance(n, ast.Attribute) and isinstance(n.value, ast.Name) and n.value.id == 'element'
            and (attr is None or n.attr == attr))

def _is_not_rev(n):
    return isinstance(n, ast.UnaryOp) and isinstance(n.op, ast.Not) and _is_elem_attr(n.operand, 'is_reverse')

def _node_idx(n):
    if (isinstance(n, ast.Subscript) and isinstance(n.value, ast.Name) and n.value.id == 'nodes'
            and isinstance(n.slice, ast.Constant) and n.slice.value in (0, 1)):
        return n.slice.value
    return None

def _node_tuple(n):
    if isinstance(n, ast.Tuple):
        idx = [_node_idx(e) for e in n.elts]
        if None not in idx:
            return tuple(idx)
    return None

def tr_nodes(rel, n) -> str:
    t = _node_tuple(n)
    if t == (0, 1):
        return '.pair'
    if t == (0,):
        return '.single'
    if isinstance(n, ast.IfExp) and _is_not_rev(n.test) and _node_tuple(n.body) == (0, 1) and _node_tuple(n.orelse) == (1, 0):
        return '.pairSwapIfRev'
    _err(rel, n, f'node tuple outside the grammar: {ast.unparse(n)}')

def tr_vexpr(rel, n, wavetypes) -> str:
    if _is_elem_attr(n):
        return f'(.attr {lean_str(n.attr)})'
    if isinstance(n, ast.Attribute) and n.attr == 'real':
        return f'(.re {tr_vexpr(rel, n.value, wavetypes)})'
    if isinstance(n, ast.Attribute) and n.attr == 'wavetype' and isinstance(n.value, ast.Name):
        if n.value.id not in wavetypes:
            _err(rel, n, f'unknown periodic function class {n.value.id}')
        return f'(.str {lean_str(wavetypes[n.value.id])})'
    if isinstance(n, ast.UnaryOp) and isinstance(n.op, ast.USub):
        return f'(.neg {tr_vexpr(rel, n.operand, wavetypes)})'
    if isinstance(n, ast.IfExp):
        if _is_not_rev(n.test):
            return f'(.ifNotRev {tr_vexpr(rel, n.body, wavetypes)} {tr_vexpr(rel, n.orelse, wavetypes)})'
        # element.phi*pi/180 if element.deg else element.phi
        if _is_elem_attr(n.test) and _is_elem_attr(n.orelse):
            b = n.body
            if (isinstance(b, ast.BinOp) and isinstance(b.op, ast.Div) and isinstance(b.right, ast.Constant) and b.right.value == 180
                    and isinstance(b.left, ast.BinOp) and isinstance(b.left.op, ast.Mult)
                    and _is_elem_attr(b.left.left, n.orelse.attr) and isinstance(b.left.right, ast.Name) and b.left.right.id == 'pi'):
                return f'(.degConv {lean_str(n.orelse.attr)} {lean_str(n.test.attr)})'
        _err(rel, n, f'conditional outside the grammar: {ast.unparse(n)}')
    if isinstance(n, ast.Name) and n.id == 'inf':
        return '.inf'
    if isinstance(n, ast.Constant) and isinstance(n.value, (int, float)) and not isinstance(n.value, bool):
        return f'(.lit {lean_rat(n.value)})'
    if isinstance(n, ast.Constant) and isinstance(n.value, str):
        return f'(.str {lean_str(n.value)})'
    _err(rel, n, f'value expression outside the grammar: {ast.unparse(n)}')

def tr_return(rel, ret, guard, wavetypes) -> str:
    v = ret.value
    if v is None or (isinstance(v, ast.Constant) and v.value is None):
        return f'{{ guard := {guard}, ctor := none, nodes := .pair, args := [] }}'
    if not (isinstance(v, ast.Call) and isinstance(v.func, ast.Attribute) and isinstance(v.func.value, ast.Name)
            and v.func.value.id == 'ccp' and not v.args):
        _err(rel, ret, f'return outside the grammar: {ast.unparse(ret)}')
    kws = {k.arg: k.value for k in v.keywords}
    if None in kws or 'id' not in kws or 'nodes' not in kws:
        _err(rel, ret, 'constructor call needs id= and nodes= keywords')
    if not _is_elem_attr(kws['id'], 'name'):
        _err(rel, ret, f'id is not element.name: {ast.unparse(kws["id"])}')
    nodes = tr_nodes(rel, kws['nodes'])
    args = [f'({lean_str(k.arg)}, {tr_vexpr(rel, k.value, wavetypes)})' for k in v.keywords if k.arg not in ('id', 'nodes')]
    return (f'{{ guard := {guard}, ctor := some {lean_str(v.func.attr)}, nodes := {nodes},\n          args := {lean_list(args, ", ")} }}')

def tr_guard(rel, test) -> str:
    # element.state == element.state.OPEN
    if (isinstance(test, ast.Compare) and len(test.ops) == 1 and isinstance(test.ops[0], ast.Eq) and _is_elem_attr(test.left)
            and isinstance(test.comparators[0], ast.Attribute) and _is_elem_attr(test.comparators[0].value, test.left.attr)):
        return f'(some ({lean_str(test.left.attr)}, {lean_str(test.comparators[0].attr)}))'
    _err(rel, test, f'guard outside the grammar: {ast.unparse(test)}')

def translator_body(rel, fn: ast.FunctionDef, wavetypes) -> str:
    if fn.args.vararg is not None and not fn.args.args:          # none_translator(*_)
        body = [s for s in fn.body if not isinstance(s, ast.Expr)]
        if len(body) == 1 and isinstance(body[0], ast.Return):
            return lean_list([tr_return(rel, body[0], 'none', wavetypes)])
        _err(rel, fn, 'variadic translator with a non-trivial body')
    if [a.arg for a in fn.args.args] != ['element', 'nodes']:
        _err(rel, fn, f'translator signature {[a.arg for a in fn.args.args]}')
    cases = []
    for s in fn.body:
        if isinstance(s, ast.ImportFrom) or (isinstance(s, ast.Expr) and isinstance(s.value, ast.Constant)):
            continue
        if isinstance(s, ast.If) and not s.orelse and len(s.body) == 1 and isinstance(s.body[0], ast.Return):
            cases.append(tr_return(rel, s.body[0], tr_guard(rel, s.test), wavetypes))
        elif isinstance(s, ast.Return):
            cases.append(tr_return(rel, s, 'none', wavetypes))
            break
        else:
            _err(rel, s, f'statement outside the grammar: {ast.unparse(s)[:60]}')
    if not cases or 'guard := none' not in cases[-1]:
        _err(rel, fn, 'translator does not end in an unconditional return')
    return lean_list(cases)

def known_wavetypes(src) -> list:
    """wave types `periodic_function` accepts: the classes registered in fourier_series_mapping"""
    mod = extract.parse(src, PFN)
    d = module_dict(PFN, mod, 'fourier_series_mapping')
    table = wavetype_table(src)
    out = []
    for k in d.keys:
        if not (isinstance(k, ast.Name) and k.id in table):
            _err(PFN, k, 'fourier_series_mapping key is not a class with a wavetype')
        out.append(table[k.id])
    fn = next((s for s in mod.body if isinstance(s, ast.FunctionDef) and s.name == 'periodic_function'), None)
    want = ("def periodic_function(wavetype: str) -> Type[PeriodicFunction]:\n    try:\n        return [pf for pf in periodic_functions if pf.wavetype == wavetype][0]\n"
            "    except IndexError:\n        raise UnknownWavetype(f'Periodic function of type {wavetype} is unknown.')")
    if fn is None or ast.unparse(fn) != want:
        _err(PFN, fn or mod, 'periodic_function is not the function the hand-written model mirrors')
    pfl = [ast.unparse(s.value) for s in mod.body if isinstance(s, (ast.Assign, ast.AnnAssign))
           and ast.unparse(s.targets[0] if isinstance(s, ast.Assign) else s.target) == 'periodic_functions']
    if pfl != ['list(fourier_series_mapping.keys())']:
        _err(PFN, mod, f'periodic_functions is {pfl}')
    return out

def wavetype_table(src) -> dict:
    mod = extract.parse(src, PFN)
    out = {}
    for c in mod.body:
        if isinstance(c, ast.ClassDef):
            for s in c.body:
                if (isinstance(s, ast.AnnAssign) and isinstance(s.target, ast.Name) and s.target.id == 'wavetype'
                        and isinstance(s.value, ast.Constant) and isinstance(s.value.value, str)):
                    out[c.name] = s.value.value
    return out

def module_dict(rel, mod, name) -> ast.Dict:
    for s in mod.body:
        tgt = None
        if isinstance(s, ast.Assign) and len(s.targets) == 1:
            tgt = s.targets[0]
        elif isinstance(s, ast.AnnAssign):
            tgt = s.target
        if isinstance(tgt, ast.Name) and tgt.id == name:
            if not isinstance(s.value, ast.Dict):
                _err(rel, s, f'{name} is not a dictionary literal')
            return s.value
    raise ExtractError(f'{rel}: dictionary {name} not found')

def gen_translators(src) -> tuple[str, list]:
    mod = extract.parse(src, TRS)
    wavetypes = wavetype_table(src)
    d = module_dict(TRS, mod, 'circuit_translator_map')
    tmap = []
    for k, v in zip(d.keys, d.values):
        if not (isinstance(k, ast.Attribute) and isinstance(k.value, ast.Name) and k.value.id == 'elm' and isinstance(v, ast.Name)):
            _err(TRS, k, f'map entry outside the grammar: {ast.unparse(k)}: {ast.unparse(v)}')
        tmap.append((k.attr, v.id))
    if len({k for k, _ in tmap}) != len(tmap):
        raise ExtractError(f'{TRS}: duplicate class in circuit_translator_map')
    fns = {s.name: s for s in mod.body if isinstance(s, ast.FunctionDef)}
    used = []
    for _, f in tmap:
        if f not in fns:
            raise ExtractError(f'{TRS}: translator {f} not defined')
        if f not in used:
            used.append(f)
    out = ['def translatorMap : List (String × String) :=\n  ' +
           lean_list([f'({lean_str(k)}, {lean_str(v)})' for k, v in tmap], ',\n   '), '']
    out.append('def translators : List (String × List TrCase) :=\n  ' +
               lean_list([f'({lean_str(f)},\n    {translator_body(TRS, fns[f], wavetypes)})' for f in used], ',\n   '))
    out.append('')
    out.append('def wavetypes : List (String × String) :=\n  ' +
               lean_list([f'({lean_str(k)}, {lean_str(v)})' for k, v in wavetypes.items()], ', '))
    out.append('')
    out.append('/-- wave types accepted by `periodic_function` -/\ndef knownWavetypes : List String :=\n  ' +
               lean_list([lean_str(v) for v in known_wavetypes(src)], ', '))
    ctors_used = []
    for f in used:
        for n in ast.walk(fns[f]):
            if isinstance(n, ast.Call) and isinstance(n.func, ast.Attribute) and isinstance(n.func.value, ast.Name) and n.func.value.id == 'ccp':
                if n.func.attr not in ctors_used:
                    ctors_used.append(n.func.attr)
    return '\n'.join(out), ctors_used

# --------------------------------------------------------------------------- component constructors

def ctor_cexpr(rel, n, params) -> str:
    if isinstance(n, ast.Name) and n.id in params:
        return f'(.param {lean_str(n.id)})'
    if isinstance(n, ast.Attribute) and isinstance(n.value, ast.Name) and n.value.id in params and n.attr in ('real', 'imag'):
        return f'(.{"re" if n.attr == "real" else "im"} {lean_str(n.value.id)})'
    if isinstance(n, ast.Constant) and isinstance(n.value, (int, float)) and not isinstance(n.value, bool):
        return f'(.lit {lean_rat(n.value)})'
    _err(rel, n, f'value entry outside the grammar: {ast.unparse(n)}')

def gen_ctors(src, names) -> str:
    mod = extract.parse(src, CMP)
    fns = {s.name: s for s in mod.body if isinstance(s, ast.FunctionDef)}
    recs = []
    for name in names:
        if name not in fns:
            raise ExtractError(f'{CMP}: constructor {name} not defined')
        fn = fns[name]
        a = fn.args
        if a.vararg or a.kwarg or a.kwonlyargs or a.posonlyargs:
            _err(CMP, fn, 'constructor signature outside the grammar')
        pnames = [x.arg for x in a.args]
        defaults = [None] * (len(pnames) - len(a.defaults)) + list(a.defaults)
        if 'id' not in pnames or 'nodes' not in pnames:
            _err(CMP, fn, 'constructor without id/nodes')
        params = []
        for p, dflt in zip(pnames, defaults):
            if p in ('id', 'nodes'):
                continue
            if dflt is None:
                params.append(f'({lean_str(p)}, none)')
            elif isinstance(dflt, ast.Constant) and isinstance(dflt.value, (int, float)) and not isinstance(dflt.value, bool):
                params.append(f'({lean_str(p)}, some {lean_rat(dflt.value)})')
            else:
                _err(CMP, fn, f'default of {p} outside the grammar')
        guards = []
        guards_le = []
        wchecks = []
        ret = None
        for s in fn.body:
            if isinstance(s, ast.Expr) and isinstance(s.value, ast.Constant):
                continue
            if (isinstance(s, ast.If) and not s.orelse and len(s.body) == 1 and isinstance(s.body[0], ast.Raise)
                    and isinstance(s.test, ast.Compare) and len(s.test.ops) == 1 and isinstance(s.test.ops[0], (ast.Lt, ast.LtE))
                    and isinstance(s.test.left, ast.Name) and s.test.left.id in pnames
                    and isinstance(s.test.comparators[0], ast.Constant) and s.test.comparators[0].value == 0):
                exc = s.body[0].exc
                excname = exc.func.id if isinstance(exc, ast.Call) and isinstance(exc.func, ast.Name) else None
                if excname != 'ValueError':
                    _err(CMP, s, 'guard raises something other than ValueError')
                (guards if isinstance(s.test.ops[0], ast.Lt) else guards_le).append(lean_str(s.test.left.id))
            elif (isinstance(s, ast.Expr) and isinstance(s.value, ast.Call) and isinstance(s.value.func, ast.Name)
                  and s.value.func.id == 'periodic_function' and len(s.value.args) == 1 and not s.value.keywords
                  and isinstance(s.value.args[0], ast.Name) and s.value.args[0].id in pnames):
                # validation call: raises UnknownWavetype unless the argument is a registered wave type
                wchecks.append(lean_str(s.value.args[0].id))
            elif isinstance(s, ast.Return):
                ret = s
                break
            else:
                _err(CMP, s, f'statement outside the grammar: {ast.unparse(s)[:60]}')
            if wchecks and isinstance(s, ast.If):
                _err(CMP, s, 'value guard after the wave-type validation (the model checks guards first)')
        if not (ret is not None and isinstance(ret.value, ast.Call) and isinstance(ret.value.func, ast.Name)
                and ret.value.func.id == 'Component' and not ret.value.args):
            _err(CMP, fn, 'constructor does not return Component(...)')
        kws = {k.arg: k.value for k in ret.value.keywords}
        if not (isinstance(kws.get('type'), ast.Constant) and isinstance(kws['type'].value, str)):
            _err(CMP, fn, 'type= is not a string literal')
        if not (isinstance(kws.get('id'), ast.Name) and kws['id'].id == 'id' and isinstance(kws.get('nodes'), ast.Name) and kws['nodes'].id == 'nodes'):
            _err(CMP, fn, 'id/nodes are not forwarded unchanged')
        values = []
        if 'value' in kws:
            if not isinstance(kws['value'], ast.Dict):
                _err(CMP, fn, 'value= is not a dictionary literal')
            for k, v in zip(kws['value'].keys, kws['value'].values):
                if not (isinstance(k, ast.Constant) and isinstance(k.value, str)):
                    _err(CMP, fn, 'value key is not a string literal')
                values.append(f'({lean_str(k.value)}, {ctor_cexpr(CMP, v, pnames)})')
        if set(kws) - {'type', 'id', 'nodes', 'value'}:
            _err(CMP, fn, f'unexpected Component keywords {sorted(kws)}')
        recs.append(f'{{ name := {lean_str(name)}, kind := {lean_str(kws["type"].value)},\n'
                    f'          params := {lean_list(params, ", ")},\n'
                    f'          guards := {lean_list(guards, ", ")}, guardsLE := {lean_list(guards_le, ", ")},\n'
                    f'          wavetypeChecks := {lean_list(wchecks, ", ")},\n'
                    f'          values := {lean_list(values, ", ")} }}')
    return 'def ctors : List CtorSpec :=\n  ' + lean_list(recs, ',\n   ')

# --------------------------------------------------------------------------- element classes

def _self_attr(n, attr=None):
    return (isinstance(n, ast.Attribute) and isinstance(n.value, ast.Name) and n.value.id == 'self'
            and (attr is None or n.attr == attr))

def elem_fexpr(rel, n, params) -> str | None:
    """right-hand side of `self._x = …` in a symbol constructor"""
    if isinstance(n, ast.Name) and n.id in params:
        return f'(.param {lean_str(n.id)})'
    if (isinstance(n, ast.IfExp) and isinstance(n.test, ast.UnaryOp) and isinstance(n.test.op, ast.Not)
            and isinstance(n.test.operand, ast.Name) and n.test.operand.id == 'reverse'
            and isinstance(n.body, ast.Name) and n.body.id in params
            and isinstance(n.orelse, ast.UnaryOp) and isinstance(n.orelse.op, ast.USub)
            and isinstance(n.orelse.operand, ast.Name) and n.orelse.operand.id == n.body.id):
        return f'(.negIfRev {lean_str(n.body.id)})'
    return None

def elem_pexpr(n) -> str:
    """body of a property getter"""
    if _self_attr(n):
        return f'(.field {lean_str(n.attr)})'
    if (isinstance(n, ast.BinOp) and isinstance(n.op, ast.Div) and isinstance(n.left, ast.Constant) and n.left.value == 1
            and _self_attr(n.right)):
        return f'(.inv {lean_str(n.right.attr)})'
    if isinstance(n, ast.Constant) and isinstance(n.value, str):
        return f'(.str {lean_str(n.value)})'
    if isinstance(n, ast.Constant) and isinstance(n.value, bool):
        return f'(.bool {"true" if n.value else "false"})'
    return f'(.other {lean_str(ast.unparse(n))})'

DECORATOR_SRC = '''def simple_circuit_element(element):

    class decorated_element(element, SimpleCircuitElement):

        def __init__(self, *args, **kwargs):
            element.__init__(self, *args, **kwargs)
            SimpleCircuitElement.__init__(self, name=kwargs.get('name', ''), reverse=kwargs.get('reverse', False))
    return decorated_element'''

def round_digits(fn) -> list:
    """`round_node`: the chain of decimal roundings applied to each coordinate, innermost first
    (`round(x, ndigits=2)` ↦ [2]; `round(round(x, ndigits=9), ndigits=2)` ↦ [9, 2])"""
    if fn is None or len(fn.body) != 2 or not isinstance(fn.body[0], ast.FunctionDef) or fn.body[0].name != 'local_round':
        _err(ELM, fn, 'round_node is not the function the hand-written model mirrors')
    if ast.unparse(fn.body[1]) != 'return schemdraw.util.Point((local_round(node.x), local_round(node.y)))':
        _err(ELM, fn, 'round_node does not round both coordinates with local_round')
    lr = fn.body[0]
    if [a.arg for a in lr.args.args] != ['x'] or len(lr.body) != 1 or not isinstance(lr.body[0], ast.Return):
        _err(ELM, lr, 'local_round outside the grammar')
    digits = []
    e = lr.body[0].value
    while True:
        if isinstance(e, ast.Name) and e.id == 'x':
            break
        if not (isinstance(e, ast.Call) and isinstance(e.func, ast.Name) and e.func.id == 'round' and len(e.args) == 1
                and len(e.keywords) == 1 and e.keywords[0].arg == 'ndigits' and isinstance(e.keywords[0].value, ast.Constant)
                and isinstance(e.keywords[0].value.value, int) and 0 <= e.keywords[0].value.value <= 15):
            _err(ELM, lr, f'local_round outside the grammar: {ast.unparse(lr.body[0])}')
        digits.insert(0, e.keywords[0].value.value)
        e = e.args[0]
    if not digits:
        _err(ELM, lr, 'local_round does not round')
    return digits

def gen_elem_classes(src) -> str:
    mod = extract.parse(src, ELM)
    for name, want in (('simple_circuit_element', DECORATOR_SRC),):
        fn = next((s for s in mod.body if isinstance(s, ast.FunctionDef) and s.name == name), None)
        if fn is None or ast.unparse(fn) != want:
            _err(ELM, fn or mod, f'{name} is not the function the hand-written model mirrors')
    classes = [s for s in mod.body if isinstance(s, ast.ClassDef)]
    names = {c.name for c in classes}
    info = {}
    recs = []
    for c in classes:
        bases = []
        for b in c.bases:
            if isinstance(b, ast.Name):
                bases.append(b.id)
            elif isinstance(b, ast.Attribute):
                bases.append(ast.unparse(b))
            else:
                _err(ELM, c, 'base class expression outside the grammar')
        decos = [ast.unparse(d) for d in c.decorator_list]
        local_bases = [b for b in bases if b in names]
        named = 'simple_circuit_element' in decos or any(info.get(b, {}).get('named') for b in local_bases)
        anc = []
        ext = [b for b in bases if b not in names]
        for b in local_bases:
            anc += [b] + info[b]['anc']
            ext += info[b]['ext']
        init = next((s for s in c.body if isinstance(s, ast.FunctionDef) and s.name == '__init__'), None)
        params, fields, sin_shift, rev_fwd = [], [], 'none', '""'
        if init is not None:
            a = init.args
            pos = [x.arg for x in a.args][1:]
            dflt = [None] * (len(pos) - len(a.defaults)) + list(a.defaults)
            for p, dv in zip(pos, dflt):
                params.append((p, False, dv))
            for p, dv in zip(a.kwonlyargs, a.kw_defaults):
                params.append((p.arg, True, dv))
            pn = [p for p, _, _ in params]
            for s in ast.walk(init):
                if isinstance(s, ast.Assign) and len(s.targets) == 1 and _self_attr(s.targets[0]):
                    fe = elem_fexpr(ELM, s.value, pn)
                    if fe is None:
                        if s.targets[0].attr.startswith('_'):
                            _err(ELM, s, f'field assignment outside the grammar: {ast.unparse(s)}')
                        fe = f'(.other {lean_str(ast.unparse(s.value)[:60])})'
                    fields.append(f'({lean_str(s.targets[0].attr)}, {fe})')
                if isinstance(s, ast.AugAssign) and _self_attr(s.target):
                    # if self._sin: self._phi -= np.pi/2
                    # … or `self._phi -= <n> if <param> else np.pi/2` (the shift in degrees when the phase is in degrees)
                    deg_alt = 'none'
                    v = s.value
                    if (isinstance(v, ast.IfExp) and isinstance(v.test, ast.Name) and v.test.id in pn
                            and isinstance(v.body, ast.Constant) and isinstance(v.body.value, (int, float)) and not isinstance(v.body.value, bool)
                            and ast.unparse(v.orelse) == 'np.pi / 2'):
                        deg_alt = f'(some ({lean_str(v.test.id)}, {lean_rat(v.body.value)}))'
                        ok = isinstance(s.op, ast.Sub)
                    else:
                        ok = (isinstance(s.op, ast.Sub) and ast.unparse(v) == 'np.pi / 2')
                    if not ok:
                        _err(ELM, s, f'augmented assignment outside the grammar: {ast.unparse(s)}')
                    par = next((p for p in ast.walk(init) if isinstance(p, ast.If) and s in p.body), None)
                    if par is None or not _self_attr(par.test) or par.orelse or len(par.body) != 1:
                        _err(ELM, s, 'phase shift is not guarded by a plain `if self._flag:`')
                    sin_shift = f'(some ({lean_str(par.test.attr)}, {lean_str(s.target.attr)}, {deg_alt}))'
                if (isinstance(s, ast.Call) and isinstance(s.func, ast.Attribute) and s.func.attr == '__init__'
                        and isinstance(s.func.value, ast.Call) and isinstance(s.func.value.func, ast.Name) and s.func.value.func.id == 'super'):
                    for k in s.keywords:
                        if k.arg == 'reverse':
                            rev_fwd = lean_str(ast.unparse(k.value))
        plist = []
        for p, kwonly, dv in params:
            if dv is None:
                d = 'none'
            elif isinstance(dv, ast.Constant) and isinstance(dv.value, bool):
                d = f'(some (.bool {"true" if dv.value else "false"}))'
            elif isinstance(dv, ast.Constant) and isinstance(dv.value, (int, float)):
                d = f'(some (.num ⟨{lean_rat(dv.value)}, 0⟩))'
            elif isinstance(dv, ast.Constant) and isinstance(dv.value, str):
                d = f'(some (.str {lean_str(dv.value)}))'
            elif isinstance(dv, ast.Attribute):          # enum member / module constant: keep the member name
                d = f'(some (.str {lean_str(dv.attr)}))'
            else:
                d = f'(some (.str {lean_str(ast.unparse(dv))}))'
            plist.append(f'({lean_str(p)}, {"true" if kwonly else "false"}, {d})')
        props = []
        typ = ''
        for s in c.body:
            if (isinstance(s, ast.FunctionDef) and any(isinstance(d, ast.Name) and d.id == 'property' for d in s.decorator_list)):
                body = [b for b in s.body if not (isinstance(b, ast.Expr) and isinstance(b.value, ast.Constant))]
                if len(body) == 1 and isinstance(body[0], ast.Return) and body[0].value is not None:
                    pe = elem_pexpr(body[0].value)
                    if s.name == 'type':
                        if not (isinstance(body[0].value, ast.Constant) and isinstance(body[0].value.value, str)):
                            _err(ELM, s, '`type` does not return a string literal')
                        typ = body[0].value.value
                    props.append(f'({lean_str(s.name)}, {pe})')
                elif s.name == 'type':
                    typ = ''       # abstract `...`
                else:
                    props.append(f'({lean_str(s.name)}, (.other "…"))')
        info[c.name] = dict(named=named, anc=anc, ext=ext)
        recs.append(f'{{ cls := {lean_str(c.name)}, typ := {lean_str(typ)}, named := {"true" if named else "false"},\n'
                    f'          ancestors := {lean_list([lean_str(x) for x in anc], ", ")},\n'
                    f'          extBases := {lean_list([lean_str(x) for x in ext], ", ")},\n'
                    f'          decorators := {lean_list([lean_str(x) for x in decos], ", ")},\n'
                    f'          params := {lean_list(plist, ", ")},\n'
                    f'          fields := {lean_list(fields, ", ")},\n'
                    f'          sinShift := {sin_shift}, revForward := {rev_fwd},\n'
                    f'          props := {lean_list(props, ", ")} }}')
    rd = round_digits(next((s for s in mod.body if isinstance(s, ast.FunctionDef) and s.name == 'round_node'), None))
    return ('/-- `round_node`: decimal places of the chain of `round(…, ndigits=…)` calls, innermost first -/\n'
            f'def roundDigits : List Nat := {rd}\n\n'
            'def elemClasses : List ElemClass :=\n  ' + lean_list(recs, ',\n   '))

# --------------------------------------------------------------------------- loader / declarative tables

def _lambda_class(rel, lam, module_alias, wrapper=None):
    """`lambda **kwargs: <alias>.<Class>(**kwargs)` or `…(**combine_to_complex((a, b), 'z', kwargs))`
    or (declarative) `lambda kwargs: element_factory(elm.<Class>, **kwargs)`"""
    if not isinstance(lam, ast.Lambda):
        _err(rel, lam, 'table value is not a lambda')
    return lam.body

def gen_loader_types(src) -> str:
    mod = extract.parse(src, DLD)
    d = module_dict(DLD, mod, 'simple_circuit_element_types')
    recs = []
    for k, v in zip(d.keys, d.values):
        if not (isinstance(k, ast.Constant) and isinstance(k.value, str) and isinstance(v, ast.Lambda)
                and v.args.kwarg is not None and v.args.kwarg.arg == 'kwargs' and not v.args.args):
            _err(DLD, k, 'loader entry outside the grammar')
        call = v.body
        if not (isinstance(call, ast.Call) and isinstance(call.func, ast.Attribute) and isinstance(call.func.value, ast.Name)
                and call.func.value.id == 'simple_circuit_elements' and not call.args and len(call.keywords) == 1
                and call.keywords[0].arg is None):
            _err(DLD, v, f'loader body outside the grammar: {ast.unparse(call)}')
        inner = call.keywords[0].value
        comb = 'none'
        if isinstance(inner, ast.Name) and inner.id == 'kwargs':
            pass
        elif (isinstance(inner, ast.Call) and isinstance(inner.func, ast.Name) and inner.func.id == 'combine_to_complex'
              and len(inner.args) == 3 and isinstance(inner.args[0], ast.Tuple) and len(inner.args[0].elts) == 2
              and all(isinstance(e, ast.Constant) and isinstance(e.value, str) for e in inner.args[0].elts)
              and isinstance(inner.args[1], ast.Constant) and isinstance(inner.args[1].value, str)
              and isinstance(inner.args[2], ast.Name) and inner.args[2].id == 'kwargs'):
            comb = (f'(some ({lean_str(inner.args[0].elts[0].value)}, {lean_str(inner.args[0].elts[1].value)}, '
                    f'{lean_str(inner.args[1].value)}))')
        else:
            _err(DLD, v, f'loader argument outside the grammar: {ast.unparse(inner)}')
        recs.append(f'{{ typ := {lean_str(k.value)}, cls := {lean_str(call.func.attr)}, combine := {comb} }}')
    # combine_to_complex itself: kv.update({z: complex(kv.pop(re, 0), kv.pop(im, 0))})
    fn = next((s for s in mod.body if isinstance(s, ast.FunctionDef) and s.name == 'combine_to_complex'), None)
    if fn is None:
        raise ExtractError(f'{DLD}: combine_to_complex not found')
    want = "kv.update({z: complex(kv.pop(real_imag[0], 0), kv.pop(real_imag[1], 0))})"
    body = [ast.unparse(s) for s in fn.body]
    if body != [want, 'return kv']:
        _err(DLD, fn, f'combine_to_complex changed: {body}')
    return 'def loaderTypes : List LoaderType :=\n  ' + lean_list(recs, ',\n   ')

def gen_undictify(src) -> str:
    """the order in which undictify_element merges keyword sources (later wins)"""
    mod = extract.parse(src, DLD)
    fn = next((s for s in mod.body if isinstance(s, ast.FunctionDef) and s.name == 'undictify_element'), None)
    if fn is None:
        raise ExtractError(f'{DLD}: undictify_element not found')
    steps = []
    for s in fn.body:
        u = ast.unparse(s)
        if u == "kwargs = deserialize_schemdraw_elements(element_dict['values']['_userparams'])":
            steps.append('userparams')
        elif u == "kwargs.update({'name': element_dict.get('name', '')})":
            steps.append('name')
        elif u == "kwargs.update({'reverse': element_dict.get('reverse', False)})":
            steps.append('reverse')
        elif isinstance(s, ast.If) and ast.unparse(s.test) == "element_dict['name'] in circuit_dict.keys()" and not s.orelse \
                and [ast.unparse(b) for b in s.body][:1] == ["kwargs.update(circuit_dict[element_dict['name']])"]:
            steps.append('circuit')
            rest = [ast.unparse(b) for b in s.body][1:]
            # the stored phase is radians / cosine reference: the flags must not be applied again
            if rest == ["if 'phi' in circuit_dict[element_dict['name']]:\n    kwargs.update({'deg': False, 'sin': False})"]:
                steps.append('clear_flags_if_phi')
            elif rest:
                _err(DLD, s, f'circuit merge outside the grammar: {rest}')
        elif isinstance(s, ast.Try):
            t = [ast.unparse(b) for b in s.body]
            h = [ast.unparse(b) for hd in s.handlers for b in hd.body]
            hn = [ast.unparse(hd.type) if hd.type is not None else '' for hd in s.handlers]
            if t != ["element = simple_circuit_element_types[element_dict['type']](**kwargs)"] or \
               h != ['element = simple_circuit_elements.Element(**kwargs)'] or hn != ['KeyError']:
                _err(DLD, s, 'class selection outside the grammar')
            steps.append('construct')
        elif isinstance(s, ast.Assign) and u.startswith('element.') and "deserialize_schemdraw_elements(element_dict['values']['" in u:
            tgt = s.targets[0].attr
            key = s.value.args[0].slice.value
            if tgt != key:
                _err(DLD, s, f'attribute {tgt} restored from key {key}')
            steps.append('restore:' + tgt)
        elif isinstance(s, ast.Return) and u == 'return element':
            steps.append('return')
        else:
            _err(DLD, s, f'undictify_element statement outside the grammar: {u[:70]}')
    fn2 = next((s for s in mod.body if isinstance(s, ast.FunctionDef) and s.name == 'dictify_element'), None)
    if fn2 is None:
        raise ExtractError(f'{DLD}: dictify_element not found')
    ret = fn2.body[-1]
    if not (isinstance(ret, ast.Return) and isinstance(ret.value, ast.Call)):
        _err(DLD, fn2, 'dictify_element outside the grammar')
    kws = {k.arg: k.value for k in ret.value.keywords}
    head = [(k, ast.unparse(kws[k])) for k in ('type', 'name', 'reverse') if k in kws]
    if head != [('type', 'e.type'), ('name', 'e.name'), ('reverse', 'e.is_reverse')]:
        _err(DLD, fn2, f'dictify_element header fields changed: {head}')
    if not isinstance(kws.get('values'), ast.Dict):
        _err(DLD, fn2, 'dictify_element values is not a dictionary literal')
    saved = []
    for k, v in zip(kws['values'].keys, kws['values'].values):
        want = f'serialize_schemdraw_element(e.{k.value})'
        if ast.unparse(v) != want:
            _err(DLD, fn2, f'saved field {k.value} is {ast.unparse(v)}')
        saved.append(k.value)
    return ('def undictifySteps : List String :=\n  ' + lean_list([lean_str(s) for s in steps], ', ') + '\n\n' +
            'def dictifySaved : List String :=\n  ' + lean_list([lean_str(s) for s in saved], ', '))

def gen_decl_handlers(src) -> str:
    mod = extract.parse(src, SCH)
    d = module_dict(SCH, mod, 'element_handlers')
    recs = []

    def factory_class(n):
        if (isinstance(n, ast.Call) and isinstance(n.func, ast.Name) and n.func.id == 'element_factory' and len(n.args) == 1
                and isinstance(n.args[0], ast.Attribute) and isinstance(n.args[0].value, ast.Name) and n.args[0].value.id == 'elm'
                and len(n.keywords) == 1 and n.keywords[0].arg is None and isinstance(n.keywords[0].value, ast.Name)
                and n.keywords[0].value.id == 'kwargs'):
            return n.args[0].attr
        return None
    for k, v in zip(d.keys, d.values):
        if not (isinstance(k, ast.Constant) and isinstance(k.value, str) and isinstance(v, ast.Lambda)
                and [a.arg for a in v.args.args] == ['kwargs']):
            _err(SCH, k, 'handler entry outside the grammar')
        b = v.body
        cls = factory_class(b)
        if cls is not None:
            recs.append(f'{{ typ := {lean_str(k.value)}, cls := {lean_str(cls)}, clsIfName := none }}')
        elif (isinstance(b, ast.IfExp) and ast.unparse(b.test) == "'name' in kwargs.keys()"
              and factory_class(b.body) and factory_class(b.orelse)):
            recs.append(f'{{ typ := {lean_str(k.value)}, cls := {lean_str(factory_class(b.orelse))}, '
                        f'clsIfName := some {lean_str(factory_class(b.body))} }}')
        else:
            _err(SCH, v, f'handler body outside the grammar: {ast.unparse(b)}')
    # apply_direction_and_length: direction string ↦ method
    fn = next((s for s in mod.body if isinstance(s, ast.FunctionDef) and s.name == 'apply_direction_and_length'), None)
    if fn is None:
        raise ExtractError(f'{SCH}: apply_direction_and_length not found')
    dirs = []
    node = fn.body[0]
    one_terminal_plain = 'false'
    if isinstance(node, ast.If) and ast.unparse(node.test) == 'not isinstance(element, elm.schemdraw.elements.Element2Term)':
        want0 = ["return getattr(element, direction)() if direction in ('right', 'left', 'up', 'down') else element"]
        if [ast.unparse(b) for b in node.body] != want0 or node.orelse:
            _err(SCH, node, 'one-terminal branch of apply_direction_and_length outside the grammar')
        one_terminal_plain = 'true'
        node = fn.body[1]
    while isinstance(node, ast.If):
        t = node.test
        if not (isinstance(t, ast.Compare) and isinstance(t.left, ast.Name) and t.left.id == 'direction'
                and isinstance(t.ops[0], ast.Eq) and isinstance(t.comparators[0], ast.Constant)):
            _err(SCH, node, 'direction test outside the grammar')
        call = node.body[0]
        u = ast.unparse(call)
        meth = call.value.func.attr if isinstance(call, ast.Expr) and isinstance(call.value, ast.Call) and isinstance(call.value.func, ast.Attribute) else None
        if meth is None or u != f'element.{meth}(length * unit)':
            _err(SCH, node, f'direction action outside the grammar: {u}')
        dirs.append(f'({lean_str(t.comparators[0].value)}, {lean_str(meth)})')
        node = node.orelse[0] if len(node.orelse) == 1 else None
    dflt = {a.arg: ast.unparse(dv) for a, dv in zip(fn.args.args[-len(fn.args.defaults):], fn.args.defaults)}
    if dflt != {'direction': "''", 'length': '1', 'unit': '1'}:
        _err(SCH, fn, f'defaults of apply_direction_and_length changed: {dflt}')
    fill = next((s for s in mod.body if isinstance(s, ast.FunctionDef) and s.name == 'fill'), None)
    loop = fill.body[0] if fill is not None else None
    want = ["se = transform_to_schematic_element(e)",
            "se = apply_direction_and_length(se, e.get('direction', ''), e.get('length', 1), unit)",
            "se = apply_position(se, get_placed_element(schematic, e.get('place_after', None)))",
            "schematic += se"]
    if not (isinstance(loop, ast.For) and [ast.unparse(s) for s in loop.body] == want):
        _err(SCH, fill or mod, 'the element loop of fill() changed')
    ap = next((s for s in mod.body if isinstance(s, ast.FunctionDef) and s.name == 'apply_position'), None)
    if ap is None or [ast.unparse(s) for s in ap.body] != ['if origin_element is None:\n    return element', 'return element.at(origin_element.end)']:
        _err(SCH, ap or mod, 'apply_position changed')
    ef = next((s for s in mod.body if isinstance(s, ast.FunctionDef) and s.name == 'element_factory'), None)
    efd = {a.arg: ast.unparse(dv) for a, dv in zip(ef.args.args[-len(ef.args.defaults):], ef.args.defaults)} if ef else {}
    if efd != {'name': "''", 'reverse': 'False'}:
        _err(SCH, ef or mod, f'element_factory defaults changed: {efd}')
    first = ef.body[0]
    if not (isinstance(first, ast.Try) and [ast.unparse(s) for s in first.body] == ['return element(name=name, reverse=reverse, **kwargs)']):
        _err(SCH, ef, 'element_factory call changed')
    return ('def declHandlers : List DeclHandler :=\n  ' + lean_list(recs, ',\n   ') + '\n\n' +
            'def declDirections : List (String × String) :=\n  ' + lean_list(dirs, ', ') + '\n\n' +
            '/-- one-terminal symbols get their direction method called without a length -/\n'
            f'def declOneTerminalPlain : Bool := {one_terminal_plain}\n\n' +
            '/-- keyword defaults injected by `element_factory` -/\n'
            'def declFactoryDefaults : List (String × Val) := [("name", .str ""), ("reverse", .bool false)]\n\n'
            '/-- `apply_position`: the element is placed at the `end` anchor of the element named by `place_after` -/\n'
            'def declPlaceAfterAnchor : String := "end"')

# --------------------------------------------------------------------------- the file

@extract.generator('DrawTables.lean')
def draw_tables(src: Path) -> str:
    trs, ctor_names = gen_translators(src)
    parts = [
        '/- GENERATED by harness/extract_draw.py from /repo/src — do not edit. -/',
        'import CC.Model.DrawTypes',
        'namespace CC.Draw.Gen',
        'open CC.Draw',
        '',
        trs, '',
        gen_ctors(src, ctor_names), '',
        gen_elem_classes(src), '',
        gen_loader_types(src), '',
        gen_undictify(src), '',
        gen_decl_handlers(src), '',
        'end CC.Draw.Gen', '',
    ]
    return '\n'.join(parts)
