"""
extract_fmt.py — translator part of group Fmt (C18, C14):

  /repo/src/CircuitCalculator/Utils.py, SimpleCircuit/Display.py      → lean/CC/Gen/FmtTables.lean
  SimpleCircuit/DiagramSolution.py, SimpleSimulation/schematic.py    → lean/CC/Gen/AnnotTables.lean

What is *translated* expression by expression (grammar below): the dataclass defaults, every
SI-prefix dictionary literal, `is_zero`, `is_inf`, `mantissa`, `exponent3`, `mantissa3`,
`value3` (min/max exponent), `exp_prefix`, `rebase_exp`/`exp_extension`, `real_sign`,
`imag_sign`; the keyword arguments of every `ScientificFloat(...)`/`ScientificComplex(...)`
call of the `Display.print_*` helpers; the `solutions` table, the adapter methods (sign
line, callee, unit, forwarded options), the label factories and the solution constructors.

What is *guarded by shape*: the string-assembly methods (`exponent`, `_float_to_string`,
`ScientificFloat.__str__`, `ScientificComplex.__str__`, `print_sinosoidal`,
`print_active_power`, `print_active_reactive_power`) are modelled by hand in
CC/Model/Fmt.lean.  Their constants (strings, thresholds, format widths) are generated; their
statement structure — the AST with constants abstracted — must equal the shape recorded
below, otherwise the translator refuses (ExtractError ⇒ broken obligation), because the
hand-written model would no longer be known to mirror the code.

Grammar of the expression translator: int/str/bool constants, names, `self.<attr>`,
`self.value.real/.imag`, `a if c else b`, `not`, comparisons, `+ - *`, `/`, `10**e`,
`int(..)`, `np.round(x)`, `np.floor(a/b)`, `max/min(self.exp_prefixes.keys())`,
`k in self.exp_prefixes.keys()`, `self.exp_prefixes[k]`, `.get(k, '')`, `.strip()`, f-strings
of constants and integers; statements `x = e`, `if c: …` (no else) and `return e`.
"""
from __future__ import annotations
import ast, hashlib
from fractions import Fraction
import extract
from extract import ExtractError, generator

# --------------------------------------------------------------------------- helpers

def chars(s: str) -> str:
    def one(c):
        if c == "'": return "'\\''"
        if c == '\\': return "'\\\\'"
        if c == '\n': return "'\\n'"
        return f"'{c}'"
    return '[' + ', '.join(one(c) for c in s) + ']'

def lean_int(n: int) -> str:
    return f'({n} : Int)'

def lean_rat_of_float(x: float) -> str:
    fr = Fraction(*float(x).as_integer_ratio())
    return f'(({fr.numerator} : Rat) / {fr.denominator})'

def table_literal(node: ast.AST, where: str) -> str:
    if not isinstance(node, ast.Dict):
        raise ExtractError(f'{where}: prefix table is not a dictionary literal')
    items = []
    seen = set()
    for k, v in zip(node.keys, node.values):
        try:
            kk = ast.literal_eval(k); vv = ast.literal_eval(v)
        except Exception:
            raise ExtractError(f'{where}: non-literal prefix table entry (line {node.lineno})')
        if not isinstance(kk, int) or isinstance(kk, bool) or not isinstance(vv, str):
            raise ExtractError(f'{where}: prefix table entry {kk!r}: {vv!r} is not int → str')
        if kk in seen:
            raise ExtractError(f'{where}: duplicate key {kk} in prefix table')
        seen.add(kk)
        items.append(f'({kk}, {chars(vv)})')
    return '[' + ', '.join(items) + ']'

def find_class(mod: ast.Module, name: str) -> ast.ClassDef:
    for n in mod.body:
        if isinstance(n, ast.ClassDef) and n.name == name:
            return n
    raise ExtractError(f'class {name} not found')

def find_func(body, name: str) -> ast.FunctionDef:
    for n in body:
        if isinstance(n, ast.FunctionDef) and n.name == name:
            return n
    raise ExtractError(f'function {name} not found')

def class_fields(cls: ast.ClassDef) -> dict:
    """dataclass fields: name -> default AST (or None)"""
    out = {}
    for n in cls.body:
        if isinstance(n, ast.AnnAssign) and isinstance(n.target, ast.Name):
            out[n.target.id] = n.value
    return out

def field_default_factory_dict(node: ast.AST, where: str) -> ast.Dict:
    # field(default_factory=lambda: {...})
    if (isinstance(node, ast.Call) and isinstance(node.func, ast.Name) and node.func.id == 'field'
            and len(node.keywords) == 1 and node.keywords[0].arg == 'default_factory'
            and isinstance(node.keywords[0].value, ast.Lambda)
            and isinstance(node.keywords[0].value.body, ast.Dict)):
        return node.keywords[0].value.body
    raise ExtractError(f'{where}: expected field(default_factory=lambda: {{...}})')

def literal(node, where, typ):
    try:
        v = ast.literal_eval(node)
    except Exception:
        raise ExtractError(f'{where}: non-literal default')
    if typ is int and (not isinstance(v, int) or isinstance(v, bool)):
        raise ExtractError(f'{where}: default {v!r} is not an int')
    if typ is not int and not isinstance(v, typ):
        raise ExtractError(f'{where}: default {v!r} is not {typ.__name__}')
    return v

class _Abstract(ast.NodeTransformer):
    """constants abstracted to their type: the shape of a function"""
    def visit_Constant(self, node):
        return ast.copy_location(ast.Name(id=f'<{type(node.value).__name__}>', ctx=ast.Load()), node)

def shape_of(fn: ast.AST) -> str:
    import copy
    t = _Abstract().visit(copy.deepcopy(fn))
    return hashlib.sha256(ast.dump(t, annotate_fields=False, include_attributes=False).encode()).hexdigest()[:16]

def consts_of(fn: ast.AST, typ) -> list:
    out = []
    for n in ast.walk(fn):
        if isinstance(n, ast.Constant) and type(n.value) is typ:
            out.append((n.lineno, n.col_offset, n.value))
    return [v for _, _, v in sorted(out)]

def check_shape(fn: ast.AST, expected: str, what: str):
    got = shape_of(fn)
    if got != expected:
        raise ExtractError(f'{what} (line {fn.lineno}): statement structure changed (shape {got}, '
                           f'modelled shape {expected}); the hand-written model no longer mirrors it')

# --------------------------------------------------------------------------- expression translator

SELF_TYPES = {
    'value': 'Rat', 'precision': 'Int', 'min_exp': 'Int', 'max_exp': 'Int', 'exponent': 'Int',
    'exponent3': 'Int', 'mantissa': 'Int', 'use_exp_prefix': 'Bool', 'exp_prefixes': 'Table',
    'compact': 'Bool', 'polar': 'Bool', 'deg': 'Bool',
}
LEAN_TYPE = {'Rat': 'Rat', 'Int': 'Int', 'Bool': 'Bool', 'Str': 'List Char', 'Table': 'Table'}

class Tr:
    """one function → one Lean definition"""
    def __init__(self, where: str, params: list[tuple[str, str]], local_funcs: dict | None = None):
        self.where = where
        self.params = list(params)             # explicit python parameters (name, type)
        self.used_self: list[str] = []         # self attributes in first-use order
        self.locals: dict[str, str] = dict(params)
        self.local_funcs = local_funcs or {}   # name -> (lean name, [self attrs], ret type)

    def err(self, node, msg):
        raise ExtractError(f'{self.where} line {getattr(node, "lineno", "?")}: {msg} — outside the translator grammar')

    def use_self(self, attr, node):
        if attr not in SELF_TYPES and attr not in ('re', 'im'):
            self.err(node, f'self.{attr}')
        if attr not in self.used_self:
            self.used_self.append(attr)
        return attr, ('Rat' if attr in ('re', 'im') else SELF_TYPES[attr])

    def is_keys(self, node):
        return (isinstance(node, ast.Call) and isinstance(node.func, ast.Attribute) and node.func.attr == 'keys'
                and not node.args and self.is_self_attr(node.func.value, 'exp_prefixes'))

    @staticmethod
    def is_self_attr(node, attr=None):
        return (isinstance(node, ast.Attribute) and isinstance(node.value, ast.Name) and node.value.id == 'self'
                and (attr is None or node.attr == attr))

    def coerce(self, pair, want, node):
        s, t = pair
        if t == want:
            return s
        if t == 'IntLit' and want in ('Int', 'Rat'):
            return f'({s} : {want})'
        if t == 'Int' and want == 'Rat':
            return f'(({s} : Int) : Rat)'
        self.err(node, f'type {t} where {want} is needed')

    def num_join(self, a, b, node):
        ta, tb = a[1], b[1]
        if 'Rat' in (ta, tb): want = 'Rat'
        elif ta == 'IntLit' and tb == 'IntLit': want = 'Int'
        elif ta in ('Int', 'IntLit') and tb in ('Int', 'IntLit'): want = 'Int'
        else: self.err(node, f'arithmetic on {ta}, {tb}')
        return self.coerce(a, want, node), self.coerce(b, want, node), want

    def expr(self, n) -> tuple[str, str]:
        if isinstance(n, ast.Constant):
            if isinstance(n.value, bool): return ('true' if n.value else 'false'), 'Bool'
            if isinstance(n.value, int): return str(n.value) if n.value >= 0 else f'({n.value})', 'IntLit'
            if isinstance(n.value, str): return f'({chars(n.value)} : List Char)', 'Str'
            self.err(n, f'constant {n.value!r}')
        if isinstance(n, ast.UnaryOp) and isinstance(n.op, ast.USub) and isinstance(n.operand, ast.Constant) \
                and isinstance(n.operand.value, int):
            return f'(-{n.operand.value})', 'IntLit'
        if isinstance(n, ast.Name):
            if n.id in self.locals:
                return n.id, self.locals[n.id]
            self.err(n, f'unknown name {n.id}')
        if isinstance(n, ast.Attribute):
            if self.is_self_attr(n):
                return self.use_self(n.attr, n)
            if n.attr in ('real', 'imag') and self.is_self_attr(n.value, 'value'):
                return self.use_self('re' if n.attr == 'real' else 'im', n)
            self.err(n, f'attribute {ast.unparse(n)}')
        if isinstance(n, ast.IfExp):
            c = self.cond(n.test)
            a, b = self.expr(n.body), self.expr(n.orelse)
            if a[1] == b[1] or {a[1], b[1]} <= {'Int', 'IntLit', 'Rat'}:
                if a[1] == b[1] and a[1] not in ('IntLit',):
                    return f'(if {c} then {a[0]} else {b[0]})', a[1]
                x, y, t = self.num_join(a, b, n)
                return f'(if {c} then {x} else {y})', t
            self.err(n, 'branches of different type')
        if isinstance(n, ast.BinOp):
            if isinstance(n.op, ast.Pow):
                if isinstance(n.left, ast.Constant) and n.left.value == 10:
                    e = self.coerce(self.expr(n.right), 'Int', n)
                    return f'(pow10 ({e}))', 'Rat'
                self.err(n, 'power other than 10**e')
            a, b = self.expr(n.left), self.expr(n.right)
            if isinstance(n.op, ast.Div):
                x = self.coerce(a, 'Rat', n); y = self.coerce(b, 'Rat', n)
                return f'({x} / {y})', 'Rat'
            op = {ast.Add: '+', ast.Sub: '-', ast.Mult: '*'}.get(type(n.op))
            if op is None: self.err(n, f'operator {type(n.op).__name__}')
            x, y, t = self.num_join(a, b, n)
            return f'({x} {op} {y})', t
        if isinstance(n, ast.Subscript):
            if self.is_self_attr(n.value, 'exp_prefixes'):
                self.use_self('exp_prefixes', n)
                k = self.coerce(self.expr(n.slice), 'Int', n)
                return f'(exp_prefixes.get ({k}))', 'Str'
            self.err(n, 'subscript')
        if isinstance(n, ast.JoinedStr):
            parts = []
            for v in n.values:
                if isinstance(v, ast.Constant) and isinstance(v.value, str):
                    parts.append(f'({chars(v.value)} : List Char)')
                elif isinstance(v, ast.FormattedValue) and v.conversion == -1 and v.format_spec is None:
                    s, t = self.expr(v.value)
                    if t not in ('Int', 'IntLit'): self.err(v, f'formatted value of type {t}')
                    parts.append(f'(intStr ({self.coerce((s, t), "Int", v)}))')
                else:
                    self.err(v, 'f-string part')
            return '(' + ' ++ '.join(parts or ['([] : List Char)']) + ')', 'Str'
        if isinstance(n, ast.Call):
            f = n.func
            if isinstance(f, ast.Name) and f.id == 'int' and len(n.args) == 1 and not n.keywords:
                s, t = self.expr(n.args[0])
                if t not in ('Int', 'IntLit'): self.err(n, f'int() of a {t}')
                return self.coerce((s, t), 'Int', n), 'Int'
            if isinstance(f, ast.Attribute) and isinstance(f.value, ast.Name) and f.value.id == 'np':
                if f.attr == 'round' and len(n.args) == 1 and not n.keywords:
                    x = self.coerce(self.expr(n.args[0]), 'Rat', n)
                    return f'(rhe ({x}))', 'Int'
                if f.attr == 'floor' and len(n.args) == 1 and isinstance(n.args[0], ast.BinOp) \
                        and isinstance(n.args[0].op, ast.Div):
                    a = self.expr(n.args[0].left); b = self.expr(n.args[0].right)
                    if a[1] in ('Int', 'IntLit') and b[1] in ('Int', 'IntLit'):
                        return f'(Int.fdiv ({self.coerce(a, "Int", n)}) ({self.coerce(b, "Int", n)}))', 'Int'
                self.err(n, f'np.{f.attr}')
            if isinstance(f, ast.Name) and f.id in ('max', 'min') and len(n.args) == 1 and self.is_keys(n.args[0]):
                self.use_self('exp_prefixes', n)
                return f'exp_prefixes.{f.id}Key', 'Int'
            if isinstance(f, ast.Attribute) and f.attr == 'get' and self.is_self_attr(f.value, 'exp_prefixes') \
                    and len(n.args) == 2 and isinstance(n.args[1], ast.Constant) and n.args[1].value == '':
                self.use_self('exp_prefixes', n)
                k = self.coerce(self.expr(n.args[0]), 'Int', n)
                return f'(exp_prefixes.get ({k}))', 'Str'
            if isinstance(f, ast.Attribute) and f.attr == 'strip' and not n.args:
                s, t = self.expr(f.value)
                if t != 'Str': self.err(n, 'strip of a non-string')
                return f'(strip {s})', 'Str'
            if isinstance(f, ast.Name) and f.id in self.local_funcs:
                lname, selfs, ptypes, rt = self.local_funcs[f.id]
                for a in selfs: self.use_self(a, n)
                if len(n.args) != len(ptypes) or n.keywords: self.err(n, 'call of local function')
                args = [self.coerce(self.expr(a), t, n) for a, t in zip(n.args, ptypes)]
                return '(' + ' '.join([lname] + selfs + [f'({a})' for a in args]) + ')', rt
            self.err(n, f'call {ast.unparse(f)}')
        if isinstance(n, (ast.Compare, ast.BoolOp)) or (isinstance(n, ast.UnaryOp) and isinstance(n.op, ast.Not)):
            return self.cond(n), 'Bool'
        self.err(n, type(n).__name__)

    def cond(self, n) -> str:
        if isinstance(n, ast.UnaryOp) and isinstance(n.op, ast.Not):
            return f'(!{self.cond(n.operand)})'
        if isinstance(n, ast.Compare) and len(n.ops) == 1:
            op = n.ops[0]; l, r = n.left, n.comparators[0]
            if isinstance(op, (ast.In, ast.NotIn)):
                if not self.is_keys(r): self.err(n, 'membership in something other than exp_prefixes.keys()')
                self.use_self('exp_prefixes', n)
                k = self.coerce(self.expr(l), 'Int', n)
                s = f'(exp_prefixes.has ({k}))'
                return s if isinstance(op, ast.In) else f'(!{s})'
            a, b = self.expr(l), self.expr(r)
            if a[1] == 'Str' and b[1] == 'Str' and isinstance(op, (ast.Eq, ast.NotEq)):
                sym = '=' if isinstance(op, ast.Eq) else '≠'
                return f'(decide ({a[0]} {sym} {b[0]}))'
            x, y, _ = self.num_join(a, b, n)
            sym = {ast.Lt: '<', ast.LtE: '≤', ast.Gt: '>', ast.GtE: '≥', ast.Eq: '=', ast.NotEq: '≠'}.get(type(op))
            if sym is None: self.err(n, 'comparison operator')
            return f'(decide ({x} {sym} {y}))'
        s, t = self.expr(n)
        if t != 'Bool': self.err(n, f'condition of type {t}')
        return s

    def stmts(self, body: list, ret: str, ind: str = '  ') -> str:
        if not body:
            raise ExtractError(f'{self.where}: control reaches the end of the function without return')
        s, rest = body[0], body[1:]
        if isinstance(s, ast.Expr) and isinstance(s.value, ast.Constant) and isinstance(s.value.value, str):
            return self.stmts(rest, ret, ind)            # docstring
        if isinstance(s, ast.Return):
            if s.value is None: self.err(s, 'bare return')
            return ind + self.coerce(self.expr(s.value), ret, s)
        if isinstance(s, ast.Assign) and len(s.targets) == 1 and isinstance(s.targets[0], ast.Name):
            v, t = self.expr(s.value)
            if t == 'IntLit': v, t = f'({v} : Int)', 'Int'
            self.locals[s.targets[0].id] = t
            return f'{ind}let {s.targets[0].id} : {LEAN_TYPE[t]} := {v}\n' + self.stmts(rest, ret, ind)
        if isinstance(s, ast.If) and not s.orelse:
            c = self.cond(s.test)
            saved = dict(self.locals)
            then = self.stmts(s.body + rest, ret, ind + '  ')
            self.locals = saved
            els = self.stmts(rest, ret, ind + '  ')
            return f'{ind}if {c} then\n{then}\n{ind}else\n{els}'
        self.err(s, f'statement {type(s).__name__}')

def translate(fn: ast.FunctionDef, lean_name: str, where: str, ptypes: dict[str, str], ret: str,
              local_funcs=None, body=None, self_order=None) -> tuple[str, list[str]]:
    """`self_order`: the attributes of `self` the Lean definition takes, in this order, whether or not the
    current body reads them (the hand-written model calls the definition with exactly these arguments, so an
    edit that adds or drops a read changes the generated *body*, not the signature)"""
    params = [(a.arg, ptypes[a.arg]) for a in fn.args.args if a.arg != 'self']
    if fn.args.vararg or fn.args.kwarg or fn.args.kwonlyargs or fn.args.defaults:
        raise ExtractError(f'{where}: unexpected parameter list')
    tr = Tr(where, params, local_funcs)
    text = tr.stmts(body if body is not None else fn.body, ret)
    if self_order is not None:
        extra = [a for a in tr.used_self if a not in self_order]
        if extra:
            raise ExtractError(f'{where}: reads self.{extra[0]}, which the model does not supply — outside the translator grammar')
        tr.used_self = list(self_order)
    binders = ''.join(f' ({a} : {LEAN_TYPE["Rat" if a in ("re", "im") else SELF_TYPES[a]]})' for a in tr.used_self)
    binders += ''.join(f' ({p} : {LEAN_TYPE[t]})' for p, t in params)
    return f'def {lean_name}{binders} : {LEAN_TYPE[ret]} :=\n{text}\n', tr.used_self

# --------------------------------------------------------------------------- shapes of the hand-modelled functions

SHAPES = {
    'FloatPrecision.exponent': None, 'FloatPrecision._float_to_string': None,
    'ScientificFloat.__str__': None, 'ScientificComplex.__str__': None,
    'ScientificComplex.real': None, 'ScientificComplex.imag': None, 'ScientificComplex.abs': None,
    'ScientificComplex.angle': None,
    'print_sinosoidal': None, 'print_active_power': None, 'print_active_reactive_power': None,
}

SHAPES.update({
    'FloatPrecision.exponent': 'f05bb99244677cdf',
    'FloatPrecision._float_to_string': '4a01c4a703360406',
    'ScientificFloat.__str__': 'b90833e9a62d10b5',
    'ScientificComplex.__str__': '11bc64adae7478d1',
    'ScientificComplex.real': '10d176b10debae0d',
    'ScientificComplex.imag': 'b111047d5097cf66',
    'ScientificComplex.abs': '682bfed16853115b',
    'ScientificComplex.angle': 'f76d3be4bf8fea80',
    'print_sinosoidal': '5f3ad7cd33229f08',
    'print_active_power': '2e3753622c1f524e',
    'print_active_reactive_power': 'b9d39f385bd93a31',
})

# constants of the hand-modelled functions that are *structural* (split characters, base 10,
# the literal '0' tests …): the model cannot follow a change of these, so a change is refused
FIXED_CONSTS = {
    'FloatPrecision.exponent': (['.', '0', '.', '0', '.', '0', '0'], [0, 1, 10, 10, 1, 0], []),
    'FloatPrecision._float_to_string': (['e', 'e', '.', 'f'], [1, 1, 1], []),
}

SF_FIELDS = ['value', 'unit', 'precision', 'use_exp_prefix', 'exp_prefixes']
SC_FIELDS = ['value', 'unit', 'precision', 'use_exp_prefix', 'compact', 'polar', 'deg', 'exp_prefixes']

def fmt_width(spec: str, where: str) -> int:
    # '.2f' → 2
    if len(spec) >= 3 and spec[0] == '.' and spec[-1] == 'f' and spec[1:-1].isdigit():
        return int(spec[1:-1])
    raise ExtractError(f'{where}: format spec {spec!r} is not .<n>f')

def call_cfgs(fn: ast.FunctionDef, defaults: dict, where: str) -> list[str]:
    """every ScientificFloat/ScientificComplex constructor call in `fn`, in source order"""
    calls = [n for n in ast.walk(fn) if isinstance(n, ast.Call) and isinstance(n.func, ast.Name)
             and n.func.id in ('ScientificFloat', 'ScientificComplex')]
    calls.sort(key=lambda n: (n.lineno, n.col_offset))
    params = {a.arg for a in fn.args.args}
    out = []
    for c in calls:
        cls = c.func.id
        fields = SF_FIELDS if cls == 'ScientificFloat' else SC_FIELDS
        kw = {}
        if len(c.args) > len(fields): raise ExtractError(f'{where}: too many positional arguments')
        for name, a in zip(fields, c.args): kw[name] = a
        for k in c.keywords:
            if k.arg is None or k.arg not in fields or k.arg in kw:
                raise ExtractError(f'{where} line {c.lineno}: unexpected keyword {k.arg}')
            kw[k.arg] = k.value
        if 'value' not in kw: raise ExtractError(f'{where} line {c.lineno}: no value argument')
        value = ast.unparse(kw['value'])
        # unit
        if 'unit' not in kw:
            unit = f'some {chars(defaults[cls]["unit"])}'
        elif isinstance(kw['unit'], ast.Constant) and isinstance(kw['unit'].value, str):
            unit = f'some {chars(kw["unit"].value)}'
        elif isinstance(kw['unit'], ast.Name) and kw['unit'].id == 'unit' and 'unit' in params:
            unit = 'none'
        else:
            raise ExtractError(f'{where} line {c.lineno}: unit argument {ast.unparse(kw["unit"])}')
        # precision must be forwarded
        if not ('precision' in kw and isinstance(kw['precision'], ast.Name) and kw['precision'].id == 'precision'
                and 'precision' in params):
            raise ExtractError(f'{where} line {c.lineno}: precision is not the forwarded parameter')
        def lit_bool(name):
            if name not in kw: return defaults[cls][name]
            return literal(kw[name], f'{where}.{name}', bool)
        def opt_bool(name):
            if name not in kw: return f'some {str(defaults[cls][name]).lower()}'
            n = kw[name]
            if isinstance(n, ast.Name) and n.id == name and name in params: return 'none'
            return f'some {str(literal(n, f"{where}.{name}", bool)).lower()}'
        use_prefix = lit_bool('use_exp_prefix')
        table = table_literal(kw['exp_prefixes'], where) if 'exp_prefixes' in kw else defaults[cls]['table']
        s = (f'{{ cls := "{cls}", value := {extract.lean_str(value)}, unit := {unit}, '
             f'usePrefix := {str(use_prefix).lower()}, table := {table}')
        if cls == 'ScientificComplex':
            s += (f', compact := {str(lit_bool("compact")).lower()}, polar := {opt_bool("polar")}, '
                  f'deg := {opt_bool("deg")}')
        out.append(s + ' }')
    return out

def _normalise_sin_shift(fn: ast.FunctionDef):
    """`phase_value += (pi/2 | -pi/2) if sin else 0` — the sign of the quarter turn is *translated* (generated constant
    `print_sinosoidal_sin_shift`); for the shape guard the statement is normalised to the `-pi/2` form the shape was
    recorded with"""
    import copy
    fn = copy.deepcopy(fn)
    found = []
    for st in fn.body:
        if isinstance(st, ast.AugAssign) and isinstance(st.op, ast.Add) and ast.unparse(st.target) == 'phase_value' \
                and isinstance(st.value, ast.IfExp) and ast.unparse(st.value.test) == 'sin' and ast.unparse(st.value.orelse) == '0':
            body = ast.unparse(st.value.body).replace(' ', '')
            if body == 'pi/2': k = 1
            elif body == '-pi/2': k = -1
            else: raise ExtractError(f'print_sinosoidal line {st.lineno}: quarter-turn expression {body!r} outside the grammar')
            old = st.value.body
            new = ast.parse('-pi/2', mode='eval').body
            for n in ast.walk(new):
                n.lineno = old.lineno; n.col_offset = old.col_offset
                n.end_lineno = getattr(old, 'end_lineno', old.lineno); n.end_col_offset = getattr(old, 'end_col_offset', old.col_offset)
            st.value.body = new
            found.append(k)
    if len(found) != 1:
        raise ExtractError('print_sinosoidal: the statement `phase_value += ±pi/2 if sin else 0` was not found exactly once')
    return fn, found[0]

def _replace_returns(body, field, default_const):
    """value3: every `return Float3(value=self.value, precision=self.precision[, min_exp=…, max_exp=…])`
    becomes `return <that keyword or the FloatPrecision default>`"""
    import copy
    class R(ast.NodeTransformer):
        def visit_Return(self, node):
            c = node.value
            if not (isinstance(c, ast.Call) and isinstance(c.func, ast.Name) and c.func.id == 'Float3' and not c.args):
                raise ExtractError('ScientificFloat.value3: return value is not Float3(keyword=…)')
            kw = {k.arg: k.value for k in c.keywords}
            if set(kw) - {'value', 'precision', 'min_exp', 'max_exp'}:
                raise ExtractError('ScientificFloat.value3: unexpected keyword')
            if ast.unparse(kw.get('value')) != 'self.value' or ast.unparse(kw.get('precision')) != 'self.precision':
                raise ExtractError('ScientificFloat.value3: value/precision are not forwarded unchanged')
            v = kw.get(field, ast.Constant(value=default_const))
            return ast.copy_location(ast.Return(value=v), node)
    return [R().visit(copy.deepcopy(s)) for s in body]

def _gen_fmt_tables(src) -> str:
    utils = extract.parse(src, 'Utils.py')
    disp = extract.parse(src, 'SimpleCircuit/Display.py')
    L = ['/- GENERATED by harness/extract_fmt.py from Utils.py and SimpleCircuit/Display.py — do not edit -/',
         'import CC.Model.FmtBase', 'namespace CC.Gen.Fmt', 'open CC.Fmt', '']
    fp = find_class(utils, 'FloatPrecision'); f3 = find_class(utils, 'Float3')
    sf = find_class(utils, 'ScientificFloat'); sc = find_class(utils, 'ScientificComplex')
    if [ast.unparse(b) for b in f3.bases] != ['FloatPrecision'] or class_fields(f3):
        raise ExtractError('Float3 is no longer a field-less subclass of FloatPrecision')
    # ---- defaults
    ff = class_fields(fp)
    if list(ff) != ['value', 'precision', 'min_exp', 'max_exp']:
        raise ExtractError(f'FloatPrecision fields changed: {list(ff)}')
    fpd = {k: literal(ff[k], f'FloatPrecision.{k}', int) for k in ('precision', 'min_exp', 'max_exp')}
    for k, v in fpd.items():
        L.append(f'def fp_{k}_default : Int := {v}')
    defaults = {}
    for cls, tag, fields in ((sf, 'sf', SF_FIELDS), (sc, 'sc', SC_FIELDS)):
        cf = class_fields(cls)
        if list(cf) != fields:
            raise ExtractError(f'{cls.name} fields changed: {list(cf)}')
        d = dict(unit=literal(cf['unit'], f'{cls.name}.unit', str),
                 precision=literal(cf['precision'], f'{cls.name}.precision', int),
                 use_exp_prefix=literal(cf['use_exp_prefix'], f'{cls.name}.use_exp_prefix', bool),
                 table=table_literal(field_default_factory_dict(cf['exp_prefixes'], cls.name), cls.name))
        L.append(f'def {tag}_unit_default : List Char := {chars(d["unit"])}')
        L.append(f'def {tag}_precision_default : Int := {d["precision"]}')
        L.append(f'def {tag}_use_exp_prefix_default : Bool := {str(d["use_exp_prefix"]).lower()}')
        L.append(f'def {tag}_exp_prefixes_default : Table := {d["table"]}')
        if tag == 'sc':
            for k in ('compact', 'polar', 'deg'):
                d[k] = literal(cf[k], f'{cls.name}.{k}', bool)
                L.append(f'def sc_{k}_default : Bool := {str(d[k]).lower()}')
        defaults[cls.name] = d
    L.append('')
    # ---- translated arithmetic
    PT = {'exp': 'Int'}
    def prop(cls, name):
        fn = find_func(cls.body, name)
        return fn
    L.append(translate(prop(fp, 'is_zero'), 'fp_is_zero', 'FloatPrecision.is_zero', PT, 'Bool', self_order=['value', 'exponent', 'min_exp'])[0])
    L.append(translate(prop(fp, 'is_inf'), 'fp_is_inf', 'FloatPrecision.is_inf', PT, 'Bool', self_order=['value', 'precision', 'exponent', 'max_exp'])[0])
    L.append(translate(prop(fp, 'mantissa'), 'fp_mantissa', 'FloatPrecision.mantissa', PT, 'Int', self_order=['value', 'exponent'])[0])
    L.append(translate(prop(f3, 'exponent3'), 'f3_exponent3', 'Float3.exponent3', PT, 'Int', self_order=['precision', 'exponent'])[0])
    L.append(translate(prop(f3, 'mantissa3'), 'f3_mantissa3', 'Float3.mantissa3', PT, 'Rat', self_order=['mantissa', 'exponent', 'exponent3'])[0])
    v3 = prop(sf, 'value3')
    for fld in ('min_exp', 'max_exp'):
        L.append(translate(v3, f'sf_value3_{fld}', 'ScientificFloat.value3', PT, 'Int',
                           body=_replace_returns(v3.body, fld, fpd[fld]), self_order=['use_exp_prefix', 'exp_prefixes'])[0])
    L.append(translate(prop(sf, 'exp_prefix'), 'sf_exp_prefix', 'ScientificFloat.exp_prefix', PT, 'Str', self_order=['use_exp_prefix', 'exp_prefixes'])[0])
    ee = prop(sf, 'exp_extension')
    if not (ee.body and isinstance(ee.body[0], ast.FunctionDef) and ee.body[0].name == 'rebase_exp'):
        raise ExtractError('ScientificFloat.exp_extension: nested rebase_exp not found')
    rb_text, rb_self = translate(ee.body[0], 'sf_rebase_exp', 'ScientificFloat.exp_extension.rebase_exp', PT, 'Int', self_order=['use_exp_prefix', 'exp_prefixes'])
    L.append(rb_text)
    L.append(translate(ee, 'sf_exp_extension', 'ScientificFloat.exp_extension', PT, 'Str',
                       local_funcs={'rebase_exp': ('sf_rebase_exp', rb_self, ['Int'], 'Int')}, body=ee.body[1:],
                       self_order=['use_exp_prefix', 'exp_prefixes'])[0])
    L.append(translate(prop(sc, 'real_sign'), 'sc_real_sign', 'ScientificComplex.real_sign', PT, 'Str', self_order=['re', 'compact'])[0])
    L.append(translate(prop(sc, 'imag_sign'), 'sc_imag_sign', 'ScientificComplex.imag_sign', PT, 'Str', self_order=['im', 'compact'])[0])
    # ---- hand-modelled functions: shape guard + constants
    fns = {}
    sin_shift = None
    for key, shape in SHAPES.items():
        if '.' in key:
            c, f = key.split('.'); fn = find_func(find_class(utils, c).body, f)
        else:
            fn = find_func(disp.body, key)
        if key == 'print_sinosoidal':
            fn, sin_shift = _normalise_sin_shift(fn)
        check_shape(fn, shape, key)
        fns[key] = fn
        if key in FIXED_CONSTS:
            got = (consts_of(fn, str), consts_of(fn, int), consts_of(fn, float))
            if got != FIXED_CONSTS[key]:
                raise ExtractError(f'{key}: structural constants changed to {got}')
    s = consts_of(fns['ScientificFloat.__str__'], str); i = consts_of(fns['ScientificFloat.__str__'], int)
    if s[2:] != ['.', 'd', '', '.', '0', 'd'] or i != [0, 0, 1, 0, 0, 1, 10, 0]:
        raise ExtractError(f'ScientificFloat.__str__: structural constants changed to {s[2:]}, {i}')
    L.append(f'def sf_str_inf_pos : List Char := {chars(s[0])}')
    L.append(f'def sf_str_inf_neg : List Char := {chars(s[1])}')
    s = consts_of(fns['ScientificComplex.__str__'], str); i = consts_of(fns['ScientificComplex.__str__'], int)
    if s[0] != 'ignore' or i[2] != 0:
        raise ExtractError('ScientificComplex.__str__: structural constants changed')
    L.append(f'def sc_polar_sep_deg : List Char := {chars(s[1])}')
    L.append(f'def sc_deg_decimals : Nat := {fmt_width(s[2], "ScientificComplex.__str__")}')
    L.append(f'def sc_deg_suffix : List Char := {chars(s[3])}')
    L.append(f'def sc_polar_sep_rad : List Char := {chars(s[4])}')
    L.append(f'def sc_rad_decimals : Nat := {fmt_width(s[5], "ScientificComplex.__str__")}')
    L.append(f'def sc_j_imag_neg : List Char := {chars(s[6])}')
    L.append(f'def sc_j_imag_pos : List Char := {chars(s[7])}')
    L.append(f'def sc_j_full : List Char := {chars(s[8])}')
    L.append(f'/-- `np.log10(np.abs(angle)) <= -k`: the angle is dropped when `|angle| ≤ 10^-k` -/')
    L.append(f'def sc_deg_log10_threshold : Int := -{i[0]}')
    L.append(f'def sc_rad_log10_threshold : Int := -{i[1]}')
    L.append('')
    # ---- Display helpers
    all_calls = []
    for fn in disp.body:
        if not (isinstance(fn, ast.FunctionDef) and fn.name.startswith('print_')):
            continue
        args = fn.args
        names = [a.arg for a in args.args]
        dflt = dict(zip(names[len(names) - len(args.defaults):], args.defaults))
        if 'precision' not in dflt:
            raise ExtractError(f'Display.{fn.name}: no precision default')
        L.append(f'def {fn.name}_params : List String := [{", ".join(extract.lean_str(n) for n in names)}]')
        L.append(f'def {fn.name}_precision_default : Int := {literal(dflt["precision"], fn.name, int)}')
        for k, c in enumerate(call_cfgs(fn, defaults, f'Display.{fn.name}')):
            L.append(f'def {fn.name}_call{k} : CallCfg := {c}')
            all_calls.append((fn.name, f'{fn.name}_call{k}'))
    L.append('/-- every constructor call of the display helpers: (helper, call) -/')
    L.append('def all_calls : List (String × CallCfg) := [' + ', '.join(f'("{a}", {b})' for a, b in all_calls) + ']')
    L.append('/-- every prefix table of Utils.py / Display.py -/')
    L.append('def all_tables : List Table := [sf_exp_prefixes_default, sc_exp_prefixes_default] ++ all_calls.map (·.2.table)')
    fn = fns['print_sinosoidal']
    L.append('/-- `phase_value += <k>·pi/2 if sin else 0`: the quarter turns added for the sine form -/')
    L.append(f'def print_sinosoidal_sin_shift : Int := {sin_shift}')
    s = consts_of(fn, str); i = consts_of(fn, int); fl = consts_of(fn, float)
    # layout of the constants (tables of the ScientificFloat calls are generated as CallCfg; the glue strings by name)
    if s[:5] != ['', 'u', 'm', 'k', '°'] or s[5:8] != ['u', 'm', 'k'] or s[13] != '' or s[14:20] != ['Hz', 'm', 'k', 'M', 'G', 'T'] \
            or s[20] != '/s' or len(s) != 25 or i[1:2] != [0] or i[5:8] != [2, 0, 0] or i[11:12] != [2] or i[-1] != 0:
        raise ExtractError(f'print_sinosoidal: constants moved: {s} {i}')
    for nm, idx in (('mul', 8), ('sin', 9), ('cos', 10), ('open', 11), ('two_pi', 12), ('t', 21), ('plus', 22), ('minus', 23), ('close', 24)):
        L.append(f'def print_sinosoidal_{nm} : List Char := {chars(s[idx])}')
    L.append(f'def print_sinosoidal_phase_threshold : Rat := {lean_rat_of_float(fl[0])}')
    s = consts_of(fns['print_active_power'], str)
    L.append(f'def print_active_power_down : List Char := {chars(s[1])}')
    L.append(f'def print_active_power_up : List Char := {chars(s[2])}')
    fn = fns['print_active_reactive_power']
    s = consts_of(fn, str); fl = consts_of(fn, float)
    for nm, v in zip(['p_down', 'p_up', 'q_down', 'q_up', 'p_label', 'q_label'], s[2:8]):
        L.append(f'def print_active_reactive_power_{nm} : List Char := {chars(v)}')
    L.append(f'def print_active_reactive_power_q_threshold : Rat := {lean_rat_of_float(fl[0])}')
    L += ['', 'end CC.Gen.Fmt', '']
    return '\n'.join(L)

# =========================================================================== C14: annotations

def _kwargs(call: ast.Call) -> dict:
    return {k.arg: k.value for k in call.keywords}

def _is_attr_chain(node, chain: str) -> bool:
    try:
        return ast.unparse(node) == chain
    except Exception:
        return False

def _adapter(cls: ast.ClassDef, fn: ast.FunctionDef):
    """one `get_<quantity>` method of a DiagramSolution adapter class"""
    where = f'{cls.name}.{fn.name}'
    body = [s for s in fn.body if not (isinstance(s, ast.Expr) and isinstance(s.value, ast.Constant))]
    sign_src = None
    if len(body) == 2 and isinstance(body[0], ast.Assign) and ast.unparse(body[0].targets[0]) == 'sign':
        sign_src = body[0].value
        body = body[1:]
    if len(body) != 1 or not isinstance(body[0], ast.Return) or not isinstance(body[0].value, ast.Call):
        raise ExtractError(f'{where}: body is not [sign = …;] return dsp.print_…(…)')
    call = body[0].value
    if not (isinstance(call.func, ast.Attribute) and _is_attr_chain(call.func.value, 'dsp')):
        raise ExtractError(f'{where}: does not return a dsp.print_… call')
    printer = call.func.attr
    kw = _kwargs(call)
    if call.args:
        if len(call.args) != 1 or 'value' in kw: raise ExtractError(f'{where}: positional arguments')
        kw['value'] = call.args[0]
    v = kw.pop('value', None)
    if v is None: raise ExtractError(f'{where}: no value argument')
    signed = False
    if isinstance(v, ast.BinOp) and isinstance(v.op, ast.Mult) and isinstance(v.left, ast.Name) and v.left.id == 'sign':
        signed = True; v = v.right
        if sign_src is None: raise ExtractError(f'{where}: sign used but not defined')
    elif sign_src is not None:
        raise ExtractError(f'{where}: sign defined but the value is not sign*…')
    if not (isinstance(v, ast.Call) and isinstance(v.func, ast.Attribute) and _is_attr_chain(v.func.value, 'self.solution')
            and len(v.args) == 1 and isinstance(v.args[0], ast.Name) and v.args[0].id == 'name' and not v.keywords):
        raise ExtractError(f'{where}: value is not [sign*]self.solution.get_…(name)')
    accessor = v.func.attr
    unit = None
    if 'unit' in kw:
        unit = literal(kw.pop('unit'), where + '.unit', str)
    opts = []
    for k, e in kw.items():
        src = ast.unparse(e)
        if src not in (f'self.{k}', 'self.solution.w' if k == 'w' else None):
            raise ExtractError(f'{where}: option {k}={src} is not forwarded unchanged')
        opts.append(k)
    return dict(cls=cls.name, method=fn.name, accessor=accessor, printer=printer, signed=signed, unit=unit,
                opts=opts, sign_src=sign_src)

def _lean_strs(xs) -> str:
    return '[' + ', '.join(extract.lean_str(x) for x in xs) + ']'

def _gen_annot_tables(src) -> str:
    dsm = extract.parse(src, 'SimpleCircuit/DiagramSolution.py')
    sch = extract.parse(src, 'SimpleSimulation/schematic.py')
    L = ['/- GENERATED by harness/extract_fmt.py from SimpleCircuit/DiagramSolution.py and SimpleSimulation/schematic.py — do not edit -/',
         'import CC.Model.FmtBase', 'namespace CC.Gen.Annot', 'open CC.Fmt', '',
         'structure Adapter where', '  cls : String', '  method : String', '  accessor : String', '  printer : String',
         '  signed : Bool', '  unit : Option (List Char)', '  opts : List String', 'deriving Repr, DecidableEq', '',
         'structure Factory where', '  method : String', '  solutionMethod : String', '  labelClass : String',
         '  textKw : String', '  color : String', '  hasReverse : Bool', 'deriving Repr, DecidableEq', '',
         'structure Ctor where', '  name : String', '  params : List (String × String)', '  adapterCls : String',
         '  solutionCls : String', '  solutionArgs : List String', '  solutionLits : List (String × Bool)',
         '  forwarded : List String', 'deriving Repr, DecidableEq', '']
    # ---- adapters
    adapters = []
    sign_srcs = set()
    adapter_fields = {}
    for cls in dsm.body:
        if not isinstance(cls, ast.ClassDef) or not cls.name.endswith('DiagramSolution'):
            continue
        if cls.name in ('DiagramSolution', 'SchematicDiagramSolution'):
            continue
        methods = [f for f in cls.body if isinstance(f, ast.FunctionDef)]
        if cls.name == 'EmptyDiagramSolution':
            for f in methods:
                if not (len(f.body) == 1 and isinstance(f.body[0], ast.Return) and isinstance(f.body[0].value, ast.Constant)
                        and f.body[0].value.value == ''):
                    raise ExtractError(f'EmptyDiagramSolution.{f.name} does not return the empty string')
            L.append(f'def empty_methods : List String := {_lean_strs([f.name for f in methods])}')
            continue
        flds = class_fields(cls)
        adapter_fields[cls.name] = {k: (ast.literal_eval(v) if v is not None else None) for k, v in flds.items() if k != 'solution'}
        for f in methods:
            a = _adapter(cls, f)
            if a['sign_src'] is not None: sign_srcs.add(ast.unparse(a['sign_src']))
            params = [x.arg for x in f.args.args]
            expect = ['self', 'name'] if f.name == 'get_potential' else ['self', 'name', 'reverse']
            if params != expect: raise ExtractError(f'{cls.name}.{f.name}: parameters {params}')
            adapters.append(a)
    if len(sign_srcs) != 1:
        raise ExtractError(f'adapters use different sign lines: {sorted(sign_srcs)}')
    sign_expr = ast.parse(sign_srcs.pop(), mode='eval').body
    tr = Tr('DiagramSolution sign line', [('reverse', 'Bool')])
    s, t = tr.expr(sign_expr)
    L.append(f'/-- `sign = {ast.unparse(sign_expr)}` -/')
    L.append(f'def adapter_sign (reverse : Bool) : Int := {tr.coerce((s, t), "Int", sign_expr)}')
    L.append('def adapters : List Adapter := [')
    for a in adapters:
        unit = 'none' if a['unit'] is None else f'some {chars(a["unit"])}'
        L.append(f'  {{ cls := "{a["cls"]}", method := "{a["method"]}", accessor := "{a["accessor"]}", printer := "{a["printer"]}", '
                 f'signed := {str(a["signed"]).lower()}, unit := {unit}, opts := {_lean_strs(a["opts"])} }},')
    L[-1] = L[-1].rstrip(',')
    L.append(']')
    for cname, flds in adapter_fields.items():
        L.append(f'def {cname}_defaults : List (String × String) := [' +
                 ', '.join(f'({extract.lean_str(k)}, {extract.lean_str(repr(v))})' for k, v in flds.items()) + ']')
    # ---- label factories
    sds = find_class(dsm, 'SchematicDiagramSolution')
    factories = []
    rev_srcs = set()
    for f in sds.body:
        if not (isinstance(f, ast.FunctionDef) and f.name.startswith('draw_')):
            continue
        where = f'SchematicDiagramSolution.{f.name}'
        if len(f.body) != 3: raise ExtractError(f'{where}: body changed')
        st0, st1, st2 = f.body
        if ast.unparse(st0) != 'element = self.diagram_parser.get_element(name)':
            raise ExtractError(f'{where}: first statement changed')
        if not (isinstance(st1, ast.Assign) and isinstance(st1.value, ast.Call)
                and _is_attr_chain(st1.value.func.value, 'self.solution')):
            raise ExtractError(f'{where}: second statement is not <label> = self.solution.get_…(…)')
        text_var = ast.unparse(st1.targets[0])
        sol_method = st1.value.func.attr
        kw1 = {k: ast.unparse(v) for k, v in _kwargs(st1.value).items()}
        want = {'name': 'name'} if f.name == 'draw_potential' else {'name': 'name', 'reverse': 'reverse'}
        if kw1 != want or st1.value.args: raise ExtractError(f'{where}: arguments of the solution call changed: {kw1}')
        if not (isinstance(st2, ast.Return) and isinstance(st2.value, ast.Call) and _is_attr_chain(st2.value.func.value, 'elm')):
            raise ExtractError(f'{where}: does not return an elm.… label')
        label_cls = st2.value.func.attr
        kw2 = _kwargs(st2.value)
        text_kw = [k for k, v in kw2.items() if ast.unparse(v) == text_var]
        if len(text_kw) != 1: raise ExtractError(f'{where}: the text is not passed exactly once')
        color = ast.unparse(kw2['color']) if 'color' in kw2 else ''
        has_rev = 'reverse' in kw2
        if has_rev: rev_srcs.add(ast.unparse(kw2['reverse']))
        factories.append(dict(method=f.name, sol=sol_method, cls=label_cls, kw=text_kw[0], color=color, rev=has_rev))
    if len(rev_srcs) != 1:
        raise ExtractError(f'label factories use different arrow-reversal expressions: {sorted(rev_srcs)}')
    rev_expr = ast.parse(rev_srcs.pop(), mode='eval').body
    class _Alias(ast.NodeTransformer):
        def visit_Attribute(self, node):
            if ast.unparse(node) == 'element.is_reverse':
                return ast.copy_location(ast.Name(id='is_reverse', ctx=ast.Load()), node)
            return node
    tr = Tr('label factories, reverse=', [('reverse', 'Bool'), ('is_reverse', 'Bool')])
    s, t = tr.expr(_Alias().visit(rev_expr))
    if t != 'Bool': raise ExtractError('arrow reversal expression is not boolean')
    L.append(f'/-- `reverse={ast.unparse(rev_expr)}` (is_reverse = element.is_reverse) -/')
    L.append(f'def label_reverse (reverse : Bool) (is_reverse : Bool) : Bool := {s}')
    L.append('def factories : List Factory := [')
    for f in factories:
        L.append(f'  {{ method := "{f["method"]}", solutionMethod := "{f["sol"]}", labelClass := "{f["cls"]}", '
                 f'textKw := "{f["kw"]}", color := "{f["color"]}", hasReverse := {str(f["rev"]).lower()} }},')
    L[-1] = L[-1].rstrip(','); L.append(']')
    # ---- solution constructors
    ctors = []
    for f in dsm.body:
        if not (isinstance(f, ast.FunctionDef) and f.name.endswith('solution')):
            continue
        where = f'DiagramSolution.{f.name}'
        names = [a.arg for a in f.args.args]
        dflt = dict(zip(names[len(names) - len(f.args.defaults):], [repr(ast.literal_eval(d)) for d in f.args.defaults]))
        if names[0] != 'schematic': raise ExtractError(f'{where}: first parameter is not schematic')
        calls = [n for n in ast.walk(f) if isinstance(n, ast.Call) and isinstance(n.func, ast.Name) and n.func.id.endswith('DiagramSolution')]
        ad = [c for c in calls if c.func.id != 'SchematicDiagramSolution']
        if len(ad) != 1: raise ExtractError(f'{where}: expected exactly one adapter construction')
        ad = ad[0]
        kw = _kwargs(ad)
        sol_cls, sol_args, sol_lits = '', [], []
        if 'solution' in kw:
            sc = kw.pop('solution')
            if not (isinstance(sc, ast.Call) and isinstance(sc.func, ast.Name)): raise ExtractError(f'{where}: solution= is not a constructor call')
            sol_cls = sc.func.id
            skw = {k: ast.unparse(v) for k, v in _kwargs(sc).items()}
            if skw.pop('circuit', None) != 'circuit_translator(schematic)':
                raise ExtractError(f'{where}: the circuit is not circuit_translator(schematic)')
            for k, v in skw.items():
                if v == k and k in names:
                    sol_args.append(k)
                elif v in ('True', 'False'):
                    sol_lits.append((k, v))
                else:
                    raise ExtractError(f'{where}: solution argument {k}={v} is neither a forwarded parameter nor a boolean literal')
        fwd = []
        for k, v in kw.items():
            if ast.unparse(v) != k or k not in names: raise ExtractError(f'{where}: adapter argument {k}={ast.unparse(v)} is not a forwarded parameter')
            fwd.append(k)
        ctors.append(dict(name=f.name, params=[(n, dflt.get(n, '')) for n in names[1:]], adapter=ad.func.id, sol=sol_cls,
                          sol_args=sol_args, sol_lits=sol_lits, fwd=fwd))
    L.append('def ctors : List Ctor := [')
    for c in ctors:
        ps = '[' + ', '.join(f'({extract.lean_str(a)}, {extract.lean_str(b)})' for a, b in c['params']) + ']'
        L.append(f'  {{ name := "{c["name"]}", params := {ps}, adapterCls := "{c["adapter"]}", solutionCls := "{c["sol"]}", '
                 f'solutionArgs := {_lean_strs(c["sol_args"])}, solutionLits := [' +
                 ', '.join(f'({extract.lean_str(a)}, {b.lower()})' for a, b in c['sol_lits']) +
                 f'], forwarded := {_lean_strs(c["fwd"])} }},')
    L[-1] = L[-1].rstrip(','); L.append(']')
    # ---- schematic.py: the declarative solution section
    sol_tbl = None
    for n in sch.body:
        if isinstance(n, ast.Assign) and ast.unparse(n.targets[0]) == 'solutions':
            sol_tbl = n.value
    if not isinstance(sol_tbl, ast.Dict): raise ExtractError('schematic.solutions is not a dictionary literal')
    entries = []
    for k, v in zip(sol_tbl.keys, sol_tbl.values):
        key = literal(k, 'schematic.solutions key', str)
        if not (isinstance(v, ast.Attribute) and _is_attr_chain(v.value, 'ds')):
            raise ExtractError(f'schematic.solutions[{key!r}] is not ds.<constructor>')
        if key in [e[0] for e in entries]: raise ExtractError(f'schematic.solutions: duplicate key {key!r}')
        entries.append((key, v.attr))
    L.append('/-- `schematic.solutions`: declared solution type ↦ constructor in DiagramSolution.py -/')
    L.append('def solutions : List (String × String) := [' + ', '.join(f'("{a}", "{b}")' for a, b in entries) + ']')
    sd = find_class(sch, 'SolutionDefinition')
    dsc = find_func(sd.body, 'diagram_solution_creator')
    check_shape(dsc, ANNOT_SHAPES['diagram_solution_creator'], 'SolutionDefinition.diagram_solution_creator')
    cs = consts_of(dsc, str)
    if len(cs) != 2: raise ExtractError('diagram_solution_creator: constants changed')
    L.append(f'def solution_type_key : String := {extract.lean_str(cs[0])}')
    L.append(f'def solution_type_default : String := {extract.lean_str(cs[1])}')
    dflt_fn = [n for st in dsc.body for n in ast.walk(st) if isinstance(n, ast.Attribute) and _is_attr_chain(n.value, 'ds')]
    if len(dflt_fn) != 1: raise ExtractError('diagram_solution_creator: fallback constructor not found')
    L.append(f'def solution_fallback : String := "{dflt_fn[0].attr}"')
    lists = []
    for f in sd.body:
        if isinstance(f, ast.FunctionDef) and f.name != 'diagram_solution_creator':
            src = ast.unparse(f.body[0]) if len(f.body) == 1 else ''
            if src != f"return self.data.get('{f.name}', [])":
                raise ExtractError(f'SolutionDefinition.{f.name}: body changed: {src}')
            lists.append(f.name)
    fill = find_func(sch.body, 'fill')
    check_shape(fill, ANNOT_SHAPES['fill'], 'schematic.fill')
    loops = []
    for n in fill.body:
        if isinstance(n, ast.For) and ast.unparse(n.iter).startswith('solution_definition.'):
            lst = ast.unparse(n.iter).split('.', 1)[1]
            draws = [c.func.attr for c in ast.walk(n) if isinstance(c, ast.Call) and isinstance(c.func, ast.Attribute)
                     and _is_attr_chain(c.func.value, 'solution')]
            if len(draws) != 1 or lst not in lists: raise ExtractError(f'schematic.fill: loop over {lst} changed')
            loops.append((lst, draws[0]))
    L.append('/-- `fill`: annotation list of the description ↦ label factory, in drawing order -/')
    L.append('def annotation_loops : List (String × String) := [' + ', '.join(f'("{a}", "{b}")' for a, b in loops) + ']')
    L += ['', 'end CC.Gen.Annot', '']
    return '\n'.join(L)

ANNOT_SHAPES = {'diagram_solution_creator': 'c2ac196c4f303007', 'fill': '060290c35013176f'}


# --------------------------------------------------------------------------- refusal handling
# A refusal must not take the driver down with it (the oracle that searches for a failing
# input runs in the driver): the previous, last accepted Gen file is kept *for the search
# only*, and the refusal is recorded in CC/Gen/FmtGuard.lean, which the property modules
# import and on which `C18_translator_accepts` / `C14_translator_accepts` fail to compile
# (DESIGN §3.2: "the driver is built against the baseline for the search only").

_REFUSALS: dict[str, str] = {}

def _guarded(filename, fn):
    def g(src):
        from pathlib import Path
        try:
            text = fn(src)
            _REFUSALS.pop(filename, None)
            return text
        except ExtractError as e:
            old = Path(__file__).resolve().parent.parent / 'lean' / 'CC' / 'Gen' / filename
            if old.exists() and 'translator refused' not in old.read_text()[:200]:
                _REFUSALS[filename] = str(e)
                return old.read_text()
            raise
    g.__name__ = fn.__name__
    return g

generator('FmtTables.lean')(_guarded('FmtTables.lean', _gen_fmt_tables))
generator('AnnotTables.lean')(_guarded('AnnotTables.lean', _gen_annot_tables))

@generator('FmtGuard.lean')
def gen_fmt_guard(src) -> str:
    def opt(fn):
        return f'some {extract.lean_str(_REFUSALS[fn])}' if fn in _REFUSALS else 'none'
    return '\n'.join([
        '/- GENERATED by harness/extract_fmt.py — whether the translator accepted the current sources.',
        '   On a refusal the Gen file named here is the last accepted one (kept for the failing-input search only). -/',
        'namespace CC.Gen.FmtGuard',
        f'def fmt_tables_refusal : Option String := {opt("FmtTables.lean")}',
        f'def annot_tables_refusal : Option String := {opt("AnnotTables.lean")}',
        'end CC.Gen.FmtGuard', ''])
