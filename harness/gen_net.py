"""
gen_net.py — structured generators of networks (shared by C01, C03–C06, C16, C20).

A *description* is a plain list of branch dicts
    {n1, n2, id, kind, args}
with kind one of the factories of Network/elements.py.  `to_impl` builds the real
`Network`; `impl_to_json` turns the real objects into the driver's JSON, so the model
sees exactly the records the implementation stores.
"""
from __future__ import annotations
import math, itertools
from fractions import Fraction
import core

LABEL_POOLS = [
    ['0', '1', '2', '3', '4', '5', '6', '7', '8'],
    ['10', '9', '2', '1', '0', '11', '100', '20', '3'],          # '10' < '9' as strings
    ['A1', 'Z9', 'a', 'B', 'b', 'AA', 'Ab', 'aB', '_'],
    ['gnd', 'Vcc', 'n1', 'N1', 'out', 'in', 'x', 'X', 'mid'],
    ['é', 'ß', 'Ω', 'a', 'z', 'Z', 'µ', '0', '~'],
    [' ', '  ', '0 ', ' 0', '00', '0', 'O', 'o', '-'],
    ['1', '10', '11', '12', '21', '101', '110', '2', '20'],          # labels that contain one another
    ['a', 'aa', 'ab', 'ba', 'aab', 'b', 'bb', 'abb', 'bab'],
]

ID_POOLS = [
    lambda k, i: f'{k}{i}',
    lambda k, i: f'{"ZYXWVUTSRQPONMLKJIHGFEDCBA"[i % 26]}{i}',      # reverse-alphabetic, kind-agnostic
    lambda k, i: f'{i}',
    lambda k, i: f'{"abcdefghijklmnopqrstuvwxyz"[(7 * i + 3) % 26]}_{k}',
    lambda k, i: f'{"AaBb"[i % 4]}{i // 4}',
]

PASSIVE_KINDS = ['resistor', 'conductor', 'impedance', 'admittance', 'load_v', 'load_i']
SOURCE_KINDS = ['vs_ideal', 'vs_lossy', 'cs_ideal', 'cs_lossy']
DEGENERATE_KINDS = ['short', 'open']

def dyadic(rng, lo=-3, hi=3):
    return float(2.0 ** rng.randint(lo, hi))

def exact_real(rng):
    c = rng.random()
    if c < 0.5:
        return dyadic(rng)
    if c < 0.8:
        return float(rng.randint(1, 12))
    return float(rng.randint(1, 40)) / 8.0

def exact_complex(rng, nonzero=True):
    while True:
        re = rng.choice([0.0, exact_real(rng), -exact_real(rng), exact_real(rng)])
        im = rng.choice([0.0, exact_real(rng), -exact_real(rng)])
        if not nonzero or re != 0 or im != 0:
            return complex(re, im)

def decade_real(rng):
    return float(f'{rng.uniform(1, 9.99):.3g}') * 10.0 ** rng.randint(-4, 4)

def decade_complex(rng):
    r = decade_real(rng)
    ph = rng.uniform(-math.pi, math.pi)
    return complex(r * math.cos(ph), r * math.sin(ph))

def gen_args(rng, kind, exact=True, positive=False):
    R = exact_real if exact else decade_real
    C = (lambda r: exact_complex(r)) if exact else decade_complex
    if positive:
        C = lambda r: complex(R(r), rng.choice([0.0, R(r), -R(r)]))
    sgn = (lambda x: x) if positive else (lambda x: x if rng.random() < 0.7 else -x)
    if kind == 'resistor':   return dict(R=sgn(R(rng)))
    if kind == 'conductor':  return dict(G=sgn(R(rng)))
    if kind == 'impedance':  return dict(Z=C(rng))
    if kind == 'admittance': return dict(Y=C(rng))
    if kind == 'load_v':     return dict(P=R(rng), V_ref=R(rng), Q=rng.choice([0.0, R(rng), -R(rng)]))
    if kind == 'load_i':     return dict(P=R(rng), I_ref=R(rng), Q=rng.choice([0.0, R(rng)]))
    if kind == 'vs_ideal':   return dict(V=C(rng))
    if kind == 'vs_lossy':   return dict(V=C(rng), Z=C(rng))
    if kind == 'cs_ideal':   return dict(I=C(rng))
    if kind == 'cs_lossy':   return dict(I=C(rng), Y=C(rng))
    if kind in ('short', 'open'): return {}
    raise ValueError(kind)

MAGNITUDES = [2.0 ** -40, 2.0 ** -20, 2.0 ** 20]

def rescale_sources(desc, f):
    """multiply every independent source value by the (power-of-two, hence exact) factor f"""
    for d in desc['branches']:
        for k in ('V', 'I'):
            if k in d['args']:
                d['args'][k] = d['args'][k] * f
    return desc

LEVELS = [2.0 ** -40, 2.0 ** -30, 2.0 ** -20, 2.0 ** 20, 2.0 ** 30, 2.0 ** 40]

def rescale_impedances(desc, f):
    """multiply the impedance level of the whole network by the (power-of-two, hence exact) factor f:
    impedances ×f, admittances ÷f, current sources ÷f — potentials and voltages keep their values,
    currents scale by 1/f.  Pico-farad / giga-ohm and milli-ohm networks are ordinary circuits."""
    for d in desc['branches']:
        a = d['args']; k = d['kind']
        if k == 'resistor': a['R'] = a['R'] * f
        elif k == 'conductor': a['G'] = a['G'] / f
        elif k in ('impedance', 'vs_lossy'): a['Z'] = a['Z'] * f
        elif k == 'admittance': a['Y'] = a['Y'] / f
        elif k == 'cs_lossy': a['Y'] = a['Y'] / f; a['I'] = a['I'] / f
        elif k == 'cs_ideal': a['I'] = a['I'] / f
        elif k == 'load_v': a['P'] = a['P'] / f; a['Q'] = a['Q'] / f
        elif k == 'load_i': a['P'] = a['P'] / f; a['Q'] = a['Q'] / f; a['I_ref'] = a['I_ref'] / f
    return desc

def random_desc(rng, exact=True, n_nodes=None, n_extra=None, kinds=None, degenerate=0.0,
                positive=False, min_sources=1, magnitudes=0.15, levels=0.12):
    """as below; with probability `magnitudes` all sources are rescaled to pico / micro / mega
    magnitudes, with probability `levels` the impedance level of the network is (exact
    power-of-two factors)"""
    d = _random_desc(rng, exact, n_nodes, n_extra, kinds, degenerate, positive, min_sources)
    if rng.random() < magnitudes:
        rescale_sources(d, rng.choice(MAGNITUDES))
    if rng.random() < levels:
        rescale_impedances(d, rng.choice(LEVELS))
    if rng.random() < 0.12:
        for b in d['branches']:
            b['np'] = True          # numpy-scalar typed values (make_element)
    return d

def _random_desc(rng, exact=True, n_nodes=None, n_extra=None, kinds=None, degenerate=0.0,
                 positive=False, min_sources=1):
    """connected multigraph: random spanning tree + extra edges (parallel edges allowed),
    random terminal order, adversarial labels / ids."""
    n = n_nodes or rng.randint(2, 8)
    pool = list(rng.choice(LABEL_POOLS)); rng.shuffle(pool)
    labels = pool[:n]
    idf = rng.choice(ID_POOLS)
    edges = []
    for k in range(1, n):
        edges.append((labels[rng.randrange(k)], labels[k]))
    extra = n_extra if n_extra is not None else rng.randint(0, max(0, min(14 - (n - 1), n + 2)))
    for _ in range(extra):
        a, b = rng.sample(labels, 2)
        edges.append((a, b))
    rng.shuffle(edges)
    kinds = kinds or (PASSIVE_KINDS + SOURCE_KINDS)
    desc = []
    n_src = 0
    for i, (a, b) in enumerate(edges):
        if rng.random() < 0.5:
            a, b = b, a
        if rng.random() < degenerate:
            kind = rng.choice(DEGENERATE_KINDS)
        else:
            kind = rng.choice(kinds)
            if kind in ('vs_ideal',) and rng.random() < 0.5:
                kind = rng.choice(kinds)          # fewer ideal voltage sources (loops are singular)
        if kind in SOURCE_KINDS: n_src += 1
        desc.append(dict(n1=a, n2=b, id=idf(kind[:2], i), kind=kind, args=gen_args(rng, kind, exact, positive)))
    while n_src < min(min_sources, len(desc)) and desc:
        k = rng.randrange(len(desc))
        if desc[k]['kind'] not in SOURCE_KINDS:
            kind = rng.choice(['vs_lossy', 'cs_ideal', 'cs_lossy'])
            desc[k].update(kind=kind, args=gen_args(rng, kind, exact, positive))
            n_src += 1
    # ids must be distinct
    seen = set()
    for d in desc:
        while d['id'] in seen:
            d['id'] += "'"
        seen.add(d['id'])
    zero = rng.choice(labels)
    return dict(branches=desc, zero=zero)

# --------------------------------------------------------------------------- conversion

def _np_typed(a):
    """the same values as numpy scalars (results of np.sqrt, np.linspace, complex_value(...) are such objects)"""
    import numpy as np
    out = {}
    for k, v in a.items():
        if isinstance(v, bool) or not isinstance(v, (int, float, complex)): out[k] = v
        elif isinstance(v, complex): out[k] = np.complex128(v)
        elif isinstance(v, float): out[k] = np.float64(v)
        else: out[k] = v
    return out

def make_element(d):
    from CircuitCalculator.Network import elements as elm
    k, a, name = d['kind'], d['args'], d['id']
    if d.get('np'):
        a = _np_typed(a)
    if k == 'resistor':   return elm.resistor(name, a['R'])
    if k == 'conductor':  return elm.conductor(name, a['G'])
    if k == 'impedance':  return elm.impedance(name, a['Z'])
    if k == 'admittance': return elm.admittance(name, a['Y'])
    if k == 'load_v':     return elm.load(name, a['P'], V_ref=a['V_ref'], Q=a['Q'])
    if k == 'load_i':     return elm.load(name, a['P'], I_ref=a['I_ref'], Q=a['Q'])
    if k == 'vs_ideal':   return elm.voltage_source(name, a['V'])
    if k == 'vs_lossy':   return elm.voltage_source(name, a['V'], a['Z'])
    if k == 'cs_ideal':   return elm.current_source(name, a['I'])
    if k == 'cs_lossy':   return elm.current_source(name, a['I'], a['Y'])
    if k == 'short':      return elm.short_circuit(name)
    if k == 'open':       return elm.open_circuit(name)
    raise ValueError(k)

def fresh(s: str) -> str:
    """a new, non-interned string object equal to s (labels read from files or built at run time
    are never the same object as a literal, so identity comparisons in the code must not matter)"""
    return ''.join(list(s)) if len(s) > 1 else s

def to_impl(desc):
    from CircuitCalculator.Network.network import Network, Branch
    return Network([Branch(fresh(d['n1']), fresh(d['n2']), make_element(d)) for d in desc['branches']], fresh(desc['zero']))

def elem_json(e):
    cls = type(e).__name__
    if cls == 'NortenElement':
        return dict(k='N', a=core.qc(e.Z), b=core.qc(e.V))
    if cls == 'TheveninElement':
        return dict(k='T', a=core.qc(e.Y), b=core.qc(e.I))
    raise TypeError(cls)

def branch_json(b):
    return dict(n1=b.node1, n2=b.node2, id=b.id, ty=b.element.type, e=elem_json(b.element))

def impl_to_json(network):
    return dict(branches=[branch_json(b) for b in network.branches], zero=network.node_zero_label)

def desc_to_json(desc):
    """driver JSON without constructing a Network (the constructor may raise)"""
    from CircuitCalculator.Network.network import Branch
    return dict(branches=[branch_json(Branch(d['n1'], d['n2'], make_element(d))) for d in desc['branches']],
                zero=desc['zero'])

def shape(desc):
    """coarse structural key for the 'distinct' count"""
    ks = tuple(sorted(d['kind'] for d in desc['branches']))
    nodes = {d['n1'] for d in desc['branches']} | {d['n2'] for d in desc['branches']}
    return (len(nodes), len(desc['branches']), ks)

def pretty(desc):
    return dict(zero=desc['zero'], branches=[f"{d['id']}:{d['kind']}({d['n1']},{d['n2']}){d['args']}" + (' [numpy scalars]' if d.get('np') else '') for d in desc['branches']])

# --------------------------------------------------------------------------- bounded-exhaustive

def enumerate_small(max_nodes=3, max_branches=3, kinds=None):
    """every connected multigraph with ≤ max_nodes nodes and ≤ max_branches branches ×
    every kind assignment × both orientations of source branches × every reference node
    (values fixed to distinct small dyadics)."""
    kinds = kinds or ['resistor', 'conductor', 'vs_ideal', 'vs_lossy', 'cs_ideal', 'cs_lossy']
    vals = [2.0, 4.0, 0.5, 8.0, 1.0, 0.25]
    for n in range(2, max_nodes + 1):
        labels = ['b', 'a', 'c'][:n]
        pairs = list(itertools.combinations(labels, 2))
        for m in range(n - 1, max_branches + 1):
            for edges in itertools.combinations_with_replacement(pairs, m):
                # connected?
                comp = {labels[0]}
                changed = True
                while changed:
                    changed = False
                    for a, b in edges:
                        if (a in comp) != (b in comp):
                            comp |= {a, b}; changed = True
                if len(comp) != n:
                    continue
                for ks in itertools.product(kinds, repeat=m):
                    if not any(k in SOURCE_KINDS for k in ks):
                        continue
                    for flips in itertools.product([0, 1], repeat=m):
                        # orientation matters only for sources; skip flips of passives
                        if any(f and ks[i] not in SOURCE_KINDS for i, f in enumerate(flips)):
                            continue
                        for zero in labels:
                            desc = []
                            for i, ((a, b), k, f) in enumerate(zip(edges, ks, flips)):
                                if f: a, b = b, a
                                v = vals[i % len(vals)]
                                args = {'resistor': dict(R=v), 'conductor': dict(G=v),
                                        'vs_ideal': dict(V=complex(v, 1)), 'vs_lossy': dict(V=complex(v, -1), Z=complex(v, 0.5)),
                                        'cs_ideal': dict(I=complex(v, 2)), 'cs_lossy': dict(I=complex(-v, 1), Y=complex(0.5, v))}[k]
                                desc.append(dict(n1=a, n2=b, id=f'{"ZYX"[i % 3]}{i}', kind=k, args=args))
                            yield dict(branches=desc, zero=zero)

def ymax_json(jnet):
    """largest finite branch admittance magnitude of a driver-JSON network (for tolerances)"""
    m = 1.0
    for b in jnet['branches']:
        a = abs(core.cfloat(b['e']['a']))
        if b['e']['k'] == 'N':
            if a > 0: m = max(m, 1.0 / a)
        else:
            m = max(m, a)
    return m


def net_scales(network):
    """(pscale, iscale): magnitudes that potentials / currents of this implementation network are made of —
    source values and their images under the network's own immittances.  Results that are small only
    because large terms cancel (a shorted source, a dangling lossy source) carry rounding noise of this size,
    so comparisons use max(observed magnitudes, these) as the reference for a relative tolerance."""
    import cmath
    vs, cs, ys = [0.0], [0.0], []
    for b in network.branches:
        e = b.element
        for attr, lst in (('V', vs), ('I', cs)):
            try:
                x = complex(getattr(e, attr))
                if cmath.isfinite(x): lst.append(abs(x))
            except Exception:
                pass
        try:
            y = complex(e.Y)
            if cmath.isfinite(y) and y != 0: ys.append(abs(y))
        except Exception:
            pass
    ymax = max(ys or [1.0]); ymin = min(ys or [1.0])
    pscale = max(max(vs), max(cs) / ymin)
    iscale = max(max(cs), pscale * ymax)
    return pscale, iscale
