#!/venv/bin/python
"""seedreport.py — markdown table of the confirmed seeded changes and which checks caught them."""
import json
from pathlib import Path
ROOT = Path(__file__).resolve().parent.parent
rows = []
for d in sorted((ROOT / 'seeded').iterdir()):
    m = json.loads((d / 'meta.json').read_text())
    caught = []
    for p, info in m.get('checks', {}).items():
        if info['rc'] == 1:
            kind = {'counterexample': 'concrete input', 'broken-obligation': 'broken theorem (no input found)',
                    'correspondence': 'model≠code (no input found)'}.get(info.get('replay_kind'), info.get('replay_kind'))
            what = info.get('what')
            what = what if isinstance(what, str) else ', '.join(what or [])
            caught.append(f"**{p}**: {kind} — {what[:110]}")
        else:
            caught.append(f"{p}: not caught")
    rows.append(f"| `{m['name']}` | {m['needs'][:230]} | " + '<br>'.join(caught) + ' |')
print('| seeded change | what it is / what it needs to manifest | checks run against it → verdict |\n|---|---|---|')
print('\n'.join(rows))
