"""
extract_load.py — translator part of group Load (C17, C20).

  LoadTables.lean   the loader tables of Network/loaders.py, dump_load.py, Circuit/dump_load.py,
                    with the factory signatures of Network/elements.py and
                    Circuit/components.py they refer to, and the read/pop/copy structure of
                    `entry_to_branch`, `generate_component`, `to_complex`
  Effects.lean      conservative effect summary (which argument roots may be written) of every
                    function of the modules C20 is anchored in   (see effects_* below)

Everything outside the small grammar accepted here raises ExtractError: a refusal is a
broken obligation, never a guess.
"""
from __future__ import annotations
import ast
from pathlib import Path
from extract import generator, parse, lean_str, ExtractError

# ============================================================================ helpers

def _fail(rel, node, msg):
    raise ExtractError(f'{rel}:{getattr(node, "lineno", "?")}: {msg}')

def _module_assign(mod: ast.Module, name: str):
    for st in mod.body:
        if isinstance(st, ast.Assign) and len(st.targets) == 1 and isinstance(st.targets[0], ast.Name) and st.targets[0].id == name:
            return st.value
        if isinstance(st, ast.AnnAssign) and isinstance(st.target, ast.Name) and st.target.id == name:
            return st.value
    return None

def _func(mod: ast.Module, name: str):
    for st in mod.body:
        if isinstance(st, ast.FunctionDef) and st.name == name:
            return st
    return None

def _const_str(n):
    return n.value if isinstance(n, ast.Constant) and isinstance(n.value, str) else None

def _int_const(n):
    """literal int (or float with integral value), possibly negated"""
    if isinstance(n, ast.UnaryOp) and isinstance(n.op, ast.USub):
        v = _int_const(n.operand)
        return None if v is None else -v
    if isinstance(n, ast.Constant) and isinstance(n.value, (int, float)) and not isinstance(n.value, bool):
        if float(n.value) == int(n.value):
            return int(n.value)
    return None

def _lean_list(items):
    return '[' + ', '.join(items) + ']'

def _lean_opt_int(v):
    return 'none' if v is None else f'some ({v})'

def _body_without_doc(fn):
    body = list(fn.body)
    if body and isinstance(body[0], ast.Expr) and isinstance(body[0].value, ast.Constant) and isinstance(body[0].value.value, str):
        body = body[1:]
    return body

def _params_with_defaults(rel, fn: ast.FunctionDef, skip=0):
    a = fn.args
    if a.vararg or a.kwarg or a.kwonlyargs or a.posonlyargs:
        _fail(rel, fn, f'{fn.name}: only plain positional-or-keyword parameters are in the grammar')
    names = [x.arg for x in a.args]
    defaults = [None] * (len(names) - len(a.defaults)) + list(a.defaults)
    out = []
    for n, d in zip(names, defaults):
        if d is None:
            out.append((n, None))
        else:
            v = _int_const(d)
            if v is None:
                _fail(rel, fn, f'{fn.name}: default of {n} is not an integral literal')
            out.append((n, v))
    return out[skip:]

# ============================================================================ Network/loaders.py

LOADERS = 'Network/loaders.py'
ELEMENTS = 'Network/elements.py'

def _elem_factory(mod_elm, fname):
    fn = _func(mod_elm, fname)
    if fn is None:
        raise ExtractError(f'{ELEMENTS}: factory {fname} not found')
    body = _body_without_doc(fn)
    if len(body) != 1 or not isinstance(body[0], ast.Return) or not isinstance(body[0].value, ast.Call):
        _fail(ELEMENTS, fn, f'{fname}: body is not a single `return <Record>(…)`')
    call = body[0].value
    if not isinstance(call.func, ast.Name) or call.func.id not in ('NortenElement', 'TheveninElement') or call.args:
        _fail(ELEMENTS, fn, f'{fname}: does not return NortenElement(…)/TheveninElement(…) by keywords')
    norton = call.func.id == 'NortenElement'
    kw = {k.arg: k.value for k in call.keywords}
    need = {'Z', 'V', 'name', 'type'} if norton else {'Y', 'I', 'name', 'type'}
    if set(kw) != need:
        _fail(ELEMENTS, fn, f'{fname}: record keywords {sorted(kw)} ≠ {sorted(need)}')
    params = _params_with_defaults(ELEMENTS, fn)
    pnames = [p for p, _ in params]
    if not pnames or pnames[0] != 'name' or not (isinstance(kw['name'], ast.Name) and kw['name'].id == 'name'):
        _fail(ELEMENTS, fn, f'{fname}: first parameter / record name is not `name`')
    ty = _const_str(kw['type'])
    if ty is None:
        _fail(ELEMENTS, fn, f'{fname}: type is not a string literal')
    def src(n):
        if isinstance(n, ast.Name) and n.id in pnames:
            return f'.param {lean_str(n.id)}'
        v = _int_const(n)
        if v is not None:
            return f'.const ({v})'
        _fail(ELEMENTS, fn, f'{fname}: record field is neither a parameter nor an integral literal')
    a, b = (kw['Z'], kw['V']) if norton else (kw['Y'], kw['I'])
    plist = _lean_list(f'({lean_str(p)}, {_lean_opt_int(d)})' for p, d in params)
    return (f'{{ name := {lean_str(fname)}, params := {plist}, norton := {"true" if norton else "false"}, '
            f'a := {src(a)}, b := {src(b)}, ty := {lean_str(ty)} }}')

def _is_elm_attr(n):
    return isinstance(n, ast.Attribute) and isinstance(n.value, ast.Name) and n.value.id == 'elm'

def _to_complex_arg(rel, node):
    """`to_complex(kwargs.pop('K'))` | `to_complex(kwargs['K'])` [, degree=<bool>]  →  (K, read, degree)"""
    if not (isinstance(node, ast.Call) and isinstance(node.func, ast.Name) and node.func.id == 'to_complex'):
        _fail(rel, node, 'explicit keyword of a loader lambda is not a to_complex(…) call')
    if len(node.args) not in (1, 2):
        _fail(rel, node, 'to_complex(…) with an unexpected number of arguments')
    deg = False
    if len(node.args) == 2:
        if not isinstance(node.args[1], ast.Constant) or not isinstance(node.args[1].value, bool):
            _fail(rel, node, 'degree argument is not a boolean literal')
        deg = node.args[1].value
    for k in node.keywords:
        if k.arg != 'degree' or not isinstance(k.value, ast.Constant) or not isinstance(k.value.value, bool):
            _fail(rel, node, 'to_complex keyword outside the grammar')
        deg = k.value.value
    a = node.args[0]
    if (isinstance(a, ast.Call) and isinstance(a.func, ast.Attribute) and a.func.attr == 'pop'
            and isinstance(a.func.value, ast.Name) and a.func.value.id == 'kwargs' and len(a.args) == 1 and _const_str(a.args[0]) is not None):
        return _const_str(a.args[0]), '.pop', deg
    if (isinstance(a, ast.Subscript) and isinstance(a.value, ast.Name) and a.value.id == 'kwargs' and _const_str(a.slice) is not None):
        return _const_str(a.slice), '.get', deg
    _fail(rel, node, 'argument of to_complex is neither kwargs.pop(\'K\') nor kwargs[\'K\']')

def _net_loader(kind, v):
    if _is_elm_attr(v):
        return v.attr, f'{{ kind := {lean_str(kind)}, factory := {lean_str(v.attr)} }}'
    if not isinstance(v, ast.Lambda):
        _fail(LOADERS, v, f'entry {kind!r} is neither elm.<factory> nor a lambda')
    la = v.args
    if la.args or la.vararg or la.kwonlyargs or la.posonlyargs or la.kwarg is None or la.kwarg.arg != 'kwargs':
        _fail(LOADERS, v, f'entry {kind!r}: lambda parameters are not exactly **kwargs')
    call = v.body
    if not (isinstance(call, ast.Call) and _is_elm_attr(call.func)) or call.args:
        _fail(LOADERS, v, f'entry {kind!r}: lambda body is not elm.<factory>(keywords…)')
    cx, tkeys, forwards = [], [], 0
    for k in call.keywords:
        if k.arg is not None:
            if forwards:
                _fail(LOADERS, v, f'entry {kind!r}: explicit keyword after **')
            key, read, deg = _to_complex_arg(LOADERS, k.value)
            if deg:
                _fail(LOADERS, v, f'entry {kind!r}: to_complex(…, degree=True) inside a loader lambda is outside the grammar '
                                  '(it would write into the nested dictionary of the caller)')
            cx.append(f'({lean_str(k.arg)}, {lean_str(key)}, {read})')
        elif isinstance(k.value, ast.Name) and k.value.id == 'kwargs':
            forwards += 1
        elif (isinstance(k.value, ast.Call) and isinstance(k.value.func, ast.Name) and k.value.func.id == 'translate_to_complex'
              and not k.value.args):
            kws = {x.arg: x.value for x in k.value.keywords}
            if set(kws) != {'keys', None} or not (isinstance(kws[None], ast.Name) and kws[None].id == 'kwargs'):
                _fail(LOADERS, v, f'entry {kind!r}: translate_to_complex call outside the grammar')
            if not isinstance(kws['keys'], ast.List) or any(_const_str(e) is None for e in kws['keys'].elts):
                _fail(LOADERS, v, f'entry {kind!r}: keys= is not a list of string literals')
            tkeys = [_const_str(e) for e in kws['keys'].elts]
            forwards += 1
        else:
            _fail(LOADERS, v, f'entry {kind!r}: ** argument outside the grammar')
    if forwards != 1:
        _fail(LOADERS, v, f'entry {kind!r}: kwargs must be forwarded exactly once')
    return call.func.attr, (f'{{ kind := {lean_str(kind)}, factory := {lean_str(call.func.attr)}, '
                            f'cxArgs := {_lean_list(cx)}, translateKeys := {_lean_list(lean_str(t) for t in tkeys)} }}')

def _entry_to_branch(mod):
    """`entry_to_branch` of load_network: [entry = entry.copy()|dict(entry)] ; n1 = <read N1> ; n2 = <read N2> ;
    entry['name'] = <read id> ; element_factory = network_branch_translators[<read type>] ;
    element = element_factory(**entry) ; return Branch(n1, n2, element)"""
    ln = _func(mod, 'load_network')
    if ln is None:
        raise ExtractError(f'{LOADERS}: load_network not found')
    inner = [s for s in ln.body if isinstance(s, ast.FunctionDef) and s.name == 'entry_to_branch']
    if len(inner) != 1 or [a.arg for a in inner[0].args.args] != ['entry']:
        _fail(LOADERS, ln, 'load_network has no inner entry_to_branch(entry)')
    body = _body_without_doc(inner[0])
    copied = False
    def is_copy(st):
        if not (isinstance(st, ast.Assign) and len(st.targets) == 1 and isinstance(st.targets[0], ast.Name) and st.targets[0].id == 'entry'):
            return False
        v = st.value
        if isinstance(v, ast.Call) and isinstance(v.func, ast.Attribute) and v.func.attr == 'copy' and isinstance(v.func.value, ast.Name) and v.func.value.id == 'entry' and not v.args:
            return True
        if isinstance(v, ast.Call) and isinstance(v.func, ast.Name) and v.func.id == 'dict' and len(v.args) == 1 and isinstance(v.args[0], ast.Name) and v.args[0].id == 'entry' and not v.keywords:
            return True
        return False
    if body and is_copy(body[0]):
        copied = True
        body = body[1:]
    def read(n):
        if (isinstance(n, ast.Call) and isinstance(n.func, ast.Attribute) and n.func.attr == 'pop' and isinstance(n.func.value, ast.Name)
                and n.func.value.id == 'entry' and len(n.args) == 1 and _const_str(n.args[0]) is not None):
            return _const_str(n.args[0]), '.pop'
        if isinstance(n, ast.Subscript) and isinstance(n.value, ast.Name) and n.value.id == 'entry' and _const_str(n.slice) is not None:
            return _const_str(n.slice), '.get'
        _fail(LOADERS, n, 'entry_to_branch: read of the entry outside the grammar')
    if len(body) != 6:
        _fail(LOADERS, inner[0], 'entry_to_branch: expected six statements')
    s1, s2, s3, s4, s5, s6 = body
    def assign_name(st, name):
        if not (isinstance(st, ast.Assign) and len(st.targets) == 1 and isinstance(st.targets[0], ast.Name) and st.targets[0].id == name):
            _fail(LOADERS, st, f'entry_to_branch: expected `{name} = …`')
        return st.value
    r1 = read(assign_name(s1, 'n1'))
    r2 = read(assign_name(s2, 'n2'))
    if not (isinstance(s3, ast.Assign) and len(s3.targets) == 1 and isinstance(s3.targets[0], ast.Subscript)
            and isinstance(s3.targets[0].value, ast.Name) and s3.targets[0].value.id == 'entry' and _const_str(s3.targets[0].slice) == 'name'):
        _fail(LOADERS, s3, "entry_to_branch: expected `entry['name'] = …`")
    r3 = read(s3.value)
    v4 = assign_name(s4, 'element_factory')
    if not (isinstance(v4, ast.Subscript) and isinstance(v4.value, ast.Name) and v4.value.id == 'network_branch_translators'):
        _fail(LOADERS, s4, 'entry_to_branch: factory is not looked up in network_branch_translators')
    r4 = read(v4.slice)
    v5 = assign_name(s5, 'element')
    if not (isinstance(v5, ast.Call) and isinstance(v5.func, ast.Name) and v5.func.id == 'element_factory' and not v5.args
            and len(v5.keywords) == 1 and v5.keywords[0].arg is None and isinstance(v5.keywords[0].value, ast.Name) and v5.keywords[0].value.id == 'entry'):
        _fail(LOADERS, s5, 'entry_to_branch: expected `element = element_factory(**entry)`')
    if not (isinstance(s6, ast.Return) and isinstance(s6.value, ast.Call) and isinstance(s6.value.func, ast.Name) and s6.value.func.id == 'Branch'
            and [getattr(a, 'id', None) for a in s6.value.args] == ['n1', 'n2', 'element']):
        _fail(LOADERS, s6, 'entry_to_branch: expected `return Branch(n1, n2, element)`')
    # the try/except of load_network
    tries = [s for s in ln.body if isinstance(s, ast.Try)]
    if len(tries) != 1 or len(tries[0].handlers) != 1:
        _fail(LOADERS, ln, 'load_network: expected one try with one handler')
    h = tries[0].handlers[0]
    if not (isinstance(h.type, ast.Name) and len(h.body) == 1 and isinstance(h.body[0], ast.Raise)):
        _fail(LOADERS, h, 'load_network: handler outside the grammar')
    exc = h.body[0].exc
    exc_name = exc.id if isinstance(exc, ast.Name) else (exc.func.id if isinstance(exc, ast.Call) and isinstance(exc.func, ast.Name) else None)
    if exc_name is None:
        _fail(LOADERS, h, 'load_network: raised exception outside the grammar')
    reads = [('n1',) + r1, ('n2',) + r2, ('name',) + r3, ('type',) + r4]
    return copied, reads, h.type.id, exc_name

def _to_complex_shape(mod):
    """how `to_complex(z, degree)` applies the degree option:
         in place   `if degree: z['phase'] *= np.pi/180`                       -> True
         locally    `<name> = z['phase']*np.pi/180 if degree else z['phase']`  -> False
    Any other write to `z`, or no recognisable degree handling, is refused."""
    fn = _func(mod, 'to_complex')
    if fn is None or [a.arg for a in fn.args.args] != ['z', 'degree']:
        raise ExtractError(f'{LOADERS}: to_complex(z, degree) not found')
    def is_z_phase(n):
        return isinstance(n, ast.Subscript) and isinstance(n.value, ast.Name) and n.value.id == 'z' and _const_str(n.slice) == 'phase'
    def writes_z(t):
        return isinstance(t, (ast.Subscript, ast.Attribute)) and isinstance(t.value, ast.Name) and t.value.id == 'z'
    inplace, local = False, False
    for node in ast.walk(fn):
        if isinstance(node, ast.If) and isinstance(node.test, ast.Name) and node.test.id == 'degree':
            ok = (len(node.body) == 1 and not node.orelse and isinstance(node.body[0], ast.AugAssign)
                  and isinstance(node.body[0].op, ast.Mult) and is_z_phase(node.body[0].target))
            if not ok:
                _fail(LOADERS, node, "to_complex: degree branch outside the grammar (expected `z['phase'] *= np.pi/180`)")
            inplace = True
        elif isinstance(node, ast.IfExp) and isinstance(node.test, ast.Name) and node.test.id == 'degree':
            if not (is_z_phase(node.orelse) and any(is_z_phase(x) for x in ast.walk(node.body))):
                _fail(LOADERS, node, "to_complex: conditional degree conversion outside the grammar")
            local = True
    for node in ast.walk(fn):
        targets = node.targets if isinstance(node, ast.Assign) else [node.target] if isinstance(node, (ast.AugAssign, ast.AnnAssign)) else \
                  node.targets if isinstance(node, ast.Delete) else []
        for t in targets:
            if writes_z(t) and not (inplace and isinstance(node, ast.AugAssign) and is_z_phase(t)):
                _fail(LOADERS, node, 'to_complex: writes into its argument outside the grammar')
        if isinstance(node, ast.Call) and isinstance(node.func, ast.Attribute) and isinstance(node.func.value, ast.Name) \
                and node.func.value.id == 'z' and node.func.attr in MUTATORS:
            _fail(LOADERS, node, 'to_complex: calls a mutating method on its argument')
    if inplace == local:
        _fail(LOADERS, fn, 'to_complex: the degree option is handled neither in place nor by a local conditional (or by both)')
    return inplace

# ============================================================================ Circuit/dump_load.py, components.py

CDL = 'Circuit/dump_load.py'
COMPONENTS = 'Circuit/components.py'

def _comp_factory(mod_c, fname):
    fn = _func(mod_c, fname)
    if fn is None:
        raise ExtractError(f'{COMPONENTS}: constructor {fname} not found')
    params = _params_with_defaults(COMPONENTS, fn)
    if [p for p, _ in params[:2]] != ['id', 'nodes']:
        _fail(COMPONENTS, fn, f'{fname}: first parameters are not id, nodes')
    params = params[2:]
    pnames = [p for p, _ in params]
    body = _body_without_doc(fn)
    guards = []
    for st in body[:-1]:
        ok = (isinstance(st, ast.If) and not st.orelse and len(st.body) == 1 and isinstance(st.body[0], ast.Raise)
              and isinstance(st.test, ast.Compare) and len(st.test.ops) == 1 and isinstance(st.test.ops[0], ast.Lt)
              and isinstance(st.test.left, ast.Name) and st.test.left.id in pnames and _int_const(st.test.comparators[0]) is not None)
        if not ok:
            _fail(COMPONENTS, st, f'{fname}: statement is not `if <param> < <literal>: raise …`')
        exc = st.body[0].exc
        en = exc.func.id if isinstance(exc, ast.Call) and isinstance(exc.func, ast.Name) else getattr(exc, 'id', None)
        if en != 'ValueError':
            _fail(COMPONENTS, st, f'{fname}: guard raises {en}, not ValueError')
        guards.append(f'({lean_str(st.test.left.id)}, ({_int_const(st.test.comparators[0])}))')
    ret = body[-1]
    if not (isinstance(ret, ast.Return) and isinstance(ret.value, ast.Call) and isinstance(ret.value.func, ast.Name) and ret.value.func.id == 'Component' and not ret.value.args):
        _fail(COMPONENTS, ret, f'{fname}: does not end in `return Component(keywords…)`')
    kw = {k.arg: k.value for k in ret.value.keywords}
    if set(kw) - {'value'} != {'type', 'id', 'nodes'}:
        _fail(COMPONENTS, ret, f'{fname}: Component keywords {sorted(map(str, kw))}')
    if not (isinstance(kw['id'], ast.Name) and kw['id'].id == 'id' and isinstance(kw['nodes'], ast.Name) and kw['nodes'].id == 'nodes'):
        _fail(COMPONENTS, ret, f'{fname}: id/nodes are not passed through')
    kind = _const_str(kw['type'])
    if kind is None:
        _fail(COMPONENTS, ret, f'{fname}: type is not a string literal')
    vals = []
    if 'value' in kw:
        d = kw['value']
        if not isinstance(d, ast.Dict):
            _fail(COMPONENTS, ret, f'{fname}: value is not a dictionary literal')
        for k, v in zip(d.keys, d.values):
            ks = _const_str(k)
            if ks is None:
                _fail(COMPONENTS, ret, f'{fname}: value key is not a string literal')
            if isinstance(v, ast.Name) and v.id in pnames:
                s = f'.param {lean_str(v.id)}'
            elif isinstance(v, ast.Attribute) and isinstance(v.value, ast.Name) and v.value.id in pnames and v.attr in ('real', 'imag'):
                s = f'.{"re" if v.attr == "real" else "im"} {lean_str(v.value.id)}'
            elif _int_const(v) is not None:
                s = f'.const ({_int_const(v)})'
            else:
                _fail(COMPONENTS, ret, f'{fname}: value of key {ks!r} outside the grammar')
            vals.append(f'({lean_str(ks)}, {s})')
    plist = _lean_list(f'({lean_str(p)}, {_lean_opt_int(d)})' for p, d in params)
    return (f'{{ name := {lean_str(fname)}, kind := {lean_str(kind)}, params := {plist}, '
            f'guards := {_lean_list(guards)}, value := {_lean_list(vals)} }}')

def _generate_component(mod):
    fn = _func(mod, 'generate_component')
    if fn is None or [a.arg for a in fn.args.args] != ['component']:
        raise ExtractError(f'{CDL}: generate_component(component) not found')
    body = _body_without_doc(fn)
    copied = False
    if body and isinstance(body[0], ast.Assign) and len(body[0].targets) == 1 and getattr(body[0].targets[0], 'id', None) == 'component':
        v = body[0].value
        if (isinstance(v, ast.Call) and isinstance(v.func, ast.Attribute) and v.func.attr == 'copy'
                and isinstance(v.func.value, ast.Name) and v.func.value.id == 'component' and not v.args) or \
           (isinstance(v, ast.Call) and isinstance(v.func, ast.Name) and v.func.id == 'dict' and len(v.args) == 1
                and getattr(v.args[0], 'id', None) == 'component'):
            copied = True
            body = body[1:]
        else:
            _fail(CDL, body[0], 'generate_component: re-binding of `component` outside the grammar')
    def handler_exc(t, expect):
        if len(t.handlers) != 1 or not isinstance(t.handlers[0].type, ast.Name) or t.handlers[0].type.id != expect:
            _fail(CDL, t, f'generate_component: expected a single `except {expect}`')
        hb = t.handlers[0].body
        if len(hb) != 1 or not isinstance(hb[0], ast.Raise) or not isinstance(hb[0].exc, ast.Call) or not isinstance(hb[0].exc.func, ast.Name):
            _fail(CDL, t, 'generate_component: handler does not raise a named exception')
        return hb[0].exc.func.id
    reads, lookup_exc, call_exc = [], None, None
    for t in body:
        if not isinstance(t, ast.Try) or len(t.body) != 1 or t.orelse or t.finalbody:
            _fail(CDL, t, 'generate_component: statement is not a one-line try/except')
        st = t.body[0]
        if isinstance(st, ast.Return):
            c = st.value
            ok = (isinstance(c, ast.Call) and isinstance(c.func, ast.Name) and c.func.id == 'component_factory' and not c.args
                  and [(k.arg, getattr(k.value, 'id', None)) for k in c.keywords] ==
                      [('id', 'component_id'), ('nodes', 'component_nodes'), (None, 'component_value')])
            if not ok:
                _fail(CDL, st, 'generate_component: factory call outside the grammar')
            call_exc = handler_exc(t, 'TypeError')
            continue
        if not (isinstance(st, ast.Assign) and len(st.targets) == 1 and isinstance(st.targets[0], ast.Name)):
            _fail(CDL, st, 'generate_component: try body outside the grammar')
        var, v = st.targets[0].id, st.value
        if isinstance(v, ast.Subscript) and isinstance(v.value, ast.Name) and v.value.id == 'circuit_component_translators':
            if getattr(v.slice, 'id', None) != 'component_type' or var != 'component_factory':
                _fail(CDL, st, 'generate_component: table lookup outside the grammar')
            lookup_exc = handler_exc(t, 'KeyError')
        elif isinstance(v, ast.Subscript) and isinstance(v.value, ast.Name) and v.value.id == 'component' and _const_str(v.slice) is not None:
            reads.append((var, _const_str(v.slice), '.get', handler_exc(t, 'KeyError')))
        elif (isinstance(v, ast.Call) and isinstance(v.func, ast.Attribute) and v.func.attr == 'pop' and isinstance(v.func.value, ast.Name)
              and v.func.value.id == 'component' and len(v.args) == 1 and _const_str(v.args[0]) is not None):
            reads.append((var, _const_str(v.args[0]), '.pop', handler_exc(t, 'KeyError')))
        else:
            _fail(CDL, st, 'generate_component: read outside the grammar')
    if lookup_exc is None or call_exc is None:
        _fail(CDL, fn, 'generate_component: table lookup or factory call missing')
    if [r[0] for r in reads] != ['component_id', 'component_value', 'component_type', 'component_nodes']:
        _fail(CDL, fn, f'generate_component: reads {[r[0] for r in reads]} are not id, value, type, nodes in this order')
    return copied, reads, lookup_exc, call_exc

def _format_table(mod, name):
    d = _module_assign(mod, name)
    if not isinstance(d, ast.Dict):
        raise ExtractError(f'dump_load.py: {name} is not a dictionary literal')
    out = []
    for k, v in zip(d.keys, d.values):
        ks = _const_str(k)
        if ks is None or not (isinstance(v, ast.Attribute) and isinstance(v.value, ast.Name)):
            _fail('dump_load.py', d, f'{name}: entry outside the grammar')
        out.append((ks, f'{v.value.id}.{v.attr}'))
    return out

NOTATION_KEYS = [['real', 'imag'], ['abs', 'phase'], ['abs', 'phase_deg']]

def _notation_shape(mod):
    """`_complex_from_notation(value)` of dump_load.py: how a mapping is recognised as a complex notation.
         keys = set(value.keys());           if keys == {'real', 'imag'}: …      -> by key set      (False)
         keys = sorted(list(value.keys()));  if keys == sorted(['real', 'imag']) -> by sorted keys  (True; raises TypeError
                                                                                   for keys of different types)
       and the three key sets in source order"""
    rel = 'dump_load.py'
    fn = _func(mod, '_complex_from_notation')
    if fn is None or [a.arg for a in fn.args.args] != ['value'] or fn.decorator_list:
        raise ExtractError(f'{rel}: _complex_from_notation(value) not found')
    body = _body_without_doc(fn)
    st = body[0] if body else None
    if not (isinstance(st, ast.Assign) and len(st.targets) == 1 and isinstance(st.targets[0], ast.Name) and st.targets[0].id == 'keys'):
        _fail(rel, fn, '_complex_from_notation: first statement is not `keys = …`')
    txt = ast.unparse(st.value)
    if txt == 'set(value.keys())': by_sorted = False
    elif txt == 'sorted(list(value.keys()))': by_sorted = True
    else: _fail(rel, st, f'_complex_from_notation: `keys = {txt}` outside the grammar')
    sets = []
    for st in body[1:]:
        if isinstance(st, ast.If):
            t = st.test
            if not (isinstance(t, ast.Compare) and len(t.ops) == 1 and isinstance(t.ops[0], ast.Eq) and isinstance(t.left, ast.Name)
                    and t.left.id == 'keys' and not st.orelse):
                _fail(rel, st, '_complex_from_notation: test is not `keys == …`')
            c = t.comparators[0]
            if not by_sorted and isinstance(c, ast.Set): elts = c.elts
            elif by_sorted and isinstance(c, ast.Call) and isinstance(c.func, ast.Name) and c.func.id == 'sorted' and len(c.args) == 1 \
                    and isinstance(c.args[0], ast.List): elts = c.args[0].elts
            else: _fail(rel, st, '_complex_from_notation: key set literal outside the grammar')
            ks = [_const_str(e) for e in elts]
            if None in ks: _fail(rel, st, '_complex_from_notation: non-string notation key')
            sets.append(ks)
        elif isinstance(st, ast.Return) and isinstance(st.value, ast.Constant) and st.value.value is None and st is body[-1]:
            pass
        else:
            _fail(rel, st, '_complex_from_notation: statement outside the grammar')
    if [sorted(k) for k in sets] != [sorted(k) for k in NOTATION_KEYS]:
        _fail(rel, fn, f'_complex_from_notation: notations {sets} are not real/imag, abs/phase, abs/phase_deg in this order')
    return by_sorted, sets

def _dictify_parts(mod):
    """do `dictify_complex_values` / `dictify_all_complex_values` store the parts as `float(x.real)` (plain Python floats,
    which every serialiser can carry) or as `x.real` (numpy.float64 for numpy complex values)?"""
    rel = 'dump_load.py'
    flags = []
    for name in ('dictify_complex_values', 'dictify_all_complex_values'):
        fn = _func(mod, name)
        if fn is None or fn.decorator_list: raise ExtractError(f'{rel}: {name} not found')
        dicts = [n for n in ast.walk(fn) if isinstance(n, ast.Dict) and [_const_str(k) for k in n.keys] == ['real', 'imag']]
        if len(dicts) != 1: _fail(rel, fn, f"{name}: expected exactly one {{'real': …, 'imag': …}} literal")
        shapes = []
        for attr, v in zip(('real', 'imag'), dicts[0].values):
            if isinstance(v, ast.Attribute) and v.attr == attr and isinstance(v.value, ast.Name): shapes.append(False)
            elif (isinstance(v, ast.Call) and isinstance(v.func, ast.Name) and v.func.id == 'float' and len(v.args) == 1 and not v.keywords
                  and isinstance(v.args[0], ast.Attribute) and v.args[0].attr == attr and isinstance(v.args[0].value, ast.Name)): shapes.append(True)
            else: _fail(rel, dicts[0], f'{name}: part {attr!r} is neither `x.{attr}` nor `float(x.{attr})`')
        if shapes[0] != shapes[1]: _fail(rel, dicts[0], f'{name}: real and imaginary part are stored differently')
        flags.append(shapes[0])
    if flags[0] != flags[1]: _fail(rel, mod, 'dictify_complex_values and dictify_all_complex_values store the parts differently')
    return flags[0]

KNOWN_DECORATORS = {'property', 'abstractmethod', 'staticmethod', 'classmethod'}

def _decorations(rel, tree):
    """decorators the translator does not know (a decorator such as functools.lru_cache changes what the function *is*:
    the model of its body no longer describes the callable), and module-level re-bindings of a defined function"""
    out = []
    defined = {n.name for n in tree.body if isinstance(n, (ast.FunctionDef, ast.ClassDef))}
    for n in ast.walk(tree):
        if isinstance(n, (ast.FunctionDef, ast.AsyncFunctionDef)):
            for d in n.decorator_list:
                txt = ast.unparse(d)
                if txt not in KNOWN_DECORATORS and not txt.endswith('.setter'):
                    out.append((f'{rel}:{n.name}', '@' + txt))
        elif isinstance(n, ast.ClassDef):
            for d in n.decorator_list:
                txt = ast.unparse(d)
                if not (txt == 'dataclass' or txt.startswith('dataclass(')):
                    out.append((f'{rel}:{n.name}', '@' + txt))
    for st in tree.body:
        if isinstance(st, ast.Assign):
            for t in st.targets:
                if isinstance(t, ast.Name) and t.id in defined:
                    out.append((f'{rel}:{t.id}', 're-bound: ' + ast.unparse(st.value)[:80]))
    return out

@generator('LoadTables.lean')
def gen_load_tables(src: Path) -> str:
    mod = parse(src, LOADERS)
    mod_elm = parse(src, ELEMENTS)
    tbl = _module_assign(mod, 'network_branch_translators')
    if not isinstance(tbl, ast.Dict):
        raise ExtractError(f'{LOADERS}: network_branch_translators is not a dictionary literal')
    loaders, factories = [], []
    for k, v in zip(tbl.keys, tbl.values):
        kind = _const_str(k)
        if kind is None:
            _fail(LOADERS, tbl, 'network_branch_translators: key is not a string literal')
        fac, txt = _net_loader(kind, v)
        loaders.append(txt)
        if fac not in factories:
            factories.append(fac)
    copied, reads, caught, raised = _entry_to_branch(mod)
    inplace = _to_complex_shape(mod)
    # circuit side
    mod_cdl = parse(src, CDL)
    mod_cmp = parse(src, COMPONENTS)
    ctbl = _module_assign(mod_cdl, 'circuit_component_translators')
    if not isinstance(ctbl, ast.Dict):
        raise ExtractError(f'{CDL}: circuit_component_translators is not a dictionary literal')
    centries, cfacs = [], []
    for k, v in zip(ctbl.keys, ctbl.values):
        kind = _const_str(k)
        if kind is None or not (isinstance(v, ast.Attribute) and isinstance(v.value, ast.Name) and v.value.id == 'ccp'):
            _fail(CDL, ctbl, 'circuit_component_translators: entry is not "kind" : ccp.<constructor>')
        centries.append(f'({lean_str(kind)}, {lean_str(v.attr)})')
        if v.attr not in cfacs:
            cfacs.append(v.attr)
    ccopied, creads, lookup_exc, call_exc = _generate_component(mod_cdl)
    mod_dl = parse(src, 'dump_load.py')
    ser = _format_table(mod_dl, 'serializers')
    des = _format_table(mod_dl, 'deserializers')
    L = []
    L.append('/- GENERATED by harness/extract_load.py from Network/loaders.py, Network/elements.py,')
    L.append('   Circuit/dump_load.py, Circuit/components.py, dump_load.py — do not edit. -/')
    L.append('import CC.Model.LoadBase')
    L.append('namespace CC.Gen.Load')
    L.append('open CC.Load')
    L.append('')
    L.append('/-- `network_branch_translators` (Network/loaders.py), in source order -/')
    L.append('def networkBranchTranslators : List NetLoader := [')
    L.append(',\n'.join('  ' + t for t in loaders))
    L.append(']')
    L.append('')
    L.append('/-- the factories of Network/elements.py the table refers to -/')
    L.append('def elementFactories : List ElemFactory := [')
    L.append(',\n'.join('  ' + _elem_factory(mod_elm, f) for f in factories))
    L.append(']')
    L.append('')
    L.append('/-- does `entry_to_branch` work on a copy of the entry? -/')
    L.append(f'def entryCopied : Bool := {"true" if copied else "false"}')
    L.append('/-- the four reads of `entry_to_branch`: (what, key, how) -/')
    L.append('def entryReads : List (String × String × KeyRead) := ' +
             _lean_list(f'({lean_str(a)}, {lean_str(b)}, {c})' for a, b, c in reads))
    L.append(f'/-- `except {caught}: raise {raised}` in `load_network` -/')
    L.append(f'def loadCaught : String := {lean_str(caught)}')
    L.append(f'def loadRaised : String := {lean_str(raised)}')
    L.append("/-- does the degree option write `z['phase'] *= np.pi/180` into the caller's dictionary (true) or use a local value (false)? -/")
    L.append(f'def degreeInPlace : Bool := {"true" if inplace else "false"}')
    L.append('')
    L.append('/-- `circuit_component_translators` (Circuit/dump_load.py): kind ↦ constructor -/')
    L.append('def circuitComponentTranslators : List (String × String) := ' + _lean_list(centries))
    L.append('')
    L.append('/-- the constructors of Circuit/components.py the table refers to -/')
    L.append('def componentFactories : List CompFactory := [')
    L.append(',\n'.join('  ' + _comp_factory(mod_cmp, f) for f in cfacs))
    L.append(']')
    L.append('')
    L.append('/-- does `generate_component` work on a copy of its argument? -/')
    L.append(f'def componentCopied : Bool := {"true" if ccopied else "false"}')
    L.append('def componentReads : List CompRead := ' +
             _lean_list(f'{{ var := {lean_str(a)}, key := {lean_str(b)}, read := {c}, exc := {lean_str(d)} }}' for a, b, c, d in creads))
    L.append(f'def componentLookupExc : String := {lean_str(lookup_exc)}')
    L.append(f'def componentCallExc : String := {lean_str(call_exc)}')
    L.append('')
    L.append('/-- `serializers` / `deserializers` of dump_load.py: format ↦ library function -/')
    L.append('def serializers : List (String × String) := ' + _lean_list(f'({lean_str(a)}, {lean_str(b)})' for a, b in ser))
    L.append('def deserializers : List (String × String) := ' + _lean_list(f'({lean_str(a)}, {lean_str(b)})' for a, b in des))
    L.append('')
    by_sorted, nsets = _notation_shape(mod_dl)
    plain_floats = _dictify_parts(mod_dl)
    L.append('/-- `_complex_from_notation`: is a mapping recognised by `sorted(list(value.keys()))` (true: raises TypeError for keys of')
    L.append('    different types) or by its key set `set(value.keys())` (false)? -/')
    L.append(f'def notationBySortedKeys : Bool := {"true" if by_sorted else "false"}')
    L.append('/-- the key sets of the three notations, in source order -/')
    L.append('def notationKeySets : List (List String) := ' + _lean_list(_lean_list(lean_str(k) for k in ks) for ks in nsets))
    L.append("/-- do the dictify functions store `float(x.real)`, `float(x.imag)` (plain floats: a numpy.complex128 survives yaml)? -/")
    L.append(f'def dictifyPlainFloats : Bool := {"true" if plain_floats else "false"}')
    L.append('')
    deco = []
    for rel in (LOADERS, 'dump_load.py', CDL, ELEMENTS, COMPONENTS, 'Network/network.py', 'Circuit/circuit.py'):
        deco += _decorations(rel, parse(src, rel))
    L.append('/-- functions / classes of the loader modules that carry a decorator the translator does not know (anything but')
    L.append('    `property`, `abstractmethod`, `staticmethod`, `classmethod`, `dataclass`), or that are re-bound at module level:')
    L.append('    the hand-written model describes the *body*; a wrapper (a cache, say) makes the callable something else -/')
    L.append('def decoratedFunctions : List (String × String) := ' + _lean_list(f'({lean_str(a)}, {lean_str(b)})' for a, b in deco))
    L.append('')
    L.append('end CC.Gen.Load')
    return '\n'.join(L) + '\n'

# ============================================================================ effect summary (C20)
#
# A conservative, flow-insensitive analysis of which *caller-visible* objects a function may
# write.  Every local name carries a may-alias set of (root, level):
#     root   a parameter of the function (or of an enclosing function), or a module-level
#            mutable object  ('global', 'module.name')
#     level  'same'     the very object the root is bound to
#            'shallow'  a fresh container whose elements are reachable from the root
#                       (x.copy(), list(x), dict(x), sorted(x), **kwargs packing, [… for … in x],
#                        a dataclass instance holding x)
#            'deep'     an object reachable from the root through attribute reads, subscripts,
#                       iteration, .get/.pop/.values()/.items()
# Writes (subscript/attribute assignment, augmented assignment, del, the mutator methods) on a
# 'same' alias are recorded as a write of the root, on a 'deep' alias as a write inside the
# root, on a 'shallow' alias not at all.  Calls of analysed functions propagate the callee's
# summary through the argument binding (fixed point over the call graph); callable parameters
# are resolved to their default (or functools.partial) binding; external callees are looked up
# in an allow-list of names known not to write their arguments; every other callee that
# receives an aliased argument "may write its arguments" and is listed in `unknownCalls`.

EFFECT_SCOPE = [
    'Network/transformers.py', 'Network/loaders.py', 'Network/NodalAnalysis/state_space_model.py',
    'Network/NodalAnalysis/solution.py', 'Network/NodalAnalysis/bias_point_analysis.py',
    'Network/NodalAnalysis/node_analysis.py', 'dump_load.py', 'Circuit/dump_load.py',
    'Circuit/solution.py', 'Circuit/circuit.py', 'Circuit/impedance.py', 'Circuit/state_space_model.py',
]
EFFECT_SUPPORT = [
    'Network/network.py', 'Network/elements.py', 'Network/NodalAnalysis/label_mapping.py',
    'Network/solution.py', 'Circuit/components.py', 'Circuit/transformers.py',
    'SignalProcessing/state_space_model.py', 'SignalProcessing/periodic_functions.py',
    'SignalProcessing/types.py',
]

MUTATORS = {'pop', 'update', 'append', 'extend', 'insert', 'remove', 'sort', 'clear', 'setdefault', 'popitem',
            'add', 'discard', 'reverse', 'fill', 'resize', 'put', 'itemset', 'difference_update',
            'intersection_update', 'symmetric_difference_update', '__setitem__', '__delitem__', '__setattr__'}
DEREF_METHODS = {'get', 'pop', 'values', 'items', 'keys', 'setdefault', 'popitem', '__getitem__', 'reshape', 'ravel', 'view'}
SHALLOW_METHODS = {'copy'}
PURE_METHODS = {'get', 'values', 'items', 'keys', 'index', 'count', 'copy', 'conjugate', 'any', 'all', 'astype', 'tolist',
                'flatten', 'reshape', 'ravel', 'read', 'write', 'lower', 'upper', 'format', 'join', 'split', 'startswith',
                'endswith', 'strip', 'real', 'imag', 'sum', 'dot', 'transpose', 'item', 'is_integer', 'as_integer_ratio',
                'isidentifier', 'encode', 'decode', 'replace', 'close', 'view', '__getitem__', 'union', 'intersection',
                'difference', 'symmetric_difference', 'issubset', 'issuperset', 'isdisjoint', 'conj'}
PURE_BUILTINS = {'len', 'sorted', 'set', 'list', 'dict', 'tuple', 'enumerate', 'zip', 'float', 'complex', 'str', 'int', 'bool',
                 'isinstance', 'issubclass', 'sum', 'any', 'all', 'range', 'iter', 'next', 'open', 'print', 'repr', 'abs',
                 'min', 'max', 'round', 'type', 'id', 'hash', 'callable', 'getattr', 'hasattr', 'reversed', 'map', 'filter',
                 'frozenset', 'ValueError', 'TypeError', 'KeyError', 'AttributeError', 'FileExistsError', 'Exception',
                 'IndexError', 'ZeroDivisionError', 'NotImplementedError', 'super', 'format', 'divmod', 'pow', 'chr', 'ord'}
SHALLOW_BUILTINS = {'sorted', 'set', 'list', 'dict', 'tuple', 'enumerate', 'zip', 'iter', 'reversed', 'frozenset', 'map', 'filter'}
PURE_EXTERNAL_MODULES = {'numpy', 'json', 'yaml', 'itertools', 'functools', 'scipy', 'pathlib', 'dataclasses', 'typing', 'abc', 'math', 'cmath'}
# functions of otherwise pure external modules that do write an argument
IMPURE_EXTERNAL = {'fill_diagonal', 'put', 'copyto', 'place', 'putmask', 'shuffle', 'put_along_axis', 'dump', 'setattr', 'update_wrapper'}
# …except these (json.dump / yaml.dump write to a stream, not to the data)
IMPURE_EXTERNAL_OK = {('yaml', 'dump'), ('json', 'dump')}
# numpy functions that may hand back the very array they were given (no copy when the dtype already fits) or a view of it
VIEW_EXTERNAL = {'asarray', 'asanyarray', 'ascontiguousarray', 'asfarray', 'ravel', 'reshape', 'squeeze', 'atleast_1d', 'atleast_2d',
                 'transpose', 'swapaxes', 'real', 'imag', 'diagonal', 'flip', 'broadcast_to', 'expand_dims'}

def _lv_deref(l): return 'deep'
def _lv_shallow(l): return 'shallow'
def _lv_combine(a, r):
    if 'deep' in (a, r): return 'deep'
    if 'shallow' in (a, r): return 'shallow'
    return 'same'

class _Unit:
    def __init__(self, qname, rel, node, cls=None, parent=None, overrides=None, kind='func'):
        self.qname, self.rel, self.node, self.cls, self.parent, self.kind = qname, rel, node, cls, parent, kind
        self.overrides = overrides or {}          # callable parameter -> callee expression resolved in `over_ctx`
        self.over_ctx = None
        a = node.args
        self.params = [x.arg for x in a.posonlyargs + a.args + a.kwonlyargs]
        self.vararg = a.vararg.arg if a.vararg else None
        self.kwarg = a.kwarg.arg if a.kwarg else None
        pos = a.posonlyargs + a.args
        self.defaults = dict(zip([x.arg for x in pos][len(pos) - len(a.defaults):], a.defaults))
        self.defaults.update({x.arg: d for x, d in zip(a.kwonlyargs, a.kw_defaults) if d is not None})
        self.top, self.deep, self.ret = set(), set(), set()
        self.env = {}
        self.locals = None
        self.nested = {}
        self.unknown = set()
        self.assumed = set()
    def roots(self):
        return [(self.qname, p) for p in self.params + [x for x in (self.vararg, self.kwarg) if x]]
    def all_params(self):
        return self.params + [x for x in (self.vararg, self.kwarg) if x]

class _Class:
    def __init__(self, qname, rel, node):
        self.qname, self.rel, self.node = qname, rel, node
        self.methods, self.fields, self.field_defaults = {}, [], {}
        self.bases = [b.id if isinstance(b, ast.Name) else getattr(b, 'attr', '?') for b in node.bases]

class _Module:
    def __init__(self, rel, tree):
        self.rel, self.tree = rel, tree
        self.name = rel[:-3].replace('/', '.')
        self.imports, self.funcs, self.classes, self.tables, self.globals_mut, self.partials = {}, {}, {}, {}, set(), {}

class EffectAnalysis:
    def __init__(self, src: Path):
        self.src = src
        self.mods = {}
        self.units = {}
        for rel in EFFECT_SCOPE + EFFECT_SUPPORT:
            self.mods[rel] = _Module(rel, parse(src, rel))
        for m in self.mods.values():
            self._index(m)
        for m in self.mods.values():
            self._partials(m)

    # ------------------------------------------------------------------ indexing
    def _resolve_import(self, rel, level, module, name):
        parts = rel.split('/')[:-1]
        if level > 0:
            parts = parts[:len(parts) - (level - 1)] if level > 1 else parts
        else:
            return ('external', (module or name).split('.')[0], name)
        base = parts + (module.split('.') if module else [])
        if name is None:
            cand = '/'.join(base) + '.py'
            return ('module', cand) if cand in self.mods else ('repo-other', cand, None)
        cand = '/'.join(base + [name]) + '.py'
        if cand in self.mods:
            return ('module', cand)
        cand = '/'.join(base) + '.py'
        if cand in self.mods:
            return ('symbol', cand, name)
        return ('repo-other', cand, name)

    def _index(self, m: _Module):
        for st in m.tree.body:
            if isinstance(st, ast.Import):
                for a in st.names:
                    m.imports[(a.asname or a.name).split('.')[0]] = ('external', a.name.split('.')[0], None)
            elif isinstance(st, ast.ImportFrom):
                for a in st.names:
                    m.imports[a.asname or a.name] = self._resolve_import(m.rel, st.level, st.module, a.name)
            elif isinstance(st, ast.FunctionDef):
                u = _Unit(f'{m.name}.{st.name}', m.rel, st)
                m.funcs[st.name] = u
                self._register(u)
            elif isinstance(st, ast.ClassDef):
                c = _Class(f'{m.name}.{st.name}', m.rel, st)
                m.classes[st.name] = c
                for s in st.body:
                    if isinstance(s, ast.FunctionDef):
                        kind = 'init' if s.name in ('__init__', '__post_init__') else 'method'
                        u = _Unit(f'{c.qname}.{s.name}', m.rel, s, cls=c, kind=kind)
                        c.methods[s.name] = u
                        self._register(u)
                    elif isinstance(s, ast.AnnAssign) and isinstance(s.target, ast.Name):
                        c.fields.append(s.target.id)
                        if s.value is not None:
                            c.field_defaults[s.target.id] = s.value
            elif isinstance(st, (ast.Assign, ast.AnnAssign)):
                tgt = st.targets[0] if isinstance(st, ast.Assign) else st.target
                val = st.value
                if isinstance(tgt, ast.Name) and val is not None:
                    if isinstance(val, ast.Dict):
                        m.tables[tgt.id] = val
                    if isinstance(val, (ast.Dict, ast.List, ast.Set)):
                        m.globals_mut.add(tgt.id)
                    if (isinstance(val, ast.Call) and isinstance(val.func, ast.Attribute) and val.func.attr == 'partial'
                            and isinstance(val.func.value, ast.Name) and val.func.value.id == 'functools'):
                        m.partials[tgt.id] = val
                    if isinstance(val, (ast.Name, ast.Attribute)):
                        m.imports.setdefault(tgt.id, ('alias', val))
        # lambdas of module-level tables are anonymous units
        for tname, d in m.tables.items():
            for k, v in zip(d.keys, d.values):
                if isinstance(v, ast.Lambda):
                    ks = _const_str(k) or '?'
                    u = _Unit(f'{m.name}.{tname}[{ks}]', m.rel, v, kind='lambda')
                    self._register(u)
                    v._unit = u

    def _register(self, u):
        self.units[u.qname] = u
        # nested function definitions
        body = u.node.body if isinstance(u.node.body, list) else []
        for st in body:
            for n in ast.walk(st) if not isinstance(st, ast.FunctionDef) else [st]:
                pass
        def walk(stmts):
            for st in stmts:
                if isinstance(st, ast.FunctionDef):
                    n = _Unit(f'{u.qname}.{st.name}', u.rel, st, cls=None, parent=u)
                    u.nested[st.name] = n
                    self._register(n)
                else:
                    for fld in ('body', 'orelse', 'finalbody', 'handlers'):
                        sub = getattr(st, fld, None)
                        if isinstance(sub, list):
                            walk([s for s in sub if isinstance(s, ast.stmt)] +
                                 [b for h in sub if isinstance(h, ast.ExceptHandler) for b in h.body])
        walk(body)

    def _partials(self, m):
        for name, call in m.partials.items():
            tgt = self._resolve_name_expr(m, None, call.args[0]) if call.args else []
            tgt = [t for t in tgt if t[0] == 'unit']
            if len(tgt) != 1:
                raise ExtractError(f'{m.rel}:{call.lineno}: functools.partial target of {name} cannot be resolved')
            base = tgt[0][1]
            u = _Unit(f'{m.name}.{name}', base.rel, base.node, cls=base.cls, kind=base.kind,
                      overrides={k.arg: k.value for k in call.keywords if k.arg})
            u.over_ctx = m
            u.partial_of = base.qname
            for k in call.keywords:
                if k.arg and isinstance(k.value, ast.Lambda):        # partial(f, cb=lambda …): the lambda is a unit of this module
                    lu = _Unit(f'{m.name}.{name}[{k.arg}]', m.rel, k.value, kind='lambda')
                    self._register(lu)
                    k.value._unit = lu
            m.funcs[name] = u
            self.units[u.qname] = u
            # nested units of the specialised copy share the base's nested definitions
            u.nested = base.nested

    # ------------------------------------------------------------------ name resolution
    def _resolve_name_expr(self, m: _Module, unit, e):
        """callable expression -> list of ('unit', Unit) | ('class', Class) | ('external', mod, name) | ('unknown', text)"""
        if isinstance(e, ast.Name):
            u = unit
            while u is not None:
                if e.id in u.nested:
                    return [('unit', u.nested[e.id])]
                u = u.parent
            if e.id in m.funcs:
                return [('unit', m.funcs[e.id])]
            if e.id in m.classes:
                return [('class', m.classes[e.id])]
            imp = m.imports.get(e.id)
            if imp:
                if imp[0] == 'symbol':
                    mm = self.mods[imp[1]]
                    return self._resolve_name_expr(mm, None, ast.Name(id=imp[2]))
                if imp[0] == 'external':
                    return [('external', imp[1], imp[2] or e.id)]
                if imp[0] == 'alias':
                    return self._resolve_name_expr(m, None, imp[1])
                if imp[0] == 'repo-other':
                    return [('unknown', f'{imp[1]}:{imp[2]}')]
            if e.id in PURE_BUILTINS:
                return [('builtin', e.id)]
            return [('unknown', e.id)]
        if isinstance(e, ast.Attribute):
            # module.attr
            if isinstance(e.value, ast.Name):
                imp = m.imports.get(e.value.id)
                if imp and imp[0] == 'module' and not self._is_local(unit, e.value.id):
                    mm = self.mods[imp[1]]
                    return self._resolve_name_expr(mm, None, ast.Name(id=e.attr))
                if imp and imp[0] == 'external' and not self._is_local(unit, e.value.id):
                    return [('external', imp[1], e.attr)]
            if isinstance(e.value, ast.Attribute) and isinstance(e.value.value, ast.Name):
                imp = m.imports.get(e.value.value.id)
                if imp and imp[0] == 'external' and not self._is_local(unit, e.value.value.id):
                    return [('external', imp[1], e.attr)]
            return [('unknown', ast.unparse(e))]
        return [('unknown', ast.unparse(e))]

    def _is_local(self, unit, name):
        u = unit
        while u is not None:
            if name in self._locals(u):
                return True
            u = u.parent
        return False

    def _locals(self, u):
        if u.locals is None:
            names = set(u.all_params())
            body = u.node.body if isinstance(u.node.body, list) else [ast.Expr(u.node.body)]
            for st in body:
                for n in ast.walk(st):
                    if isinstance(n, ast.Name) and isinstance(n.ctx, (ast.Store, ast.Del)):
                        names.add(n.id)
                    elif isinstance(n, ast.FunctionDef):
                        names.add(n.name)
                    elif isinstance(n, ast.ExceptHandler) and n.name:
                        names.add(n.name)
            u.locals = names
        return u.locals

    # ------------------------------------------------------------------ aliases of an expression
    def _name_aliases(self, u, name, lam):
        if name in lam:
            return lam[name]
        v = u
        while v is not None:
            if name in self._locals(v):
                return set(v.env.get(name, set()))
            v = v.parent
        m = self.mods[u.rel]
        if name in m.globals_mut:
            return {(('global', f'{m.name}.{name}'), 'same')}
        imp = m.imports.get(name)
        if imp and imp[0] == 'symbol' and imp[2] in self.mods[imp[1]].globals_mut:
            return {(('global', f'{self.mods[imp[1]].name}.{imp[2]}'), 'same')}
        return set()

    def _aliases(self, u, e, lam):
        A = lambda x: self._aliases(u, x, lam)
        if e is None:
            return set()
        if isinstance(e, ast.Name):
            return self._name_aliases(u, e.id, lam)
        if isinstance(e, ast.Attribute):
            if isinstance(e.value, ast.Name) and not self._is_local(u, e.value.id) and e.value.id not in lam:
                m = self.mods[u.rel]
                imp = m.imports.get(e.value.id)
                if imp and imp[0] == 'module' and e.attr in self.mods[imp[1]].globals_mut:
                    return {(('global', f'{self.mods[imp[1]].name}.{e.attr}'), 'same')}
            return {(r, 'deep') for r, _ in A(e.value)}
        if isinstance(e, ast.Subscript):
            return {(r, 'deep') for r, _ in A(e.value)} | set()
        if isinstance(e, ast.Starred):
            return A(e.value)
        if isinstance(e, (ast.List, ast.Tuple, ast.Set)):
            return {(r, 'shallow') for x in e.elts for r, _ in A(x)}
        if isinstance(e, ast.Dict):
            out = set()
            for k, v in zip(e.keys, e.values):
                out |= {(r, 'shallow') for r, _ in A(v)}
                if k is not None:
                    out |= {(r, 'shallow') for r, _ in A(k)}
            return out
        if isinstance(e, (ast.ListComp, ast.SetComp, ast.GeneratorExp, ast.DictComp)):
            lam2 = dict(lam)
            for g in e.generators:
                it = self._aliases(u, g.iter, lam2)
                for n in ast.walk(g.target):
                    if isinstance(n, ast.Name):
                        lam2[n.id] = {(r, 'deep') for r, _ in it}
            elts = [e.key, e.value] if isinstance(e, ast.DictComp) else [e.elt]
            return {(r, 'shallow') for x in elts for r, _ in self._aliases(u, x, lam2)}
        if isinstance(e, ast.IfExp):
            return A(e.body) | A(e.orelse)
        if isinstance(e, ast.BoolOp):
            return set().union(*[A(v) for v in e.values])
        if isinstance(e, ast.BinOp):
            return {(r, 'shallow') for x in (e.left, e.right) for r, _ in A(x)}
        if isinstance(e, ast.NamedExpr):
            return A(e.value)
        if isinstance(e, ast.Call):
            return self._call(u, e, lam, want_alias=True)
        if isinstance(e, ast.Lambda):
            return set()
        return set()

    # ------------------------------------------------------------------ writes
    def _write(self, u, aliases, how):
        """how = 'top' (the object itself is mutated) | 'deep' (something inside it)"""
        for r, lvl in aliases:
            if how == 'deep' or lvl == 'deep':
                self._record(u, r, 'deep')
            elif lvl == 'same':
                self._record(u, r, 'top')

    def _record(self, u, root, kind):
        v = u
        while v is not None:
            s = v.top if kind == 'top' else v.deep
            if root not in s:
                s.add(root); self.changed = True
            v = v.parent

    # ------------------------------------------------------------------ calls
    def _callable_param_target(self, u, name):
        """a call through a parameter (or dataclass field): resolve to the override / default"""
        v = u
        while v is not None:
            if name in v.all_params():
                if name in v.overrides:
                    if isinstance(v.overrides[name], ast.Lambda) and hasattr(v.overrides[name], '_unit'):
                        return [('unit', v.overrides[name]._unit)], 'partial'
                    return self._resolve_name_expr(v.over_ctx, None, v.overrides[name]), 'partial'
                if name in v.defaults:
                    return self._resolve_name_expr(self.mods[v.rel], v.parent, v.defaults[name]), 'default'
                return None, None
            if name in self._locals(v):
                return None, None
            v = v.parent
        return None, None

    def _is_param(self, u, name):
        v = u
        while v is not None:
            if name in v.all_params():
                return True
            if name in self._locals(v):
                return False
            v = v.parent
        return False

    def _field_default_target(self, cls, attr):
        c = cls
        seen = set()
        while c is not None and c.qname not in seen:
            seen.add(c.qname)
            if attr in c.methods:
                return [('unit', c.methods[attr])]
            d = c.field_defaults.get(attr)
            if d is not None:
                if isinstance(d, ast.Call) and isinstance(d.func, ast.Name) and d.func.id == 'field':
                    kw = {k.arg: k.value for k in d.keywords}
                    d = kw.get('default')
                if d is not None:
                    return self._resolve_name_expr(self.mods[c.rel], None, d)
            nxt = None
            for b in c.bases:
                r = self._resolve_name_expr(self.mods[c.rel], None, ast.Name(id=b))
                if r and r[0][0] == 'class':
                    nxt = r[0][1]; break
            c = nxt
        return None

    def _methods_named(self, name):
        out = []
        for m in self.mods.values():
            for c in m.classes.values():
                if name in c.methods:
                    out.append(c.methods[name])
        return out

    def _local_callable_targets(self, u, name):
        """a local variable bound to an entry of a module-level table (or to a resolvable callable)"""
        out = []
        v = u
        while v is not None:
            if name in self._locals(v):
                body = v.node.body if isinstance(v.node.body, list) else []
                for st in body:
                    for n in ast.walk(st):
                        if isinstance(n, ast.Assign) and any(isinstance(t, ast.Name) and t.id == name for t in n.targets):
                            out.append(n.value)
                return out
            v = v.parent
        return out

    def _table_values(self, u, e):
        """`table[k]` / `table.get(k, d)` on a module-level dictionary literal -> its value expressions"""
        m = self.mods[u.rel]
        t = None
        if isinstance(e, ast.Subscript):
            t = e.value
        elif isinstance(e, ast.Call) and isinstance(e.func, ast.Attribute) and e.func.attr == 'get':
            t = e.func.value
        if t is None:
            return None
        if isinstance(t, ast.Name) and not self._is_local(u, t.id):
            if t.id in m.tables:
                return m, list(m.tables[t.id].values)
            imp = m.imports.get(t.id)
            if imp and imp[0] == 'symbol' and imp[2] in self.mods[imp[1]].tables:
                mm = self.mods[imp[1]]
                return mm, list(mm.tables[imp[2]].values)
        if isinstance(t, ast.Attribute) and isinstance(t.value, ast.Name):
            imp = m.imports.get(t.value.id)
            if imp and imp[0] == 'module' and t.attr in self.mods[imp[1]].tables:
                mm = self.mods[imp[1]]
                return mm, list(mm.tables[t.attr].values)
        return None

    def _targets(self, u, f, lam):
        """callee expression -> (list of targets, self-aliases or None)"""
        m = self.mods[u.rel]
        # table[k](…)
        tv = self._table_values(u, f)
        if tv is not None:
            mm, vals = tv
            out = []
            for v in vals:
                if isinstance(v, ast.Lambda):
                    out.append(('unit', v._unit))
                else:
                    out += self._resolve_name_expr(mm, None, v)
            return out, None
        if isinstance(f, ast.Name):
            if f.id in lam:
                return [('unknown', f.id)], None
            if self._is_local(u, f.id):
                # nested def?
                r = self._resolve_name_expr(m, u, f)
                if r and r[0][0] == 'unit' and r[0][1].parent is not None:
                    return r, None
                tg, why = self._callable_param_target(u, f.id)
                if tg is not None:
                    u.assumed.add((f.id, why, ','.join(t[1].qname if t[0] in ('unit', 'class') else str(t[1:]) for t in tg)))
                    return tg, None
                if self._is_param(u, f.id):
                    u.assumed.add((f.id, 'no default', 'caller-supplied callable, assumed not to write its arguments'))
                    return [('caller-supplied', f.id)], None
                out = []
                for v in self._local_callable_targets(u, f.id):
                    tv = self._table_values(u, v)
                    if isinstance(v, ast.Lambda):
                        out.append(('inline-lambda', v))
                    elif tv is not None:
                        mm, vals = tv
                        for x in vals:
                            out += [('unit', x._unit)] if isinstance(x, ast.Lambda) else self._resolve_name_expr(mm, None, x)
                    elif isinstance(v, ast.Constant) and v.value is None:
                        pass
                    else:
                        out += self._resolve_name_expr(m, u, v) if isinstance(v, (ast.Name, ast.Attribute)) else [('unknown', f.id)]
                return (out or [('unknown', f.id)]), None
            return self._resolve_name_expr(m, u, f), None
        if isinstance(f, ast.Attribute):
            # self.attr(…)
            if isinstance(f.value, ast.Name) and f.value.id == 'self' and u.cls is not None:
                tg = self._field_default_target(u.cls, f.attr)
                if tg is not None:
                    if not (tg[0][0] == 'unit' and tg[0][1].cls is not None):
                        u.assumed.add((f'self.{f.attr}', 'field default', ','.join(t[1].qname if t[0] in ('unit', 'class') else str(t[1:]) for t in tg)))
                        return tg, None
                    return tg, self._aliases(u, f.value, lam)
            r = self._resolve_name_expr(m, u, f)
            if r and r[0][0] != 'unknown':
                return r, None
            obj = self._aliases(u, f.value, lam)
            if f.attr in MUTATORS:
                return [('mutator', f.attr)], obj
            if f.attr in PURE_METHODS:
                return [('puremethod', f.attr)], obj
            ms = self._methods_named(f.attr)
            if ms:
                return [('unit', x) for x in ms], obj
            return [('unknown', ast.unparse(f))], obj
        if isinstance(f, ast.Lambda):
            return [('inline-lambda', f)], None
        if isinstance(f, ast.Subscript) and self._aliases(u, f, lam):
            u.assumed.add((ast.unparse(f), 'element of an argument', 'caller-supplied callable, assumed not to write its arguments'))
            return [('caller-supplied', ast.unparse(f))], None
        return [('unknown', ast.unparse(f))], None

    def _bind(self, callee: _Unit, call: ast.Call, u, lam, self_aliases):
        """parameter -> alias set of the argument bound to it"""
        A = lambda x: self._aliases(u, x, lam)
        params = list(callee.params)
        bound = {p: set() for p in callee.all_params()}
        pos = list(params)
        if callee.cls is not None and pos and pos[0] in ('self', '_', 'cls') and callee.kind in ('method', 'init'):
            if self_aliases is not None:
                bound[pos[0]] |= self_aliases
            pos = pos[1:]
        i = 0
        for a in call.args:
            if isinstance(a, ast.Starred):
                el = {(r, 'deep') for r, _ in A(a.value)}
                for p in pos[i:]:
                    bound[p] |= el
                if callee.vararg:
                    bound[callee.vararg] |= {(r, 'shallow') for r, _ in A(a.value)}
                i = len(pos)
            elif i < len(pos):
                bound[pos[i]] |= A(a); i += 1
            elif callee.vararg:
                bound[callee.vararg] |= {(r, 'shallow') for r, _ in A(a)}
                bound.setdefault('*elements', set()).update(A(a))
        for k in call.keywords:
            if k.arg is None:
                el = {(r, 'deep') for r, _ in A(k.value)}
                for p in params:
                    bound[p] |= el
                if callee.kwarg:
                    bound[callee.kwarg] |= {(r, 'shallow') for r, _ in A(k.value)}
            elif k.arg in bound and k.arg not in (callee.vararg, callee.kwarg):
                bound[k.arg] |= A(k.value)
            elif callee.kwarg:
                bound[callee.kwarg] |= {(r, 'shallow') for r, _ in A(k.value)}
                bound.setdefault('**elements', set()).update(A(k.value))
        return bound

    def _apply_summary(self, u, callee, bound):
        ret = set()
        for root in list(callee.top) + list(callee.deep):
            if root[0] == 'global':
                self._record(u, root, 'top' if root in callee.top else 'deep')
        for p in callee.all_params():
            root = (callee.qname if not hasattr(callee, 'partial_of') else callee.qname, p)
            al = bound.get(p, set())
            if root in callee.top:
                self._write(u, al, 'top')
            if root in callee.deep:
                self._write(u, al, 'deep')
                if p == callee.kwarg:
                    self._write(u, bound.get('**elements', set()), 'top'); self._write(u, bound.get('**elements', set()), 'deep')
                if p == callee.vararg:
                    self._write(u, bound.get('*elements', set()), 'top'); self._write(u, bound.get('*elements', set()), 'deep')
        for (root, lr) in callee.ret:
            if root[0] == 'global':
                ret.add((root, lr))
            elif root[0] == callee.qname:
                for r, la in bound.get(root[1], set()):
                    ret.add((r, _lv_combine(la, lr)))
        return ret

    def _call(self, u, call: ast.Call, lam, want_alias=False):
        A = lambda x: self._aliases(u, x, lam)
        targets, self_al = self._targets(u, call.func, lam)
        all_args = [a.value if isinstance(a, ast.Starred) else a for a in call.args] + [k.value for k in call.keywords]
        arg_aliases = set().union(*[A(a) for a in all_args]) if all_args else set()
        result = set()
        for t in targets:
            kind = t[0]
            if kind == 'unit':
                callee = t[1]
                bound = self._bind(callee, call, u, lam, self_al)
                result |= self._apply_summary(u, callee, bound)
            elif kind == 'class':
                c = t[1]
                init = c.methods.get('__post_init__') or c.methods.get('__init__')
                if init is not None:
                    bound = {p: set() for p in init.all_params()}
                    bound[init.params[0]] = {(r, 'shallow') for r, _ in arg_aliases}
                    if init.node.name == '__init__':
                        bound = self._bind(init, call, u, lam, {(r, 'shallow') for r, _ in arg_aliases})
                    self._apply_summary(u, init, bound)
                result |= {(r, 'shallow') for r, _ in arg_aliases}
            elif kind == 'mutator':
                self._write(u, self_al or set(), 'top')
                if t[1] in DEREF_METHODS:
                    result |= {(r, 'deep') for r, _ in (self_al or set())}
            elif kind == 'puremethod':
                if t[1] in SHALLOW_METHODS:
                    result |= {(r, 'shallow') for r, _ in (self_al or set())}
                elif t[1] in DEREF_METHODS:
                    result |= {(r, 'deep') for r, _ in (self_al or set())}
            elif kind == 'builtin':
                if t[1] in SHALLOW_BUILTINS:
                    result |= {(r, 'shallow') for r, _ in arg_aliases}
                elif t[1] in ('getattr', 'next'):
                    result |= {(r, 'deep') for r, _ in arg_aliases}
            elif kind == 'external':
                mod, name = t[1], t[2]
                if mod in PURE_EXTERNAL_MODULES and (name not in IMPURE_EXTERNAL or (mod, name) in IMPURE_EXTERNAL_OK):
                    if (mod, name) == ('functools', 'partial'):
                        result |= {(r, 'shallow') for r, _ in arg_aliases}
                    elif mod == 'numpy' and name in VIEW_EXTERNAL:
                        result |= set(arg_aliases)          # may return its argument itself / a view of it: writes go through
                else:
                    if arg_aliases:
                        u.unknown.add(f'{mod}.{name}')
                        self._write(u, arg_aliases, 'top'); self._write(u, arg_aliases, 'deep')
            elif kind in ('inline-lambda', 'caller-supplied'):
                pass
            else:
                al = arg_aliases | (self_al or set())
                if al:
                    u.unknown.add(str(t[1]))
                    self._write(u, al, 'top'); self._write(u, al, 'deep')
                    result |= {(r, 'deep') for r, _ in al}
        return result

    # ------------------------------------------------------------------ statements
    def _assign_target(self, u, tgt, val_aliases, lam, elementwise=False):
        if isinstance(tgt, ast.Name):
            al = {(r, 'deep') for r, _ in val_aliases} if elementwise else val_aliases
            cur = u.env.setdefault(tgt.id, set())
            if not al <= cur:
                cur |= al; self.changed = True
        elif isinstance(tgt, (ast.Tuple, ast.List)):
            for t in tgt.elts:
                self._assign_target(u, t.value if isinstance(t, ast.Starred) else t, val_aliases, lam, elementwise=True)
        elif isinstance(tgt, (ast.Subscript, ast.Attribute)):
            self._write(u, self._aliases(u, tgt.value, lam), 'top')

    def _expr_effects(self, u, e, lam):
        """evaluate every call inside an expression (for its writes)"""
        if e is None:
            return
        for n in self._walk_expr(e):
            if isinstance(n, ast.Call):
                self._call(u, n, self._lam_for(u, e, n, lam))
            elif isinstance(n, ast.NamedExpr) and isinstance(n.target, ast.Name):
                self._assign_target(u, n.target, self._aliases(u, n.value, lam), lam)

    def _walk_expr(self, e):
        return list(ast.walk(e))

    def _lam_for(self, u, root, node, lam):
        """bindings of comprehension / lambda variables that enclose `node` inside `root`"""
        path = self._path(root, node)
        lam2 = dict(lam)
        for p in path or []:
            if isinstance(p, (ast.ListComp, ast.SetComp, ast.GeneratorExp, ast.DictComp)):
                for g in p.generators:
                    it = self._aliases(u, g.iter, lam2)
                    for n in ast.walk(g.target):
                        if isinstance(n, ast.Name):
                            lam2[n.id] = {(r, 'deep') for r, _ in it}
            elif isinstance(p, ast.Lambda):
                for a in p.args.posonlyargs + p.args.args + p.args.kwonlyargs + [x for x in (p.args.vararg, p.args.kwarg) if x]:
                    lam2[a.arg] = set()
        return lam2

    def _path(self, root, node):
        if root is node:
            return [root]
        for ch in ast.iter_child_nodes(root):
            p = self._path(ch, node)
            if p is not None:
                return [root] + p
        return None

    def _stmts(self, u, stmts, lam):
        for st in stmts:
            if isinstance(st, ast.FunctionDef):
                continue                                      # analysed as its own unit; its outer writes propagate via _record
            if isinstance(st, ast.Assign):
                reb = [p for p, s_ in getattr(u, 'rebound', {}).items() if s_ is st]
                lam_rhs = lam
                if reb:
                    lam_rhs = dict(lam); lam_rhs[reb[0]] = {((u.qname, reb[0]), 'same')}
                self._expr_effects(u, st.value, lam_rhs)
                al = self._aliases(u, st.value, lam_rhs)
                for t in st.targets:
                    self._expr_effects(u, t, lam) if not isinstance(t, ast.Name) else None
                    self._assign_target(u, t, al, lam)
            elif isinstance(st, ast.AnnAssign):
                self._expr_effects(u, st.value, lam)
                if st.value is not None:
                    self._assign_target(u, st.target, self._aliases(u, st.value, lam), lam)
            elif isinstance(st, ast.AugAssign):
                self._expr_effects(u, st.value, lam)
                if isinstance(st.target, ast.Name):
                    self._write(u, self._aliases(u, st.target, lam), 'top')      # x += … mutates a list/array in place
                    self._assign_target(u, st.target, self._aliases(u, st.value, lam), lam)
                else:
                    self._write(u, self._aliases(u, st.target.value, lam), 'top')
            elif isinstance(st, ast.Delete):
                for t in st.targets:
                    if isinstance(t, (ast.Subscript, ast.Attribute)):
                        self._write(u, self._aliases(u, t.value, lam), 'top')
            elif isinstance(st, ast.Return):
                self._expr_effects(u, st.value, lam)
                for r, lvl in self._aliases(u, st.value, lam):
                    if (r, lvl) not in u.ret:
                        u.ret.add((r, lvl)); self.changed = True
            elif isinstance(st, ast.Expr):
                self._expr_effects(u, st.value, lam)
            elif isinstance(st, (ast.For, ast.AsyncFor)):
                self._expr_effects(u, st.iter, lam)
                self._assign_target(u, st.target, self._aliases(u, st.iter, lam), lam, elementwise=True)
                self._stmts(u, st.body, lam); self._stmts(u, st.orelse, lam)
            elif isinstance(st, ast.While):
                self._expr_effects(u, st.test, lam)
                self._stmts(u, st.body, lam); self._stmts(u, st.orelse, lam)
            elif isinstance(st, ast.If):
                self._expr_effects(u, st.test, lam)
                self._stmts(u, st.body, lam); self._stmts(u, st.orelse, lam)
            elif isinstance(st, (ast.With, ast.AsyncWith)):
                for it in st.items:
                    self._expr_effects(u, it.context_expr, lam)
                    if it.optional_vars is not None:
                        self._assign_target(u, it.optional_vars, self._aliases(u, it.context_expr, lam), lam)
                self._stmts(u, st.body, lam)
            elif isinstance(st, ast.Try):
                self._stmts(u, st.body, lam)
                for h in st.handlers:
                    self._stmts(u, h.body, lam)
                self._stmts(u, st.orelse, lam); self._stmts(u, st.finalbody, lam)
            elif isinstance(st, ast.Raise):
                self._expr_effects(u, st.exc, lam)
            elif isinstance(st, (ast.Global, ast.Nonlocal)):
                for n in st.names:
                    m = self.mods[u.rel]
                    u.env.setdefault(n, set()).add((('global', f'{m.name}.{n}'), 'same'))
                    self._record(u, ('global', f'{m.name}.{n}'), 'top')
            elif isinstance(st, (ast.Pass, ast.Break, ast.Continue, ast.Import, ast.ImportFrom, ast.Assert)):
                if isinstance(st, ast.Assert):
                    self._expr_effects(u, st.test, lam)
            else:
                raise ExtractError(f'{u.rel}:{st.lineno}: statement {type(st).__name__} is outside the effect grammar')

    def _rebound_params(self, u):
        """parameters whose first mention in the body is a top-level `p = <expr>`: after that statement the
        name no longer denotes the caller's object (strong update for the idiom `p = p.copy()`)"""
        out = {}
        if not isinstance(u.node.body, list):
            return out
        for p in u.params:
            for st in u.node.body:
                names = [n for n in ast.walk(st) if isinstance(n, ast.Name) and n.id == p]
                if not names:
                    continue
                if (isinstance(st, ast.Assign) and len(st.targets) == 1 and isinstance(st.targets[0], ast.Name)
                        and st.targets[0].id == p and not any(isinstance(x, (ast.FunctionDef, ast.Lambda)) for x in ast.walk(st))):
                    # no nested function may capture the parameter before the re-binding
                    out[p] = st
                break
        # a nested function that mentions the name could see either binding: be conservative
        for p in list(out):
            for n in u.nested.values():
                if any(isinstance(x, ast.Name) and x.id == p for x in ast.walk(n.node)):
                    out.pop(p, None); break
        return out

    def _analyse_unit(self, u):
        if not hasattr(u, 'rebound'):
            u.rebound = self._rebound_params(u)
        for p in u.params:
            if p in u.rebound:
                continue
            u.env.setdefault(p, set()).add(((u.qname, p), 'same'))
        if u.kind == 'init' and u.params:
            u.env[u.params[0]] = {((u.qname, u.params[0]), 'shallow')}       # the object under construction
        for p in (u.vararg, u.kwarg):
            if p:
                u.env.setdefault(p, set()).add(((u.qname, p), 'shallow'))   # fresh container of the caller's objects
        if isinstance(u.node, ast.Lambda):
            self._expr_effects(u, u.node.body, {})
            for r, lvl in self._aliases(u, u.node.body, {}):
                if (r, lvl) not in u.ret:
                    u.ret.add((r, lvl)); self.changed = True
        else:
            self._stmts(u, u.node.body, {})

    def run(self):
        for it in range(40):
            self.changed = False
            for u in self.units.values():
                self._analyse_unit(u)
            if not self.changed:
                break
        else:
            raise ExtractError('effect analysis did not reach a fixed point')
        return self

    # ------------------------------------------------------------------ result
    def written_roots(self, u):
        out = []
        for p in u.all_params():
            if (u.qname, p) in u.top or (u.qname, p) in u.deep:
                out.append(p)
        return out

    def written_globals(self, u):
        return sorted({r[1] for r in (u.top | u.deep) if r[0] == 'global'})

    def mutable_defaults(self, u):
        out = []
        for p, d in u.defaults.items():
            if isinstance(d, (ast.List, ast.Dict, ast.Set, ast.ListComp, ast.DictComp, ast.SetComp)):
                out.append(p)
            elif isinstance(d, ast.Call):
                out.append(p)          # e.g. np.array([0]): evaluated once at definition time
        return out

def effects_table(src: Path):
    ea = EffectAnalysis(src).run()
    scope_rows, support_rows, defaults, unknown, assumed, globs = [], [], [], [], [], []
    scope_mods = {m[:-3].replace('/', '.') for m in EFFECT_SCOPE}
    for q, u in ea.units.items():
        modname = u.rel[:-3].replace('/', '.') if not hasattr(u, 'partial_of') else q.rsplit('.', 1)[0]
        (scope_rows if modname in scope_mods else support_rows).append((q, ea.written_roots(u)))
        g = ea.written_globals(u)
        if g:
            globs.append((q, g))
        for x in sorted(u.unknown):
            unknown.append((q, x))
        for x in sorted(u.assumed):
            assumed.append((q, f'{x[0]} -> {x[2]} ({x[1]})'))
    names = [q for q, _ in scope_rows + support_rows]
    if len(set(names)) != len(names):
        raise ExtractError('effect summary: function names are not unique')
    for q, u in ea.units.items():
        md = ea.mutable_defaults(u)
        if md and not hasattr(u, 'partial_of'):
            defaults.append((names.index(q), q, md))
    return scope_rows, support_rows, defaults, unknown, assumed, globs

@generator('Effects.lean')
def gen_effects(src: Path) -> str:
    scope_rows, support_rows, defaults, unknown, assumed, globs = effects_table(src)
    def pairs(t):
        return '[\n' + ',\n'.join(f'  ({lean_str(a)}, {_lean_list(lean_str(x) for x in b)})' for a, b in t) + '\n]'
    L = []
    L.append('/- GENERATED by harness/extract_load.py (effect summary, DESIGN.md Appendix A) — do not edit.')
    L.append('   function ↦ parameters that may be written (the object bound to the parameter or anything')
    L.append('   reachable from it).  Function names are unique (checked by the generator). -/')
    L.append('namespace CC.Gen.Effects')
    L.append('')
    L.append('/-- every function (method, nested function, table lambda, functools.partial binding) of the modules')
    L.append('    C20 is anchored in: ' + ', '.join(EFFECT_SCOPE) + ' -/')
    L.append('def scopeRows : List (String × List String) := ' + pairs(scope_rows))
    L.append('')
    L.append('/-- the modules they call into: ' + ', '.join(EFFECT_SUPPORT) + ' -/')
    L.append('def supportRows : List (String × List String) := ' + pairs(support_rows))
    L.append('')
    L.append('def effects : List (String × List String) := scopeRows ++ supportRows')
    L.append('def inScope : List String := scopeRows.map (·.1)')
    L.append('')
    L.append('/-- module-level mutable objects (dispatch tables, codec tables) a function may write -/')
    L.append('def globalWrites : List (String × List String) := ' + pairs(globs))
    L.append('')
    L.append('/-- (index of the row in `effects`, function, parameters whose default value is a mutable object')
    L.append('    created once at definition time) -/')
    L.append('def mutableDefaults : List (Nat × String × List String) := [\n' +
             ',\n'.join(f'  ({i}, {lean_str(q)}, {_lean_list(lean_str(x) for x in ps)})' for i, q, ps in defaults) + '\n]')
    L.append('')
    L.append('/-- callees outside the analysed modules and outside the allow-list that receive an aliased argument')
    L.append('    (classified "may write its arguments") -/')
    L.append('def unknownCalls : List (String × String) := [' + ', '.join(f'({lean_str(a)}, {lean_str(b)})' for a, b in unknown) + ']')
    L.append('')
    deco = []
    for rel in EFFECT_SCOPE + EFFECT_SUPPORT:
        deco += _decorations(rel, parse(src, rel))
    L.append('/-- functions / classes of the analysed modules with a decorator outside {property, abstractmethod, staticmethod,')
    L.append('    classmethod, dataclass}, or re-bound at module level: the summary describes the function body, a wrapper may keep')
    L.append('    state of its own (functools.lru_cache does) -/')
    L.append('def unknownDecorators : List (String × String) := [' + ', '.join(f'({lean_str(a)}, {lean_str(b)})' for a, b in deco) + ']')
    L.append('')
    L.append('/-- calls through a callable parameter / dataclass field, resolved to its default or functools.partial binding;')
    L.append('    callables supplied by the caller are assumed not to write their arguments -/')
    L.append('def assumedCallables : List (String × String) := [\n' + ',\n'.join(f'  ({lean_str(a)}, {lean_str(b)})' for a, b in assumed) + '\n]')
    L.append('')
    L.append('end CC.Gen.Effects')
    return '\n'.join(L) + '\n'
