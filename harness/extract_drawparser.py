"""
extract_drawparser.py — translator of SimpleCircuit/DiagramParser.py (group Draw, C13):
every method of `SchematicDiagramParser` is translated *statement by statement* into a Lean
definition over the combinators of CC/Model/PyLib.lean → lean/CC/Gen/DrawParser.lean.
CC/Properties/C13Gen.lean proves each generated function equal to the hand-written model
(CC/Model/Draw.lean), so a change of a parser line changes the generated term and breaks an
equality theorem.

Grammar (anything else raises ExtractError):
  statements   x = e | a, b = elm.get_nodes(e) | x += e | s.add(e) | s.remove(e) | d.update({k: v})
               | for x in e: … | while c: … | if c: … [elif …] [else: …] | return e | raise Exc
  expressions  names, ints, strings, `self.<property>`, `self._get_equal_electrical_potential_nodes(e)`,
               `self._get_node_index(e)`, `elm.round_node(e.absanchors['start'|'end'])`, `elm.get_nodes(e)[i]`,
               set / list / dict comprehensions, `set([e])`, `a.union(b)`, `a.intersection(b)`, `s.pop()`,
               `len(e)`, `str(e)`, `list(e)`, `e[0]`, `d[k]`, `d.keys()`, `d.values()`, `e.attr`,
               `type(e) is elm.C`, `isinstance(e, elm.C)`, `has_name_property(e)`, + and the six comparisons,
               `in` / `not in`, `and` / `or` / `not`
Set iteration order: iterating `self.all_nodes` uses `ord.all`, iterating `self.unique_nodes` (also
`list(self.unique_nodes)`) uses `ord.uniq`; other sets are iterated in list order.  `while` loops get the fuel
named in FUEL (a modelling artefact; CC/Proofs shows it suffices).
"""
from __future__ import annotations
import ast
from pathlib import Path
import extract
from extract import ExtractError, lean_str

REL = 'SimpleCircuit/DiagramParser.py'

def _err(node, msg):
    raise ExtractError(f'{REL}:{getattr(node, "lineno", "?")}: {msg}')

# kind of each property / method of the parser: (lean term, kind, raises?)
SELF = {
    'all_elements': ('syms', 'symlist', False),
    'circuit_elements': ('(circuitElements syms)', 'symlist', False),
    'line_elements': ('(lineElements syms)', 'symlist', False),
    'node_elements': ('(nodeElements syms)', 'symlist', False),
    'all_nodes': ('(allNodes syms)', 'ptset', False),
    'unique_nodes': ('(uniqueNodes ord syms)', 'ptset', False),
    'unique_node_mapping': ('(uniqueNodeMapping ord syms)', 'dict_pt_pt', False),
    'node_label_mapping': ('(nodeLabelMapping ord syms)', 'dict_pt_str', True),
    'ground': ('(ground ord syms)', 'pt', True),
    'ground_label': ('(groundLabel ord syms)', 'str', True),
}
ITER_ORDER = {'all_nodes': 'ord.all', 'unique_nodes': 'ord.uniq'}
METHODS = {
    '_get_equal_electrical_potential_nodes': ('equalPotential syms', 'ptset', False),
    '_get_node_index': ('getNodeIndex ord syms', 'str', True),
}
# fuel of the while loops, by (method, index of the loop in the method)
FUEL = {
    ('_get_equal_electrical_potential_nodes', 0): 'closureBound (wiresOf syms)',
    ('node_label_mapping', 0): '((node_labels.map Prod.snd).length + 1)',
}
EXC = {'MultipleGroundNodes': 'Err.multipleGrounds', 'UnknownElement': 'Err.keyError', 'KeyError': 'Err.keyError'}
HAS_NAME_SRC = ("def has_name_property(e: schemdraw.elements.Element):\n    try:\n        _ = e.name\n"
                "    except AttributeError:\n        return False\n    return True")
SYM_ATTR = {'name': ('name', 'str'), 'node_id': ('nodeId', 'str')}
LEAN_TYPE = {'ptset': 'List Pt', 'ptlist': 'List Pt', 'symlist': 'List Sym', 'sym': 'Sym', 'pt': 'Pt', 'nat': 'Nat',
             'str': 'String', 'dict_pt_pt': 'List (Pt × Pt)', 'dict_pt_str': 'List (Pt × String)', 'bool': 'Bool'}

class Tr:
    def __init__(self, method: str, effectful: bool):
        self.method = method
        self.effectful = effectful
        self.nwhile = 0

    # ------------------------------------------------------------------ expressions
    def self_prop(self, n):
        return (isinstance(n, ast.Attribute) and isinstance(n.value, ast.Name) and n.value.id == 'self' and n.attr in SELF)

    def eff(self, text, raises, node):
        if not raises:
            return text
        if not self.effectful:
            _err(node, f'a raising expression in a method translated as pure: {ast.unparse(node)}')
        return f'(← {text})'

    def iter_of(self, n, env):
        """list a `for` / comprehension iterates over"""
        if self.self_prop(n) and n.attr in ITER_ORDER:
            return f'({ITER_ORDER[n.attr]} {SELF[n.attr][0]})', 'pt'
        t, k = self.ex(n, env)
        if k in ('ptset', 'ptlist'):
            return t, 'pt'
        if k == 'symlist':
            return t, 'sym'
        _err(n, f'cannot iterate over {ast.unparse(n)} ({k})')

    def cond(self, n, env) -> str:
        """a decidable proposition"""
        if isinstance(n, ast.Compare) and len(n.ops) == 1:
            op = n.ops[0]; a = n.left; b = n.comparators[0]
            if isinstance(op, (ast.In, ast.NotIn)):
                ta, _ = self.ex(a, env); tb, kb = self.ex(b, env)
                if kb not in ('ptset', 'ptlist', 'strlist'):
                    _err(n, f'membership in {kb}')
                return f'({ta} ∈ {tb})' if isinstance(op, ast.In) else f'({ta} ∉ {tb})'
            if isinstance(op, ast.Is):
                # type(e) is elm.Line
                if (isinstance(a, ast.Call) and isinstance(a.func, ast.Name) and a.func.id == 'type' and len(a.args) == 1
                        and isinstance(b, ast.Attribute) and isinstance(b.value, ast.Name) and b.value.id == 'elm'):
                    te, ke = self.ex(a.args[0], env)
                    if ke != 'sym': _err(n, 'type() of a non-symbol')
                    return f'({te}.cls = {lean_str(b.attr)})'
                _err(n, f'`is` outside the grammar: {ast.unparse(n)}')
            sym = {ast.Gt: '>', ast.GtE: '≥', ast.Lt: '<', ast.LtE: '≤', ast.Eq: '=', ast.NotEq: '≠'}.get(type(op))
            if sym is None: _err(n, f'comparison outside the grammar: {ast.unparse(n)}')
            ta, ka = self.ex(a, env); tb, kb = self.ex(b, env)
            if ka != kb or ka not in ('nat', 'str', 'pt'): _err(n, f'comparison of {ka} with {kb}')
            return f'({ta} {sym} {tb})'
        if isinstance(n, ast.BoolOp):
            j = ' ∧ ' if isinstance(n.op, ast.And) else ' ∨ '
            return '(' + j.join(self.cond(v, env) for v in n.values) + ')'
        if isinstance(n, ast.UnaryOp) and isinstance(n.op, ast.Not):
            return f'(¬ {self.cond(n.operand, env)})'
        if isinstance(n, ast.Call) and isinstance(n.func, ast.Name) and n.func.id == 'isinstance' and len(n.args) == 2:
            te, ke = self.ex(n.args[0], env); c = n.args[1]
            if ke != 'sym' or not (isinstance(c, ast.Attribute) and isinstance(c.value, ast.Name) and c.value.id == 'elm'):
                _err(n, 'isinstance outside the grammar')
            return f'(isA {te}.cls {lean_str(c.attr)} = true)'
        if isinstance(n, ast.Call) and isinstance(n.func, ast.Name) and n.func.id == 'has_name_property' and len(n.args) == 1:
            te, ke = self.ex(n.args[0], env)
            if ke != 'sym': _err(n, 'has_name_property of a non-symbol')
            return f'({te}.hasName = true)'
        _err(n, f'condition outside the grammar: {ast.unparse(n)}')

    def comp(self, gens, env):
        if len(gens) != 1 or gens[0].is_async or not isinstance(gens[0].target, ast.Name):
            _err(gens[0].iter, 'comprehension outside the grammar')
        g = gens[0]
        it, ek = self.iter_of(g.iter, env)
        v = g.target.id
        env2 = dict(env); env2[v] = ek
        src = it
        for c in g.ifs:
            src = f'({src}.filter (fun {v} => decide {self.cond(c, env2)}))'
        return src, v, env2, ek

    def ex(self, n, env):
        """(lean term, kind)"""
        if isinstance(n, ast.Name):
            if n.id not in env: _err(n, f'unknown name {n.id}')
            return n.id, env[n.id]
        if isinstance(n, ast.Constant):
            if isinstance(n.value, bool): _err(n, 'boolean literal')
            if isinstance(n.value, int) and n.value >= 0: return f'({n.value} : Nat)', 'nat'
            if isinstance(n.value, str): return lean_str(n.value), 'str'
            _err(n, f'constant {n.value!r}')
        if self.self_prop(n):
            t, k, raises = SELF[n.attr]
            return self.eff(t, raises, n), k
        if ast.unparse(n) == 'self.drawing.elements':
            return 'syms', 'symlist'
        if isinstance(n, ast.Attribute) and n.attr in SYM_ATTR:
            t, k = self.ex(n.value, env)
            if k != 'sym': _err(n, f'attribute of {k}')
            return f'{t}.{SYM_ATTR[n.attr][0]}', SYM_ATTR[n.attr][1]
        if isinstance(n, ast.BinOp) and isinstance(n.op, ast.Add):
            ta, ka = self.ex(n.left, env); tb, kb = self.ex(n.right, env)
            if ka != 'nat' or kb != 'nat': _err(n, 'addition of non-integers')
            return f'({ta} + {tb})', 'nat'
        if isinstance(n, (ast.SetComp, ast.ListComp)):
            src, v, env2, ek = self.comp(n.generators, env)
            te, ke = self.ex(n.elt, env2)
            if isinstance(n.elt, ast.Name) and n.elt.id == v:
                lst = src
            else:
                lst = f'({src}.map (fun {v} => {te}))'
            if isinstance(n, ast.SetComp):
                if ke != 'pt': _err(n, 'set of non-points')
                return f'(Py.setOf {lst})', 'ptset'
            return lst, {'pt': 'ptlist', 'sym': 'symlist'}.get(ke) or _err(n, f'list of {ke}')
        if isinstance(n, ast.Subscript):
            # elm.get_nodes(e)[i]
            if self.is_get_nodes(n.value) and isinstance(n.slice, ast.Constant) and n.slice.value in (0, 1):
                te, ke = self.ex(n.value.args[0], env)
                if ke != 'sym': _err(n, 'get_nodes of a non-symbol')
                return f'(Py.node{n.slice.value} {te})', 'pt'
            # elm.round_node(e.absanchors['start'])  is handled in Call; here: d[k], l[0]
            tv, kv = self.ex(n.value, env)
            if kv in ('dict_pt_pt', 'dict_pt_str'):
                tk, kk = self.ex(n.slice, env)
                if kk != 'pt': _err(n, 'dictionary key is not a point')
                return self.eff(f'Py.getItem {tv} {tk}', True, n), ('pt' if kv == 'dict_pt_pt' else 'str')
            if kv in ('ptlist', 'symlist') and isinstance(n.slice, ast.Constant) and n.slice.value == 0:
                return self.eff(f'Py.index0 {tv}', True, n), ('pt' if kv == 'ptlist' else 'sym')
            _err(n, f'subscript outside the grammar: {ast.unparse(n)}')
        if isinstance(n, ast.Call):
            f = n.func
            if isinstance(f, ast.Name):
                if f.id == 'len' and len(n.args) == 1:
                    t, k = self.ex(n.args[0], env)
                    return f'{t}.length', 'nat'
                if f.id == 'str' and len(n.args) == 1:
                    t, k = self.ex(n.args[0], env)
                    if k != 'nat': _err(n, 'str() of a non-integer')
                    return f'(toString {t})', 'str'
                if f.id == 'set' and len(n.args) == 1 and isinstance(n.args[0], ast.List):
                    es = [self.ex(e, env) for e in n.args[0].elts]
                    if len(es) != 1 or es[0][1] != 'pt': _err(n, 'set([...]) outside the grammar')
                    return f'[{es[0][0]}]', 'ptset'
                if f.id == 'list' and len(n.args) == 1:
                    a = n.args[0]
                    if self.self_prop(a) and a.attr in ITER_ORDER:
                        return f'({ITER_ORDER[a.attr]} {SELF[a.attr][0]})', 'ptlist'
                    t, k = self.ex(a, env)
                    if k == 'ptset': return t, 'ptlist'
                    _err(n, 'list() outside the grammar')
            if isinstance(f, ast.Attribute):
                # elm.round_node(e.absanchors['start'])
                if (isinstance(f.value, ast.Name) and f.value.id == 'elm' and f.attr == 'round_node' and len(n.args) == 1):
                    a = n.args[0]
                    if (isinstance(a, ast.Subscript) and isinstance(a.value, ast.Attribute) and a.value.attr == 'absanchors'
                            and isinstance(a.slice, ast.Constant) and a.slice.value in ('start', 'end')):
                        te, ke = self.ex(a.value.value, env)
                        if ke != 'sym': _err(n, 'anchor of a non-symbol')
                        return f'(Py.rounded{"Start" if a.slice.value == "start" else "End"} {te})', 'pt'
                    _err(n, 'round_node outside the grammar')
                if isinstance(f.value, ast.Name) and f.value.id == 'self' and f.attr in METHODS and len(n.args) == 1:
                    ta, ka = self.ex(n.args[0], env)
                    if ka != 'pt': _err(n, 'parser method applied to a non-point')
                    t, k, raises = METHODS[f.attr]
                    return self.eff(f'{t} {ta}', raises, n) if raises else f'({t} {ta})', k
                if f.attr in ('union', 'intersection') and len(n.args) == 1:
                    ta, ka = self.ex(f.value, env)
                    if ka != 'ptset': _err(n, f'{f.attr} of {ka}')
                    b = n.args[0]
                    if f.attr == 'union' and isinstance(b, ast.SetComp):
                        src, v, env2, ek = self.comp(b.generators, env)
                        te, ke = self.ex(b.elt, env2)
                        if ke != 'pt': _err(n, 'set of non-points')
                        return f'(Py.unionList {ta} ({src}.map (fun {v} => {te})))', 'ptset'
                    tb, kb = self.ex(b, env)
                    if kb != 'ptset': _err(n, f'{f.attr} with {kb}')
                    return f'(Py.{"union" if f.attr == "union" else "inter"} {ta} {tb})', 'ptset'
                if f.attr == 'pop' and not n.args:
                    ta, ka = self.ex(f.value, env)
                    if ka != 'ptset': _err(n, 'pop of a non-set')
                    return f'(Py.popD {ta})', 'pt'
                if f.attr in ('keys', 'values') and not n.args:
                    ta, ka = self.ex(f.value, env)
                    if ka == 'dict_pt_str':
                        return (f'({ta}.map Prod.fst)', 'ptlist') if f.attr == 'keys' else (f'({ta}.map Prod.snd)', 'strlist')
                    if ka == 'dict_pt_pt':
                        return f'({ta}.map Prod.{"fst" if f.attr == "keys" else "snd"})', 'ptlist'
                    _err(n, f'{f.attr}() of {ka}')
        if isinstance(n, ast.DictComp):
            src, v, env2, ek = self.comp(n.generators, env)
            # the key may raise (d[...]); the value may not
            save = self.effectful
            keyT = Tr(self.method, True)
            tk, kk = keyT.ex(n.key, env2)
            tv, kv = Tr(self.method, False).ex(n.value, env2)
            if kk != 'pt' or kv != 'str': _err(n, 'dictionary comprehension outside the grammar')
            if '(←' in tk:
                key = f'(fun {v} => do pure {tk})'
            else:
                key = f'(fun {v} => pure {tk})'
            return self.eff(f'Py.dictCompM {src} {key} (fun {v} => {tv})', True, n), 'dict_pt_str'
        if isinstance(n, ast.Dict) and not n.keys:
            return '([] : List (Pt × Pt))', 'dict_pt_pt'
        _err(n, f'expression outside the grammar: {ast.unparse(n)}')

    def is_get_nodes(self, n):
        return (isinstance(n, ast.Call) and isinstance(n.func, ast.Attribute) and isinstance(n.func.value, ast.Name)
                and n.func.value.id == 'elm' and n.func.attr == 'get_nodes' and len(n.args) == 1)

    # ------------------------------------------------------------------ statements
    def assigned(self, stmts) -> list:
        out = []
        def add(x):
            if x not in out: out.append(x)
        for s in stmts:
            if isinstance(s, ast.Assign):
                for t in s.targets:
                    for nm in ([t] if isinstance(t, ast.Name) else t.elts if isinstance(t, ast.Tuple) else []):
                        if isinstance(nm, ast.Name): add(nm.id)
            elif isinstance(s, ast.AugAssign) and isinstance(s.target, ast.Name):
                add(s.target.id)
            elif (isinstance(s, ast.Expr) and isinstance(s.value, ast.Call) and isinstance(s.value.func, ast.Attribute)
                  and isinstance(s.value.func.value, ast.Name) and s.value.func.attr in ('add', 'remove', 'update')):
                add(s.value.func.value.id)
            elif isinstance(s, (ast.For, ast.While)):
                for x in self.assigned(s.body): add(x)
            elif isinstance(s, ast.If):
                for x in self.assigned(s.body) + self.assigned(s.orelse): add(x)
        return out

    def state(self, stmts, env):
        """variables of `env` a block assigns, in the order in which they were first defined"""
        a = self.assigned(stmts)
        return [v for v in env if v in a]

    def pack(self, vs):
        return vs[0] if len(vs) == 1 else '(' + ', '.join(vs) + ')'

    def unpack(self, st, vs, ind):
        if len(vs) == 1:
            return ''
        if len(vs) != 2: raise ExtractError(f'{REL}: more than two loop-carried variables in {self.method}')
        return f'{ind}let {vs[0]} := {st}.1\n{ind}let {vs[1]} := {st}.2\n'

    def block(self, stmts, env, ind, tail) -> str:
        """statements followed by `tail(env)` (the value of the block)"""
        if not stmts:
            return ind + tail(env) + '\n'
        s, rest = stmts[0], stmts[1:]
        cont = lambda e: self.block(rest, e, ind, tail)
        letop = lambda raises: '←' if raises else ':='
        if isinstance(s, ast.Expr) and isinstance(s.value, ast.Constant):
            return cont(env)
        if isinstance(s, ast.Assign) and len(s.targets) == 1:
            t = s.targets[0]
            if isinstance(t, ast.Name):
                te, ke = self.ex(s.value, env)
                env2 = dict(env); env2[t.id] = ke
                if ke == 'dict_pt_pt' and te.startswith('([]') and self.method == 'node_label_mapping':
                    _err(s, 'empty dictionary of unknown type')
                return f'{ind}let {t.id} := {te}\n' + cont(env2)
            if (isinstance(t, ast.Tuple) and len(t.elts) == 2 and all(isinstance(x, ast.Name) for x in t.elts)
                    and self.is_get_nodes(s.value)):
                te, ke = self.ex(s.value.args[0], env)
                if ke != 'sym': _err(s, 'get_nodes of a non-symbol')
                env2 = dict(env); env2[t.elts[0].id] = 'pt'; env2[t.elts[1].id] = 'pt'
                return (f'{ind}let {t.elts[0].id} := Py.node0 {te}\n{ind}let {t.elts[1].id} := Py.node1 {te}\n' + cont(env2))
            _err(s, f'assignment outside the grammar: {ast.unparse(s)}')
        if isinstance(s, ast.AugAssign) and isinstance(s.target, ast.Name) and isinstance(s.op, ast.Add):
            te, ke = self.ex(s.value, env)
            if env.get(s.target.id) != 'nat' or ke != 'nat': _err(s, 'augmented assignment of non-integers')
            return f'{ind}let {s.target.id} := {s.target.id} + {te}\n' + cont(env)
        if isinstance(s, ast.Expr) and isinstance(s.value, ast.Call) and isinstance(s.value.func, ast.Attribute) \
                and isinstance(s.value.func.value, ast.Name):
            c = s.value; x = c.func.value.id; kx = env.get(x)
            if c.func.attr in ('add', 'remove') and kx == 'ptset' and len(c.args) == 1:
                te, ke = self.ex(c.args[0], env)
                if ke != 'pt': _err(s, f'{c.func.attr} of a non-point')
                return f'{ind}let {x} := Py.{c.func.attr} {te} {x}\n' + cont(env)
            if c.func.attr == 'update' and kx in ('dict_pt_pt', 'dict_pt_str') and len(c.args) == 1 \
                    and isinstance(c.args[0], ast.Dict) and len(c.args[0].keys) == 1:
                tk, kk = self.ex(c.args[0].keys[0], env); tv, kv = self.ex(c.args[0].values[0], env)
                if kk != 'pt' or kv != ('pt' if kx == 'dict_pt_pt' else 'str'): _err(s, 'update with a mistyped entry')
                return f'{ind}let {x} := dictSet {tk} {tv} {x}\n' + cont(env)
            _err(s, f'call statement outside the grammar: {ast.unparse(s)}')
        if isinstance(s, ast.For) and isinstance(s.target, ast.Name) and not s.orelse:
            it, ek = self.iter_of(s.iter, env)
            vs = self.state(s.body, env)
            if not vs: _err(s, 'loop without effect')
            env2 = dict(env); env2[s.target.id] = ek
            st = 'st' if len(vs) > 1 else vs[0]
            body = self.unpack(st, vs, ind + '    ') + self.block(s.body, env2, ind + '    ', lambda e: self.pack(vs))
            out = (f'{ind}let {st} := Py.forIn {it} {self.pack(vs)} (fun {st} {s.target.id} =>\n{body}{ind}  )\n')
            return out + self.unpack(st, vs, ind) + cont(env)
        if isinstance(s, ast.While) and not s.orelse:
            fuel = FUEL.get((self.method, self.nwhile))
            if fuel is None: _err(s, 'while loop without a fuel annotation')
            self.nwhile += 1
            vs = self.state(s.body, env)
            if not vs: _err(s, 'loop without effect')
            st = 'st' if len(vs) > 1 else vs[0]
            un = self.unpack(st, vs, ind + '    ')
            c = self.cond(s.test, env)
            body = un + self.block(s.body, env, ind + '    ', lambda e: self.pack(vs))
            out = (f'{ind}let {st} := Py.whileFuel ({fuel}) (fun {st} =>\n{un}{ind}    decide {c}) (fun {st} =>\n{body}{ind}  ) {self.pack(vs)}\n')
            return out + self.unpack(st, vs, ind) + cont(env)
        if isinstance(s, ast.If):
            def ends(b):       # the branch ends in return / raise
                return bool(b) and (isinstance(b[-1], (ast.Return, ast.Raise)) or (isinstance(b[-1], ast.If) and ends(b[-1].body) and ends(b[-1].orelse)))
            c = self.cond(s.test, env)
            if ends(s.body):
                # terminal: if c: <return/raise>  [else: …]  <rest>
                then = self.block(s.body, env, ind + '  ', tail)
                els = self.block(s.orelse + rest, env, ind + '  ', tail) if not (s.orelse and ends(s.orelse) and rest) else _err(s, 'dead code after if/else')
                return f'{ind}if {c} then\n{then}{ind}else\n{els}'
            vs = self.state(s.body + s.orelse, env)
            if not vs: _err(s, 'if without effect')
            st = 'st' if len(vs) > 1 else vs[0]
            then = self.block(s.body, env, ind + '    ', lambda e: self.pack(vs))
            els = self.block(s.orelse, env, ind + '    ', lambda e: self.pack(vs))
            out = f'{ind}let {st} :=\n{ind}  if {c} then\n{then}{ind}  else\n{els}'
            return out + self.unpack(st, vs, ind) + cont(env)
        if isinstance(s, ast.Return):
            if rest: _err(s, 'statements after return')
            te, ke = self.ex(s.value, env)
            self.ret_kind = ke
            return f'{ind}{"pure " if self.effectful else ""}{te}\n'
        if isinstance(s, ast.Raise):
            if rest: _err(s, 'statements after raise')
            e = s.exc
            nm = e.id if isinstance(e, ast.Name) else e.func.id if isinstance(e, ast.Call) and isinstance(e.func, ast.Name) else None
            if nm not in EXC or not self.effectful: _err(s, f'raise outside the grammar: {ast.unparse(s)}')
            return f'{ind}throw {EXC[nm]}\n'
        _err(s, f'statement outside the grammar: {ast.unparse(s)[:70]}')

def raises_in(fn) -> bool:
    """does the method contain a construct that may raise (in the model's sense)?"""
    for n in (x for st in fn.body for x in ast.walk(st)):
        if isinstance(n, ast.Raise):
            return True
        if isinstance(n, ast.Subscript) and not (isinstance(n.value, ast.Attribute) and n.value.attr == 'absanchors'):
            v = n.value
            if not (isinstance(v, ast.Call) and isinstance(v.func, ast.Attribute) and v.func.attr == 'get_nodes'):
                return True
        if isinstance(n, ast.Attribute) and isinstance(n.value, ast.Name) and n.value.id == 'self' and SELF.get(n.attr, (0, 0, False))[2]:
            return True
        if isinstance(n, ast.Call) and isinstance(n.func, ast.Attribute) and METHODS.get(n.func.attr, (0, 0, False))[2]:
            return True
    return False

LEAN_NAME = {'all_elements': 'allElements', 'circuit_elements': 'circuitElements', 'line_elements': 'lineElements',
             'node_elements': 'nodeElements', 'all_nodes': 'allNodes', 'unique_nodes': 'uniqueNodes',
             'node_label_mapping': 'nodeLabelMapping', 'unique_node_mapping': 'uniqueNodeMapping', 'ground': 'ground',
             'ground_label': 'groundLabel', '_get_equal_electrical_potential_nodes': 'equalPotential',
             '_get_node_index': 'getNodeIndex', 'get_element': 'getElement'}
# definition order (a definition may use the earlier ones)
ORDER = ['all_elements', 'circuit_elements', 'line_elements', 'node_elements', 'all_nodes',
         '_get_equal_electrical_potential_nodes', 'unique_nodes', 'unique_node_mapping', 'node_label_mapping',
         '_get_node_index', 'ground', 'ground_label', 'get_element']
USES_ORD = {'unique_nodes', 'unique_node_mapping', 'node_label_mapping', '_get_node_index', 'ground', 'ground_label'}
RET = {'all_elements': 'symlist', 'circuit_elements': 'symlist', 'line_elements': 'symlist', 'node_elements': 'symlist',
       'all_nodes': 'ptset', 'unique_nodes': 'ptset', 'unique_node_mapping': 'dict_pt_pt', 'node_label_mapping': 'dict_pt_str',
       'ground': 'pt', 'ground_label': 'str', '_get_equal_electrical_potential_nodes': 'ptset', '_get_node_index': 'str',
       'get_element': 'sym'}

@extract.generator('DrawParser.lean')
def draw_parser(src: Path) -> str:
    mod = extract.parse(src, REL)
    cls = next((s for s in mod.body if isinstance(s, ast.ClassDef) and s.name == 'SchematicDiagramParser'), None)
    if cls is None:
        raise ExtractError(f'{REL}: class SchematicDiagramParser not found')
    fns = {s.name: s for s in cls.body if isinstance(s, ast.FunctionDef)}
    extra = set(fns) - set(ORDER)
    if extra:
        raise ExtractError(f'{REL}: methods outside the translated set: {sorted(extra)}')
    out = ['/- GENERATED by harness/extract_drawparser.py from SimpleCircuit/DiagramParser.py — do not edit. -/',
           'import CC.Model.PyLib', 'set_option linter.unusedVariables false', 'namespace CC.Draw.GenParser', 'open CC CC.Draw', '']
    for name in ORDER:
        if name not in fns:
            raise ExtractError(f'{REL}: method {name} not found')
        fn = fns[name]
        is_prop = any(isinstance(d, ast.Name) and d.id == 'property' for d in fn.decorator_list)
        want_prop = name not in ('_get_equal_electrical_potential_nodes', '_get_node_index', 'get_element')
        if is_prop != want_prop or len(fn.decorator_list) != (1 if want_prop else 0):
            _err(fn, f'decorators of {name} changed: {[ast.unparse(d) for d in fn.decorator_list]}')
        params = [a.arg for a in fn.args.args][1:]
        body = list(fn.body)
        env = {}
        if name == 'circuit_elements':
            if not (isinstance(body[0], ast.FunctionDef) and ast.unparse(body[0]) == HAS_NAME_SRC):
                _err(fn, 'has_name_property is not the function the model mirrors')
            body = body[1:]
        effectful = raises_in(fn)
        tr = Tr(name, effectful)
        sig = ''
        if name in USES_ORD: sig += ' (ord : SetOrd Pt)'
        sig += ' (syms : List Sym)'
        if name in ('_get_equal_electrical_potential_nodes', '_get_node_index'):
            if params != ['node']: _err(fn, f'parameters {params}')
            sig += ' (node : Pt)'; env['node'] = 'pt'
        elif name == 'get_element':
            if params != ['name']: _err(fn, f'parameters {params}')
            sig += ' (name : String)'; env['name'] = 'str'
        elif params:
            _err(fn, f'parameters {params}')
        tr.ret_kind = None
        text = tr.block(body, env, '  ', lambda e: _err(fn, 'method does not end in return'))
        rk = RET[name]
        if tr.ret_kind is not None and tr.ret_kind != rk and not (tr.ret_kind, rk) in (('ptlist', 'ptset'),):
            _err(fn, f'{name} returns {tr.ret_kind}, expected {rk}')
        typ = LEAN_TYPE[rk]
        if effectful: typ = f'Except Err ({typ})' if ' ' in typ else f'Except Err {typ}'
        out.append(f'/-- `{name}` (line {fn.lineno}) -/')
        out.append(f'def {LEAN_NAME[name]}{sig} : {typ} :=' + (' do' if effectful else ''))
        out.append(text)
    out += ['end CC.Draw.GenParser', '']
    return '\n'.join(out)
