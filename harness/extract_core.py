"""
extract_core.py — translator for the C01 core.

  Network/elements.py, Network/network.py, Network/NodalAnalysis/{label_mapping,node_analysis,
  bias_point_analysis,solution}.py   →   lean/CC/Gen/Core.lean

Every function body is translated statement by statement / expression by expression into a Lean
`def` over the data types of CC/Model/Net.lean, using only the Python/numpy idioms defined in
CC/Model/CoreBase.lean (namespace `CC.Py`).  CC/Properties/C01Gen.lean proves each generated
definition equal to the hand-written model (CC/Model/{Net,MNA}.lean) the C01 theorems are about.

Kinds of values (the translator's typing discipline):
  num    a complex number (`K`);  int literals 0, 1, −1 only
  xval   an element property that may be np.inf / np.nan (`Py.XVal K`); `.toNum` where used as a number
  bool, nat, label (node label, `L`), id (branch id, `String`), branch, elem, net
  list T, set T (a list; `sorted(list(S))` is `sortL (dedupL S)`), map T (`Py.LabelMapping T`),
  mat (`Py.Mat K`), vec (`List K`)
`network[id]`, `mapping[label]` and calls of functions that contain them are *effects* (KeyError):
such functions are translated into the `Except Err` monad, the look-up is bound where it occurs.
Anything outside the grammar raises ExtractError.
"""
from __future__ import annotations
import ast, copy
from extract import generator, parse, lean_str, ExtractError

F_ELM = 'Network/elements.py'
F_NET = 'Network/network.py'
F_MAP = 'Network/NodalAnalysis/label_mapping.py'
F_NA = 'Network/NodalAnalysis/node_analysis.py'
F_BP = 'Network/NodalAnalysis/bias_point_analysis.py'
F_SOL = 'Network/NodalAnalysis/solution.py'

class R(ExtractError):
    pass

def refuse(rel, node, msg):
    raise ExtractError(f'{rel}:{getattr(node, "lineno", "?")}: {msg}')

EXC = {'FloatingGroundNode': '.floatingGround', 'AmbiguousBranchIDs': '.ambiguousIds', 'KeyError': '.keyError'}

def lean_ty(t) -> str:
    if isinstance(t, tuple):
        k, a = t
        if k in ('list', 'set'): return f'List ({lean_ty(a)})'
        if k == 'map': return f'Py.LabelMapping ({lean_ty(a)})'
    return {'num': 'K', 'xval': 'Py.XVal K', 'bool': 'Bool', 'nat': 'Nat', 'label': 'L', 'id': 'String',
            'branch': 'Branch L K', 'elem': 'Elem K', 'net': 'Net L K', 'mat': 'Py.Mat K', 'vec': 'List K',
            'unit': 'Unit'}[t]

def is_np(e, attr):
    return isinstance(e, ast.Attribute) and isinstance(e.value, ast.Name) and e.value.id == 'np' and e.attr == attr

# --------------------------------------------------------------------------- function table

class Fn:
    """a translated function: Lean name, parameter kinds, result kind, monadic?"""
    def __init__(self, lean, params, ret, monadic=False, extra=''):
        self.lean = lean; self.params = params; self.ret = ret; self.monadic = monadic; self.extra = extra

class Tr:
    """translator of one function body"""
    def __init__(self, gen, rel, env, selfkind=None):
        self.g = gen; self.rel = rel
        self.env = dict(env)          # python name -> (lean code, kind)
        self.selfkind = selfkind      # None | 'network' | 'solution'
        self.lines = []               # current block's lines (strings, already indented relative)
        self.cache = {}               # key -> lean var for bound look-ups
        self.counter = 0
        self.monadic = False

    # ---- plumbing
    def local_name(self, n):
        return n if n not in ('I', 'V', 'Y', 'Z', 'Q', 'A', 'B') else n + '_'

    def fresh(self, stem):
        self.counter += 1
        return f'{stem}{self.counter}'

    def bind(self, code, stem, key=None):
        """`let v ← code` in the current block (an effect); cached by key"""
        if key is not None and key in self.cache:
            return self.cache[key]
        v = self.fresh(stem)
        self.lines.append(f'let {v} ← {code}')
        self.monadic = True
        if key is not None:
            self.cache[key] = v
        return v

    def sub(self, extra_env):
        t = type(self)(self.g, self.rel, {**self.env, **extra_env}, self.selfkind)
        t.__dict__.update({k: v for k, v in self.__dict__.items() if k not in ('env', 'lines', 'cache', 'counter', 'monadic', 'pending')})
        t.env = {**self.env, **extra_env}
        t.counter = self.counter + 10
        t.cache = dict(self.cache)
        return t

    def no(self, node, msg):
        refuse(self.rel, node, msg)

    # ---- kinds
    def num(self, ek, node=None):
        c, k = ek
        if k == 'num': return c
        if k == 'xval': return f'({c}).toNum'
        self.no(node, f'a value of kind {k} is used as a number: {c}')

    # ---- expressions
    def ex(self, e):
        if isinstance(e, ast.Constant):
            if isinstance(e.value, bool): self.no(e, 'boolean literal')
            if isinstance(e.value, int) and e.value in (0, 1):
                return (str(e.value), 'num')
            if isinstance(e.value, str):
                return (lean_str(e.value), 'id')
            self.no(e, f'literal {e.value!r} outside the grammar (only 0, 1, −1)')
        if isinstance(e, ast.Name):
            if e.id in self.env:
                return self.env[e.id]
            self.no(e, f'unknown name {e.id!r}')
        if isinstance(e, ast.UnaryOp) and isinstance(e.op, ast.USub):
            if isinstance(e.operand, ast.Constant) and e.operand.value == 1 and not isinstance(e.operand.value, bool):
                return ('(-1)', 'num')
            c = self.num(self.ex(e.operand), e)
            return (f'(-({c}))', 'num')
        if isinstance(e, ast.BinOp):
            l = self.ex(e.left); r = self.ex(e.right)
            if isinstance(e.op, ast.Add) and isinstance(l[1], tuple) and l[1][0] == 'list' and l[1] == r[1]:
                return (f'({l[0]} ++ {r[0]})', l[1])
            sym = {'Add': '+', 'Sub': '-', 'Mult': '*', 'Div': '/'}.get(type(e.op).__name__)
            if sym is None:
                if isinstance(e.op, ast.MatMult) and l[1] == 'mat' and r[1] == 'vec':
                    return (f'(({l[0]}).mulVec {r[0]})', 'vec')
                self.no(e, f'operator {type(e.op).__name__} outside the grammar')
            return (f'({self.num(l, e)} {sym} {self.num(r, e)})', 'num')
        if isinstance(e, ast.IfExp):
            c = self.cond(e.test, 'prop')
            a = self.ex(e.body); b = self.ex(e.orelse)
            if a[1] != b[1]: self.no(e, 'conditional expression with branches of different kinds')
            return (f'(if {c} then {a[0]} else {b[0]})', a[1])
        if isinstance(e, ast.List):
            xs = [self.ex(x) for x in e.elts]
            if not xs or any(x[1] != xs[0][1] for x in xs): self.no(e, 'list literal outside the grammar')
            return ('[' + ', '.join(x[0] for x in xs) + ']', ('list', xs[0][1]))
        if isinstance(e, ast.Attribute):
            return self.attr(e)
        if isinstance(e, ast.Subscript):
            return self.subscript(e)
        if isinstance(e, ast.Call):
            return self.call(e)
        if isinstance(e, (ast.ListComp, ast.SetComp, ast.GeneratorExp)):
            return self.comp(e)
        if isinstance(e, ast.Compare) or isinstance(e, ast.BoolOp) or (isinstance(e, ast.UnaryOp) and isinstance(e.op, ast.Not)):
            return (self.cond(e, 'bool'), 'bool')
        self.no(e, f'expression {type(e).__name__} outside the grammar')

    def attr(self, e):
        if is_np(e, 'inf'): return ('Py.XVal.inf', 'xval')
        if is_np(e, 'nan'): return ('Py.XVal.nan', 'xval')
        # self.<something>
        if isinstance(e.value, ast.Name) and e.value.id == 'self' and self.selfkind:
            return self.self_attr(e)
        b, k = self.ex(e.value)
        a = e.attr
        if k == 'branch':
            m = {'node1': ('n1', 'label'), 'node2': ('n2', 'label'), 'id': ('id', 'id'), 'element': ('e', 'elem')}
            if a in m: return (f'{b}.{m[a][0]}', m[a][1])
        if k == 'elem' and a in ('Z', 'Y', 'V', 'I'):
            return (f'(Elem.{a} {b})', 'xval')
        if k == 'net':
            if a == 'branches': return (f'{b}.branches', ('list', 'branch'))
            if a == 'node_zero_label': return (f'{b}.zero', 'label')
            if a in self.g.net_props:
                f = self.g.net_props[a]
                return (f'({f.lean} {b})', f.ret)
        if isinstance(k, tuple) and k[0] == 'map':
            if a == 'keys': return (f'{b}.keys', ('list', k[1]))
            if a == 'N': return (f'{b}.N', 'nat')
        if k == 'mat' and a == 'T':
            return (f'{b}.T', 'mat')
        self.no(e, f'attribute .{a} of a {k} outside the grammar')

    def self_attr(self, e):
        a = e.attr
        if self.selfkind == 'record':
            if a in self.fields: return (a, 'num')
            self.no(e, f'self.{a} is not a field of the record')
        if self.selfkind == 'network':
            return self.attr(ast.Attribute(value=ast.Name(id='__self_net', ctx=ast.Load()), attr=a, ctx=ast.Load(), lineno=e.lineno))
        # solution object: (network, x)
        if a == 'network': return self.env['__self_net']
        if a == '_solution_vector': return ('x', 'vec')
        if a in self.g.sol_maps:
            return (f'({self.g.sol_maps[a]} network)', ('map', self.g.sol_map_kind[a]))
        if a in self.g.sol_props:
            f = self.g.sol_props[a]
            return (f'({f.lean} network x)', f.ret)
        self.no(e, f'self.{a} outside the grammar')

    def subscript(self, e):
        s = e.slice
        # B.shape[1]
        if isinstance(e.value, ast.Attribute) and e.value.attr == 'shape' and isinstance(s, ast.Constant) and s.value in (0, 1):
            b, k = self.ex(e.value.value)
            if k != 'mat': self.no(e, '.shape of a non-matrix')
            return (f'{b}.{"nrows" if s.value == 0 else "ncols"}', 'nat')
        if isinstance(e.value, ast.DictComp):
            return self.dict_lookup(e)
        b, k = self.ex(e.value)
        if isinstance(s, ast.Slice):
            if k != 'vec' or s.step is not None: self.no(e, 'slice outside the grammar')
            if s.lower is None and s.upper is not None:
                u, uk = self.ex(s.upper)
                if uk != 'nat': self.no(e, 'slice bound is not a count')
                return (f'(Py.sliceTo {b} {u})', 'vec')
            if s.upper is None and isinstance(s.lower, ast.UnaryOp) and isinstance(s.lower.op, ast.USub):
                u, uk = self.ex(s.lower.operand)
                if uk != 'nat': self.no(e, 'slice bound is not a count')
                return (f'(Py.sliceLast {b} {u})', 'vec')
            if s.upper is None and s.lower is not None:
                u, uk = self.ex(s.lower)
                if uk != 'nat': self.no(e, 'slice bound is not a count')
                return (f'(Py.sliceFrom {b} {u})', 'vec')
            self.no(e, 'slice outside the grammar (only x[:n], x[n:] and x[-n:])')
        i, ik = self.ex(s)
        if k == 'net' and ik == 'id':
            v = self.bind(f'{self.g.fn_getitem.lean} {b} {i}', 'b', key=('getitem', b, i))
            return (v, 'branch')
        if isinstance(k, tuple) and k[0] == 'map' and ik == k[1]:
            v = self.bind(f'({b}).getitem {i}', 'k', key=('mapidx', b, i))
            return (v, 'nat')
        if k == 'vec' and ik == 'nat':
            return (f'(Py.index {b} {i})', 'num')
        self.no(e, f'subscript of a {k} by a {ik} outside the grammar')

    def dict_lookup(self, e):
        """{K: V for v in S}[key] — the last pair with that key, KeyError when absent"""
        d = e.value
        if len(d.generators) != 1 or d.generators[0].ifs or not isinstance(d.generators[0].target, ast.Name):
            self.no(e, 'dict comprehension outside the grammar')
        src, sk = self.ex(d.generators[0].iter)
        if not (isinstance(sk, tuple) and sk[0] == 'list'): self.no(e, 'dict comprehension over a non-list')
        v = d.generators[0].target.id
        t = self.sub({v: (v, sk[1])})
        kc, kk = t.ex(d.key); vc, vk = t.ex(d.value)
        if t.lines: self.no(e, 'dict comprehension with a look-up')
        key, keyk = self.ex(e.slice)
        if keyk != kk: self.no(e, f'dict key of kind {kk} looked up with a {keyk}')
        r = self.bind(f'Py.dictGet ({src}.map fun ({v} : {lean_ty(sk[1])}) => ({kc}, {vc})) {key}', 'd')
        return (r, vk)

    # ---- conditions
    def cond(self, c, mode):
        """mode 'prop' (for `if`) or 'bool' (value)"""
        P = mode == 'prop'
        if isinstance(c, ast.BoolOp):
            parts = [self.cond(v, mode) for v in c.values]
            op = {('And', True): ' ∧ ', ('Or', True): ' ∨ ', ('And', False): ' && ', ('Or', False): ' || '}[(type(c.op).__name__, P)]
            return '(' + op.join(parts) + ')'
        if isinstance(c, ast.UnaryOp) and isinstance(c.op, ast.Not):
            inner = self.cond(c.operand, mode)
            return f'(¬ {inner})' if P else f'(!{inner})'
        if isinstance(c, ast.Compare) and len(c.ops) == 1:
            op = c.ops[0]; l = c.left; r = c.comparators[0]
            # np.abs(X) > 0 / >= 0
            if isinstance(l, ast.Call) and is_np(l.func, 'abs') and isinstance(r, ast.Constant) and r.value == 0 \
                    and isinstance(op, (ast.Gt, ast.GtE)) and len(l.args) == 1:
                x, xk = self.ex(l.args[0])
                if xk != 'xval': self.no(c, 'np.abs of a value that is not an element property')
                b = f'Py.XVal.{"absGt0" if isinstance(op, ast.Gt) else "absGe0"} {x}'
                return f'({b} = true)' if P else f'({b})'
            # set((a,b)) == set((c,d))
            if isinstance(op, ast.Eq) and self.is_pair_set(l) and self.is_pair_set(r):
                a1, a2 = [self.ex(x) for x in l.args[0].elts]; b1, b2 = [self.ex(x) for x in r.args[0].elts]
                if not (a1[1] == a2[1] == b1[1] == b2[1] == 'label'): self.no(c, 'pair sets of non-labels')
                b = f'Py.setEq2 {a1[0]} {a2[0]} {b1[0]} {b2[0]}'
                return f'({b} = true)' if P else f'({b})'
            if isinstance(op, (ast.In, ast.NotIn)):
                a, ak = self.ex(l); b, bk = self.ex(r)
                if not (isinstance(bk, tuple) and bk[0] == 'list' and bk[1] == ak): self.no(c, f'membership of a {ak} in a {bk}')
                p = f'{a} ∈ {b}' if isinstance(op, ast.In) else f'{a} ∉ {b}'
                return f'({p})' if P else f'(decide ({p}))'
            if isinstance(op, (ast.Eq, ast.NotEq)):
                a, ak = self.ex(l); b, bk = self.ex(r)
                if ak == 'xval' and isinstance(r, ast.Constant) and r.value == 0 and isinstance(op, ast.Eq):
                    bb = f'Py.XVal.eqZero {a}'
                    return f'({bb} = true)' if P else f'({bb})'
                if ak == bk and ak in ('label', 'id', 'nat'):
                    sym = '=' if isinstance(op, ast.Eq) else '≠'
                    return f'({a} {sym} {b})' if P else f'(decide ({a} {sym} {b}))'
                if ak == 'nat' and isinstance(r, ast.Constant) and r.value == 0:
                    sym = '=' if isinstance(op, ast.Eq) else '≠'
                    return f'({a} {sym} 0)' if P else f'(decide ({a} {sym} 0))'
                self.no(c, f'comparison of a {ak} with a {bk} outside the grammar')
            self.no(c, 'comparison outside the grammar')
        # a Bool-valued expression (call of a predicate)
        v, k = self.ex(c)
        if k != 'bool': self.no(c, f'condition of kind {k}')
        return f'({v} = true)' if P else v

    def is_pair_set(self, e):
        return (isinstance(e, ast.Call) and isinstance(e.func, ast.Name) and e.func.id == 'set' and len(e.args) == 1
                and isinstance(e.args[0], ast.Tuple) and len(e.args[0].elts) == 2)

    # ---- calls
    def kwargs_ok(self, e, fn):
        """keyword arguments may only pass the mapper parameters through (or name positional ones)"""
        return True

    def call(self, e):
        f = e.func
        g = self.g
        # builtins / numpy
        if isinstance(f, ast.Name):
            n = f.id
            if n == 'len' and len(e.args) == 1 and not e.keywords:
                a = e.args[0]
                if isinstance(a, ast.Call) and isinstance(a.func, ast.Name) and a.func.id == 'set' and len(a.args) == 1:
                    x, k = self.ex(a.args[0])
                    if not (isinstance(k, tuple) and k[0] == 'list'): self.no(e, 'len(set(…)) of a non-list')
                    return (f'(dedupL {x}).length', 'nat')
                x, k = self.ex(a)
                if isinstance(k, tuple) and k[0] == 'list' or k == 'vec':
                    return (f'({x}).length', 'nat')
                self.no(e, f'len of a {k}')
            if n == 'list' and len(e.args) == 1 and not e.keywords:
                return self.ex(e.args[0])          # list(S): same elements (a set stays a set until sorted)
            if n == 'sorted' and len(e.args) == 1 and not e.keywords:
                x, k = self.ex(e.args[0])
                if isinstance(k, tuple) and k[0] == 'set':
                    return (f'(sortL (dedupL {x}))', ('list', k[1]))
                if isinstance(k, tuple) and k[0] == 'list':
                    return (f'(sortL {x})', k)
                self.no(e, f'sorted of a {k}')
            if n == 'complex' and len(e.args) == 1 and not e.keywords:
                x = self.ex(e.args[0])
                return (self.num(x, e), 'num')
            if n == 'sum' and len(e.args) == 1 and not e.keywords:
                return self.sum_(e)
            if n == 'LabelMapping' and len(e.args) == 1 and not e.keywords:
                want = ast.parse('{k: v for v, k in enumerate(X)}', mode='eval').body
                a = e.args[0]
                if isinstance(a, ast.DictComp) and len(a.generators) == 1:
                    probe = copy.deepcopy(a)
                    if isinstance(probe.generators[0].iter, ast.Call) and probe.generators[0].iter.args: probe.generators[0].iter.args = [ast.Name(id='X', ctx=ast.Load())]
                    if ast.dump(probe) == ast.dump(want) and isinstance(a.generators[0].iter, ast.Call) \
                            and isinstance(a.generators[0].iter.func, ast.Name) and a.generators[0].iter.func.id == 'enumerate' \
                            and len(a.generators[0].iter.args) == 1:
                        x, k = self.ex(a.generators[0].iter.args[0])
                        if isinstance(k, tuple) and k[0] == 'list' and k[1] in ('label', 'id'):
                            return (f'(Py.LabelMapping.enumerate {x})', ('map', k[1]))
                self.no(e, 'LabelMapping(…) is not LabelMapping({k: v for v, k in enumerate(list)})')
            if n in self.env and isinstance(self.env[n][1], tuple) and self.env[n][1][0] == 'mapper':
                # node_mapper(network): a mapper parameter, fixed to its default
                fn = self.env[n][1][1]
                a, k = self.ex(e.args[0])
                if k != 'net' or len(e.args) != 1: self.no(e, 'mapper applied to something else than the network')
                return (f'({fn.lean} {a})', fn.ret)
            if n in self.env and isinstance(self.env[n][1], tuple) and self.env[n][1][0] == 'fn':
                return self.apply(self.env[n][1][1], e, e.args)
            if n in g.fns:
                return self.apply(g.fns[n], e, e.args)
            self.no(e, f'call of {n} outside the grammar')
        if isinstance(f, ast.Attribute):
            # np.*
            if isinstance(f.value, ast.Name) and f.value.id == 'np':
                return self.np_call(e)
            # module-qualified: elm.is_…, map.filter, map.alphabetic_…
            if isinstance(f.value, ast.Name) and f.value.id in ('elm', 'map') and f.value.id not in self.env:
                if f.value.id == 'map' and f.attr == 'filter':
                    return self.map_filter(e)
                if f.attr in g.fns:
                    return self.apply(g.fns[f.attr], e, e.args)
                self.no(e, f'call of {f.value.id}.{f.attr} outside the grammar')
            # self.method(...)
            if isinstance(f.value, ast.Name) and f.value.id == 'self' and self.selfkind == 'solution':
                if f.attr in g.sol_methods:
                    fn = g.sol_methods[f.attr]
                    return self.apply(fn, e, e.args, prefix='network x')
                self.no(e, f'self.{f.attr}(…) outside the grammar')
            # mapper attribute of self: self.node_mapper(self.network) handled by templates only
            b, k = self.ex(f.value)
            if k == 'net' and f.attr in g.net_methods:
                return self.apply(g.net_methods[f.attr], e, e.args, prefix=b)
            if isinstance(k, tuple) and k[0] == 'set' and f.attr == 'union' and len(e.args) == 1:
                o, ok = self.ex(e.args[0])
                if ok != k: self.no(e, 'union of sets of different kinds')
                return (f'({b} ++ {o})', k)
            if k == 'num' and f.attr == 'conjugate' and not e.args:
                return (f'(conj {b})', 'num')
            if isinstance(k, tuple) and k[0] == 'map' and False:
                pass
            # mapping(a, b) is only used inside the matrix-fill pattern
            self.no(e, f'method .{f.attr} of a {k} outside the grammar')
        self.no(e, 'call outside the grammar')

    def apply(self, fn, e, args, prefix=None):
        """call of a translated function; keyword arguments must name parameters, mapper
        parameters must be passed through unchanged"""
        pos = [self.ex(a) for a in args]
        names = [p for p, _ in fn.params]
        vals = {}
        for (p, k), v in zip(fn.params, pos):
            vals[p] = v
        for kw in e.keywords:
            if kw.arg in fn.mappers:
                # must resolve to the callee's default
                tgt = self.resolve_mapper(kw.value)
                if tgt is not fn.mappers[kw.arg]:
                    self.no(e, f'mapper argument {kw.arg} is not the default mapper of {fn.lean}')
                continue
            if kw.arg not in names: self.no(e, f'unknown keyword {kw.arg}')
            vals[kw.arg] = self.ex(kw.value)
        if len(args) > len(fn.params):
            # extra positional arguments may only be mappers passed through
            extra = args[len(fn.params):]
            ms = list(fn.mappers.items())
            for a, (mn, mf) in zip(extra, ms):
                if self.resolve_mapper(a) is not mf:
                    self.no(e, f'positional mapper argument is not the default mapper of {fn.lean}')
        out = []
        for p, k in fn.params:
            if p not in vals: self.no(e, f'missing argument {p} of {fn.lean}')
            c, ck = vals[p]
            if k == 'num' and ck in ('num', 'xval'):
                c = self.num((c, ck), e)
            elif ck != k:
                self.no(e, f'argument {p} of {fn.lean}: a {ck} where a {k} is expected')
            out.append(c if c.startswith('(') or c.replace('_', '').replace('.', '').isalnum() else f'({c})')
        code = ' '.join([fn.lean] + ([prefix] if prefix else []) + ([fn.extra] if fn.extra else []) + out)
        if fn.monadic:
            v = self.bind(code, 'r')
            return (v, fn.ret)
        return (f'({code})', fn.ret)

    def resolve_mapper(self, a):
        if isinstance(a, ast.Name) and a.id in self.env and isinstance(self.env[a.id][1], tuple) and self.env[a.id][1][0] == 'mapper':
            return self.env[a.id][1][1]
        if isinstance(a, ast.Attribute) and isinstance(a.value, ast.Name) and a.value.id == 'map':
            return self.g.mapper_by_name(a.attr, a)
        if isinstance(a, ast.Attribute) and isinstance(a.value, ast.Name) and a.value.id == 'self' \
                and a.attr in self.g.sol_mapper_fields:
            return self.g.sol_mapper_fields[a.attr]
        self.no(a, 'mapper argument outside the grammar')

    def np_call(self, e):
        n = e.func.attr
        if n == 'array' and len(e.args) == 1 and not e.keywords:
            x, k = self.comp(e.args[0], as_num=True) if isinstance(e.args[0], ast.ListComp) else self.ex(e.args[0])
            if k in (('list', 'num'), 'vec'): return (x, 'vec')
            if k == ('list', 'xval'): self.no(e, 'array of unconverted element properties')
            self.no(e, f'np.array of a {k}')
        if n in ('hstack', 'vstack') and len(e.args) == 1 and isinstance(e.args[0], ast.Tuple) and len(e.args[0].elts) == 2:
            a, ak = self.ex(e.args[0].elts[0]); b, bk = self.ex(e.args[0].elts[1])
            if ak == bk == 'mat':
                return (f'(Py.Mat.{n} {a} {b})', 'mat')
            if ak == bk == 'vec' and n == 'hstack':
                return (f'({a} ++ {b})', 'vec')
            self.no(e, f'np.{n} of a {ak} and a {bk}')
        if n == 'zeros' and len(e.args) == 1 and not e.keywords:
            a = e.args[0]
            if isinstance(a, ast.Tuple) and len(a.elts) == 2:
                r, rk = self.ex(a.elts[0]); c, ck = self.ex(a.elts[1])
                if rk == ck == 'nat': return (f'(Py.Mat.zeros {r} {c})', 'mat')
            else:
                r, rk = self.ex(a)
                if rk == 'nat': return (f'(Py.zerosVec {r})', 'vec')
            self.no(e, 'np.zeros outside the grammar')
        if n == 'size' and len(e.args) == 1:
            x, k = self.ex(e.args[0])
            if k == 'vec': return (f'({x}).length', 'nat')
        self.no(e, f'np.{n} outside the grammar')

    def lam(self, la, kinds, as_num=False):
        """a lambda / comprehension body as a Lean function; returns (code, result kind, monadic)"""
        if len(la.args.args) != len(kinds) or la.args.defaults or la.args.vararg or la.args.kwarg:
            self.no(la, 'lambda signature outside the grammar')
        names = [a.arg for a in la.args.args]
        t = self.sub({n: (n, k) for n, k in zip(names, kinds)})
        v, vk = t.ex(la.body)
        if as_num and vk == 'xval':
            v, vk = t.num((v, vk), la), 'num'
        bs = ' '.join(f'({n} : {lean_ty(k)})' for n, k in zip(names, kinds))
        if t.lines:
            body = 'do\n' + '\n'.join('    ' + l for l in t.lines) + f'\n    pure {v}'
            return (f'(fun {bs} => {body})', vk, True)
        return (f'(fun {bs} => {v})', vk, False)

    def map_filter(self, e):
        """map.filter(mapping, lambda x: P)"""
        if len(e.args) != 2 or e.keywords or not isinstance(e.args[1], ast.Lambda): self.no(e, 'map.filter outside the grammar')
        m, mk = self.ex(e.args[0])
        if not (isinstance(mk, tuple) and mk[0] == 'map'): self.no(e, 'map.filter of a non-mapping')
        f, fk, mon = self.lam(e.args[1], [mk[1]])
        if fk != 'bool': self.no(e, 'map.filter predicate is not boolean')
        if not mon:
            f = f'(fun x => pure ({f} x))'
        v = self.bind(f'({m}).filterM {f}', 'm')
        return (v, mk)

    def comp(self, e, as_num=False):
        """[E for v in S if P] / {E for v in S}"""
        if len(e.generators) != 1: self.no(e, 'nested comprehension')
        gen = e.generators[0]
        if not isinstance(gen.target, ast.Name) or gen.is_async: self.no(e, 'comprehension target outside the grammar')
        src, sk = self.ex(gen.iter)
        if isinstance(sk, tuple) and sk[0] == 'map':      # iterating a mapping = its keys
            src, sk = f'{src}.keys', ('list', sk[1])
        if not (isinstance(sk, tuple) and sk[0] == 'list'): self.no(e, f'comprehension over a {sk}')
        v = gen.target.id
        for c in gen.ifs:
            t = self.sub({v: (v, sk[1])})
            p = t.cond(c, 'bool')
            if t.lines: self.no(c, 'comprehension guard with a look-up')
            src = f'({src}.filter fun ({v} : {lean_ty(sk[1])}) => {p})'
        la = ast.Lambda(args=ast.arguments(posonlyargs=[], args=[ast.arg(arg=v)], kwonlyargs=[], kw_defaults=[], defaults=[]), body=e.elt)
        f, fk, mon = self.lam(la, [sk[1]], as_num)
        outk = ('set' if isinstance(e, ast.SetComp) else 'list', fk)
        # identity map
        if isinstance(e.elt, ast.Name) and e.elt.id == v:
            return (src, outk)
        if mon:
            r = self.bind(f'{src}.mapM {f}', 'l')
            return (r, outk)
        return (f'({src}.map {f})', outk)

    def sum_(self, e):
        """sum(E for b in S if np.isfinite(E)) — keeps exactly the finite values"""
        a = e.args[0]
        if not isinstance(a, (ast.GeneratorExp, ast.ListComp)) or len(a.generators) != 1: self.no(e, 'sum outside the grammar')
        gen = a.generators[0]
        if not isinstance(gen.target, ast.Name): self.no(e, 'sum target')
        src, sk = self.ex(gen.iter)
        if not (isinstance(sk, tuple) and sk[0] == 'list'): self.no(e, f'sum over a {sk}')
        v = gen.target.id
        t = self.sub({v: (v, sk[1])})
        x, xk = t.ex(a.elt)
        if t.lines: self.no(e, 'sum with a look-up')
        if xk == 'xval':
            # guard: [P and … and] np.isfinite(E) — the leading conjuncts select branches (a filter,
            # evaluated first as Python's `and` does), the last one keeps exactly the finite values
            guards = []
            if len(gen.ifs) == 1:
                guards = list(gen.ifs[0].values) if isinstance(gen.ifs[0], ast.BoolOp) and isinstance(gen.ifs[0].op, ast.And) else [gen.ifs[0]]
            fin = guards[-1] if guards else None
            ok = (isinstance(fin, ast.Call) and is_np(fin.func, 'isfinite')
                  and len(fin.args) == 1 and ast.dump(fin.args[0]) == ast.dump(a.elt))
            if not ok: self.no(e, 'sum of element properties without the np.isfinite guard on the same expression')
            for c in guards[:-1]:
                tc = self.sub({v: (v, sk[1])})
                pc = tc.cond(c, 'bool')
                if tc.lines: self.no(c, 'sum guard with a look-up')
                src = f'({src}.filter fun ({v} : {lean_ty(sk[1])}) => {pc})'
            return (f'(({src}.filterMap fun ({v} : {lean_ty(sk[1])}) => Py.XVal.finite? {x}).sum)', 'num')
        if xk == 'num' and not gen.ifs:
            return (f'(({src}.map fun ({v} : {lean_ty(sk[1])}) => {x}).sum)', 'num')
        self.no(e, 'sum outside the grammar')

    # ---- statements
    def with_block(self, fn):
        """run fn() collecting its lines in a fresh block; cache changes stay local"""
        saved_lines, saved_cache, saved_env = self.lines, dict(self.cache), dict(self.env)
        self.lines = []
        fn()
        out = self.lines
        self.lines, self.cache, self.env = saved_lines, saved_cache, saved_env
        return out

    def emit_ret(self, e):
        if e is None:
            self.lines.append('RET ()'); return
        v, k = self.ex(e)
        if self.want == 'num':
            if k == 'xval' and not self.want_x: v = self.num((v, k), e)
            elif k not in ('num',): self.no(e, f'returns a {k} where a number is expected')
        elif self.want == 'xval':
            if k == 'num': v = f'Py.XVal.fin {v}'
            elif k != 'xval': self.no(e, f'returns a {k}')
        elif k != self.want:
            self.no(e, f'returns a {k} where a {self.want} is expected')
        self.lines.append(f'RET {v}')

    def block(self, stmts):
        if not stmts:
            if self.want == 'unit':
                self.lines.append('RET ()'); return
            self.no(None, 'function body falls off the end')
        s, rest = stmts[0], stmts[1:]
        if isinstance(s, ast.Expr) and isinstance(s.value, ast.Constant) and isinstance(s.value.value, str):
            return self.block(rest)
        if isinstance(s, ast.Return):
            if rest: self.no(s, 'statements after return')
            return self.emit_ret(s.value)
        if isinstance(s, ast.If) and not s.orelse:
            c = self.cond(s.test, 'prop')
            body = s.body
            if len(body) == 1 and isinstance(body[0], ast.Raise):
                exc = body[0].exc
                name = exc.id if isinstance(exc, ast.Name) else (exc.func.id if isinstance(exc, ast.Call) and isinstance(exc.func, ast.Name) else None)
                if name not in EXC: self.no(s, f'raise of {name} outside the grammar')
                self.monadic = True
                then = [f'THROW {EXC[name]}']
            elif len(body) == 1 and isinstance(body[0], ast.Return):
                then = self.with_block(lambda: self.emit_ret(body[0].value))
            elif len(body) > 1 and isinstance(body[-1], ast.Return):
                then = self.with_block(lambda: self.block(body))
            else:
                self.no(s, 'if-statement outside the grammar (only `if c: return …` / `if c: raise …`)')
            els = self.with_block(lambda: self.block(rest))
            self.lines.append(f'if {c} then')
            self.lines += ['  ' + l for l in then]
            self.lines.append('else')
            self.lines += ['  ' + l for l in els]
            return
        if isinstance(s, ast.Assign) and len(s.targets) == 1 and isinstance(s.targets[0], ast.Name):
            n = s.targets[0].id
            if self.is_zero_table(s.value):
                self.pending[n] = self.zero_table(s.value)
                return self.block(rest)
            v, k = self.ex(s.value)
            ln = self.local_name(n)
            self.lines.append(f'let {ln} : {lean_ty(k)} := {v}')
            self.env[n] = (ln, k)
            return self.block(rest)
        if isinstance(s, ast.Expr) and isinstance(s.value, ast.Call) and isinstance(s.value.func, ast.Attribute) \
                and s.value.func.attr == 'sort' and isinstance(s.value.func.value, ast.Name):
            n = s.value.func.value.id
            c = s.value
            if c.args or len(c.keywords) != 1 or c.keywords[0].arg != 'key' or not isinstance(c.keywords[0].value, ast.Lambda):
                self.no(s, '.sort outside the grammar')
            l, lk = self.env[n]
            if not (isinstance(lk, tuple) and lk[0] == 'list'): self.no(s, '.sort of a non-list')
            f, fk, mon = self.lam(c.keywords[0].value, [lk[1]])
            if mon or fk != 'label': self.no(s, 'sort key outside the grammar')
            self.lines.append(f'let {l} : {lean_ty(lk)} := Py.sortByKey {f} {l}')
            return self.block(rest)
        if isinstance(s, ast.For):
            self.for_(s)
            return self.block(rest)
        if isinstance(s, ast.FunctionDef):
            return self.block(rest)       # nested functions are emitted separately by the generator
        self.no(s, f'statement {type(s).__name__} outside the grammar')

    # ---- array fill patterns
    def is_zero_table(self, v):
        """np.zeros((R.N, C.N)[, dtype=complex])"""
        if not (isinstance(v, ast.Call) and is_np(v.func, 'zeros') and len(v.args) == 1 and isinstance(v.args[0], ast.Tuple)
                and len(v.args[0].elts) == 2):
            return False
        return all(isinstance(x, ast.Attribute) and x.attr == 'N' for x in v.args[0].elts)

    def zero_table(self, v):
        for kw in v.keywords:
            if not (kw.arg == 'dtype' and isinstance(kw.value, ast.Name) and kw.value.id == 'complex'):
                self.no(v, 'np.zeros keyword outside the grammar')
        maps = []
        for x in v.args[0].elts:
            m, mk = self.ex(x.value)
            if not (isinstance(mk, tuple) and mk[0] == 'map'): self.no(v, 'np.zeros shape is not (mapping.N, mapping.N)')
            maps.append((m, mk, ast.dump(x.value)))
        return maps

    def for_(self, s):
        if s.orelse: self.no(s, 'for-else')
        it = s.iter
        # pattern A: for r, c in itertools.product(X, repeat=2) / product(R.keys, C.keys): M[R[r], C[c]] = F(...)
        if isinstance(it, ast.Call) and isinstance(it.func, ast.Attribute) and it.func.attr == 'product' \
                and isinstance(it.func.value, ast.Name) and it.func.value.id == 'itertools':
            if not (isinstance(s.target, ast.Tuple) and len(s.target.elts) == 2 and all(isinstance(t, ast.Name) for t in s.target.elts)):
                self.no(s, 'loop target outside the grammar')
            rv, cv = [t.id for t in s.target.elts]
            if len(it.args) == 1 and len(it.keywords) == 1 and it.keywords[0].arg == 'repeat' \
                    and isinstance(it.keywords[0].value, ast.Constant) and it.keywords[0].value.value == 2:
                srcs = [it.args[0], it.args[0]]
            elif len(it.args) == 2 and not it.keywords:
                srcs = list(it.args)
            else:
                self.no(s, 'itertools.product outside the grammar')
            keys = []
            for src in srcs:
                m, mk = self.ex(src)
                if isinstance(mk, tuple) and mk[0] == 'map':
                    keys.append((f'{m}.keys', mk[1], m))
                elif isinstance(mk, tuple) and mk[0] == 'list' and isinstance(src, ast.Attribute) and src.attr == 'keys':
                    keys.append((m, mk[1], m[:-len('.keys')]))
                else:
                    self.no(s, 'loop range is not a mapping / its keys')
            if len(s.body) != 1 or not isinstance(s.body[0], ast.Assign) or len(s.body[0].targets) != 1:
                self.no(s, 'loop body outside the grammar')
            tgt = s.body[0].targets[0]
            if not (isinstance(tgt, ast.Subscript) and isinstance(tgt.value, ast.Name) and tgt.value.id in self.pending):
                self.no(s, 'loop body does not write the pending array')
            name = tgt.value.id
            rows, cols = self.pending.pop(name)
            # index: R(r, c)  or  R[r], C[c]
            idx = tgt.slice
            ok = False
            if isinstance(idx, ast.Call) and len(idx.args) == 2 and not idx.keywords:
                ok = (ast.dump(idx.func) == rows[2] == cols[2] and [ast.dump(a) for a in idx.args] ==
                      [ast.dump(ast.Name(id=rv, ctx=ast.Load())), ast.dump(ast.Name(id=cv, ctx=ast.Load()))])
            elif isinstance(idx, ast.Tuple) and len(idx.elts) == 2:
                want = [(rows[2], rv), (cols[2], cv)]
                ok = all(isinstance(x, ast.Subscript) and ast.dump(x.value) == w[0] and isinstance(x.slice, ast.Name) and x.slice.id == w[1]
                         for x, w in zip(idx.elts, want))
            if not ok: self.no(s, 'array index is not (row mapping of the row key, column mapping of the column key)')
            if not (rows[0] == keys[0][2] and cols[0] == keys[1][2]):
                self.no(s, 'loop ranges are not the mappings that shape the array')
            f, fk, mon = self.lam(ast.Lambda(args=ast.arguments(posonlyargs=[], args=[ast.arg(arg=rv), ast.arg(arg=cv)], kwonlyargs=[],
                                                                 kw_defaults=[], defaults=[]), body=s.body[0].value),
                                  [keys[0][1], keys[1][1]])
            if fk != 'num': self.no(s, 'array entry is not a number')
            ln = name + '_'
            if mon:
                self.lines.append(f'let {ln} ← Py.Mat.tableM {keys[0][0]} {keys[1][0]} {f}'); self.monadic = True
            else:
                self.lines.append(f'let {ln} : Py.Mat K := Py.Mat.table {keys[0][0]} {keys[1][0]} {f}')
            self.env[name] = (ln, 'mat')
            return
        # pattern B: for c in C.keys: [x = network[c]]; if G: M[R[X]][C[c]] = v; …   (column-wise guarded writes)
        if isinstance(s.target, ast.Name):
            cv = s.target.id
            m, mk = self.ex(it)
            if not (isinstance(mk, tuple) and mk[0] == 'list' and isinstance(it, ast.Attribute) and it.attr == 'keys'):
                self.no(s, 'loop range is not mapping.keys')
            cmap = m[:-len('.keys')]
            name = None
            t = self.sub({cv: (cv, mk[1]), '__row': ('row', 'label')})
            t.lines.append('let q : K := 0')
            rows = cols = None
            for st in s.body:
                if isinstance(st, ast.Assign) and isinstance(st.targets[0], ast.Name):
                    v, k = t.ex(st.value)
                    t.env[st.targets[0].id] = (v, k)
                    continue
                if not (isinstance(st, ast.If) and not st.orelse and len(st.body) == 1 and isinstance(st.body[0], (ast.Assign, ast.AugAssign))):
                    self.no(st, 'column loop body outside the grammar')
                g = t.cond(st.test, 'prop')
                w = st.body[0]
                # `M[r][c] = v` overwrites the entry, `M[r][c] += v` / `-= v` accumulates into it
                aug = None
                if isinstance(w, ast.AugAssign):
                    aug = {'Add': '+', 'Sub': '-'}.get(type(w.op).__name__)
                    if aug is None: self.no(st, 'augmented write outside the grammar (only += and -=)')
                tg = w.target if aug else w.targets[0]
                if not (isinstance(tg, ast.Subscript) and isinstance(tg.value, ast.Subscript) and isinstance(tg.value.value, ast.Name)
                        and tg.value.value.id in self.pending):
                    self.no(st, 'guarded write does not target the pending array')
                name = tg.value.value.id
                rows, cols = self.pending[name]
                ri, ci = tg.value.slice, tg.slice
                if not (isinstance(ci, ast.Subscript) and ast.dump(ci.value) == cols[2] and isinstance(ci.slice, ast.Name) and ci.slice.id == cv):
                    self.no(st, 'column index is not the column mapping of the loop key')
                if not (isinstance(ri, ast.Subscript) and ast.dump(ri.value) == rows[2]):
                    self.no(st, 'row index is not taken from the row mapping')
                x, xk = t.ex(ri.slice)
                if xk != rows[1][1]: self.no(st, 'row key of the wrong kind')
                val = t.num(t.ex(w.value), w)
                if aug: val = f'(q {aug} {val})'
                t.lines.append(f'let q : K := if {g} ∧ {x} = row then {val} else q')
            if name is None: self.no(s, 'column loop without a write')
            self.pending.pop(name)
            if cols[0] != cmap: self.no(s, 'loop range is not the column mapping of the array')
            body = '\n'.join('    ' + l for l in t.lines)
            mon = any('←' in l for l in t.lines)
            ln = name + '_'
            if mon:
                self.lines.append(f'let {ln} ← Py.Mat.tableM {rows[0]}.keys {cols[0]}.keys (fun (row : {lean_ty(rows[1][1])}) ({cv} : {lean_ty(mk[1])}) => do\n{body}\n    pure q)')
                self.monadic = True
            else:
                self.lines.append(f'let {ln} : Py.Mat K := Py.Mat.table {rows[0]}.keys {cols[0]}.keys (fun (row : {lean_ty(rows[1][1])}) ({cv} : {lean_ty(mk[1])}) =>\n{body}\n    q)')
            self.env[name] = (ln, 'mat')
            return
        self.no(s, 'for-loop outside the grammar')

# --------------------------------------------------------------------------- templates (checked verbatim)

TEMPLATES = {
    (F_NET, 'Branch'): '''
@dataclass(frozen=True)
class Branch:
    node1 : str
    node2 : str
    element : elm.NortenTheveninElement

    @property
    def id(self) -> str:
        return self.element.name
''',
    (F_MAP, 'LabelMapping'): '''
@dataclass
class LabelMapping:
    mapping: dict[str, int]

    def __post_init__(self) -> None:
        if len(set(self.mapping.values())) != len(self.mapping):
            raise DistinctValues

    def __getitem__(self, label: str) -> int:
        return self.mapping[label]

    def __call__(self, *labels: str) -> tuple[int, ...]:
        return tuple(self[label] for label in labels)

    @property
    def keys(self) -> list[str]:
        return list(self.mapping.keys())

    @property
    def values(self) -> list[int]:
        return list(self.mapping.values())

    @property
    def N(self) -> int:
        return len(self.mapping)

    def __iter__(self):
        return iter(self.mapping.keys())
''',
    (F_MAP, 'filter'): '''
def filter(mapping: LabelMapping, filter_fcn: Callable[[str], bool]) -> LabelMapping:
    return LabelMapping({k: mapping[k] for k in mapping.keys if filter_fcn(k)})
''',
}

SOL_TEMPLATE_HEAD = '''
@dataclass
class NodalAnalysisSolution(ABC):
    network: Network
    node_mapper: map.NetworkMapper = map.default_node_mapper
    current_source_mapper: map.SourceIndexMapper = map.alphabetic_current_source_mapper
    voltage_source_mapper: map.SourceIndexMapper = map.alphabetic_voltage_source_mapper

    @property
    def _node_mapping(self) -> map.LabelMapping:
        return self.node_mapper(self.network)

    @property
    def _current_source_mapping(self) -> map.LabelMapping:
        return self.current_source_mapper(self.network)

    @property
    def _voltage_source_mapping(self) -> map.LabelMapping:
        return self.voltage_source_mapper(self.network)
'''

def find(tree, name, kind=(ast.FunctionDef, ast.ClassDef)):
    for s in tree.body:
        if isinstance(s, kind) and s.name == name:
            return s
    return None

def strip_doc(body):
    return [s for s in body if not (isinstance(s, ast.Expr) and isinstance(s.value, ast.Constant) and isinstance(s.value.value, str))]

def dataclass_fields(cls):
    return [(s.target.id, s.value) for s in cls.body if isinstance(s, ast.AnnAssign) and isinstance(s.target, ast.Name)]

# --------------------------------------------------------------------------- generator

class Gen:
    TR = Tr

    def __init__(self, src):
        self.src = src
        self.trees = {f: parse(src, f) for f in (F_ELM, F_NET, F_MAP, F_NA, F_BP, F_SOL)}
        self.fns = {}            # module-level functions callable by bare name
        self.net_props = {}; self.net_methods = {}
        self.sol_maps = {}; self.sol_map_kind = {}; self.sol_props = {}; self.sol_methods = {}
        self.sol_mapper_fields = {}
        self.fn_getitem = None
        self.out = []

    def w(self, s=''):
        self.out.append(s)

    # ---- checks
    def check_template(self, rel, name):
        node = find(self.trees[rel], name)
        want = ast.parse(TEMPLATES[(rel, name)]).body[0]
        if node is None or ast.dump(node) != ast.dump(want):
            refuse(rel, node, f'{name} differs from the text the translator was written for (CC.Py.{name} models it)')

    def mapper_by_name(self, attr, node=None):
        tree = self.trees[F_MAP]
        seen = set()
        while attr not in self.fns or not getattr(self.fns[attr], 'is_mapper', False):
            if attr in seen: refuse(F_MAP, node, f'mapper alias cycle at {attr}')
            seen.add(attr)
            tgt = None
            for s in tree.body:
                if isinstance(s, ast.Assign) and len(s.targets) == 1 and isinstance(s.targets[0], ast.Name) and s.targets[0].id == attr \
                        and isinstance(s.value, ast.Name):
                    tgt = s.value.id
            if tgt is None: refuse(F_MAP, node, f'{attr} is not a mapper')
            attr = tgt
        return self.fns[attr]

    def mappers_of(self, rel, fd, n_plain):
        """mapper parameters (after the first n_plain parameters) with their defaults"""
        args = fd.args.args
        defaults = [None] * (len(args) - len(fd.args.defaults)) + list(fd.args.defaults)
        ms = {}
        for a, d in list(zip(args, defaults))[n_plain:]:
            if not (isinstance(d, ast.Attribute) and isinstance(d.value, ast.Name) and d.value.id == 'map'):
                refuse(rel, fd, f'{fd.name}: parameter {a.arg} without a map.<mapper> default')
            ms[a.arg] = self.mapper_by_name(d.attr, fd)
        return ms

    # ---- rendering
    def render(self, name, binders, ret, tr, doc, force_monadic=False):
        mon = tr.monadic or force_monadic
        rt = lean_ty(ret)
        lines = []
        for l in tr.lines:
            ind = len(l) - len(l.lstrip(' '))
            body = l.lstrip(' ')
            if body.startswith('RET '):
                v = body[4:]
                body = (f'pure {v}' if v.replace('_', '').isalnum() or v == '()' else f'pure ({v})') if mon else v
            elif body.startswith('THROW '):
                body = f'throw Err{body[6:]}'
            lines.append(' ' * ind + body)
        self.w(f'/-- {doc} -/')
        if mon:
            self.w(f'def {name} {binders} : Except Err ({rt}) := do')
        else:
            self.w(f'def {name} {binders} : {rt} :=')
        for l in lines:
            self.w('  ' + l)
        self.w()
        return mon

    def translate(self, rel, fd, lean, params, ret, selfkind=None, extra_env=None, mappers=None, doc=None,
                  closure=None, extra_binders='', prefix_binders=None, want_x=False, force_monadic=False, body=None):
        """translate one function; params: [(python name, kind)] (without self / mapper params)"""
        env = dict(extra_env or {})
        for p, k in params:
            env[p] = (p, k)
        for mn, mf in (mappers or {}).items():
            env[mn] = (mn, ('mapper', mf))
        if selfkind == 'network':
            env['__self_net'] = ('self', 'net')
        if selfkind == 'solution':
            env['__self_net'] = ('network', 'net')
        if closure:
            env.update(closure)
        tr = self.TR(self, rel, env, selfkind)
        tr.want = ret; tr.want_x = want_x; tr.pending = {}
        tr.block(strip_doc(fd.body) if body is None else body)
        if tr.pending:
            refuse(rel, fd, f'{fd.name}: array {sorted(tr.pending)} is allocated but not filled by a recognised loop')
        bs = prefix_binders if prefix_binders is not None else ''
        bs = (bs + ' ' if bs else '') + ' '.join(f'({p} : {lean_ty(k)})' for p, k in params)
        if extra_binders: bs = extra_binders + ' ' + bs
        mon = self.render(lean, bs.strip(), ret, tr, doc or f'{fd.name} ({rel.split("/")[-1]}:{fd.lineno})', force_monadic)
        fn = Fn(lean, params, ret, mon)
        fn.mappers = mappers or {}
        return fn

    def sig(self, rel, fd, names, n_self=0):
        got = [a.arg for a in fd.args.args]
        if got[:len(names) + n_self] != (['self'] * n_self) + names or fd.args.vararg or fd.args.kwarg or fd.args.kwonlyargs:
            refuse(rel, fd, f'{fd.name}: parameters {got} do not start with {names}')

    # ---- elements.py
    def elem_property(self, cls, fields, name):
        """try: return E  except ZeroDivisionError: return np.inf | np.nan"""
        m = next((s for s in cls.body if isinstance(s, ast.FunctionDef) and s.name == name), None)
        if m is None or not (len(m.decorator_list) == 1 and isinstance(m.decorator_list[0], ast.Name) and m.decorator_list[0].id == 'property'):
            refuse(F_ELM, m or cls, f'{cls.name}.{name} is not a property')
        body = strip_doc(m.body)
        ok = (len(body) == 1 and isinstance(body[0], ast.Try) and len(body[0].body) == 1 and isinstance(body[0].body[0], ast.Return)
              and len(body[0].handlers) == 1 and not body[0].orelse and not body[0].finalbody
              and isinstance(body[0].handlers[0].type, ast.Name) and body[0].handlers[0].type.id == 'ZeroDivisionError'
              and len(body[0].handlers[0].body) == 1 and isinstance(body[0].handlers[0].body[0], ast.Return))
        if not ok: refuse(F_ELM, m, f'{cls.name}.{name}: not `try: return E / except ZeroDivisionError: return …`')
        exc = body[0].handlers[0].body[0].value
        if is_np(exc, 'inf'): xv = 'Py.XVal.inf'
        elif is_np(exc, 'nan'): xv = 'Py.XVal.nan'
        else: refuse(F_ELM, m, f'{cls.name}.{name}: exceptional value is neither np.inf nor np.nan')
        E = body[0].body[0].value
        if not (isinstance(E, ast.BinOp) and isinstance(E.op, ast.Div)):
            refuse(F_ELM, m, f'{cls.name}.{name}: the guarded expression is not a single division')
        env = {}
        tr = Tr(self, F_ELM, env, 'record'); tr.fields = fields
        num = tr.num(tr.ex(E.left), E); den = tr.num(tr.ex(E.right), E)
        if any(isinstance(x, ast.BinOp) and isinstance(x.op, ast.Div) for x in ast.walk(E.left)) or \
           any(isinstance(x, ast.BinOp) and isinstance(x.op, ast.Div) for x in ast.walk(E.right)):
            refuse(F_ELM, m, f'{cls.name}.{name}: more than one division under the ZeroDivisionError guard')
        bs = ' '.join(fields)
        self.w(f'/-- {cls.name}.{name} (elements.py:{m.lineno}) -/')
        self.w(f'def {cls.name}.{name} ({bs} : K) : Py.XVal K :=')
        self.w(f'  if {den} = 0 then {xv} else Py.XVal.fin ({num} / {den})')
        self.w()

    def factory(self, tree, name, records):
        fd = find(tree, name, ast.FunctionDef)
        if fd is None: refuse(F_ELM, tree, f'factory {name} not found')
        args = [a.arg for a in fd.args.args]
        defaults = [None] * (len(args) - len(fd.args.defaults)) + list(fd.args.defaults)
        if not args or args[0] != 'name' or fd.args.vararg or fd.args.kwarg or fd.args.kwonlyargs:
            refuse(F_ELM, fd, f'{name}: signature outside the grammar')
        body = strip_doc(fd.body)
        if not (len(body) == 1 and isinstance(body[0], ast.Return) and isinstance(body[0].value, ast.Call)
                and isinstance(body[0].value.func, ast.Name) and body[0].value.func.id in records and not body[0].value.args):
            refuse(F_ELM, fd, f'{name}: body is not `return <Record>(…keywords…)`')
        call = body[0].value
        rec = call.func.id
        kws = {k.arg: k.value for k in call.keywords}
        fields = records[rec]
        if sorted(kws) != sorted(['name', 'type'] + fields):
            refuse(F_ELM, fd, f'{name}: keywords {sorted(kws)} ≠ fields of {rec}')
        if not (isinstance(kws['name'], ast.Name) and kws['name'].id == 'name'):
            refuse(F_ELM, fd, f'{name}: name= is not the name parameter')
        if not (isinstance(kws['type'], ast.Constant) and isinstance(kws['type'].value, str)):
            refuse(F_ELM, fd, f'{name}: type= is not a string literal')
        env = {a: (a, 'num') for a in args[1:]}
        tr = Tr(self, F_ELM, env)
        vals = [tr.num(tr.ex(kws[f]), fd) for f in fields]
        bs = ['(name : String)']
        for a, d in list(zip(args, defaults))[1:]:
            if d is None: bs.append(f'({a} : K)')
            else:
                dv = tr.num(tr.ex(d), fd)
                bs.append(f'({a} : K := {dv})')
        ctor = 'Elem.norton' if rec == 'NortenElement' else 'Elem.thevenin'
        self.w(f'/-- {name} (elements.py:{fd.lineno}): (name, type, record) -/')
        self.w(f'def {name} {" ".join(bs)} : String × String × Elem K :=')
        self.w(f'  (name, {lean_str(kws["type"].value)}, {ctor} {" ".join(vals)})')
        self.w()

    def run(self):
        w = self.w
        w('/- GENERATED by harness/extract_core.py from src/CircuitCalculator/Network/{elements,network}.py and')
        w('   Network/NodalAnalysis/{label_mapping,node_analysis,bias_point_analysis,solution}.py — do not edit. -/')
        w('import CC.Model.CoreBase')
        w('set_option linter.unusedVariables false')
        w('namespace CC.Gen.Core')
        w('open CC')
        w()
        w('section')
        w('variable {L K : Type} [DecidableEq L] [LabelOrd L]')
        w('variable [Zero K] [One K] [Add K] [Mul K] [Neg K] [Sub K] [Inv K] [Div K] [DecidableEq K]')
        w()
        # ------------------------------------------------------------ elements.py
        te = self.trees[F_ELM]
        records = {}
        for cname, want in (('NortenElement', ['Z', 'V']), ('TheveninElement', ['Y', 'I'])):
            cls = find(te, cname, ast.ClassDef)
            if cls is None: refuse(F_ELM, te, f'class {cname} not found')
            fs = [f for f, _ in dataclass_fields(cls)]
            if fs != ['name', 'type'] + want:
                refuse(F_ELM, cls, f'{cname}: fields {fs} ≠ name, type, {want}')
            records[cname] = want
            props = sorted(s.name for s in cls.body if isinstance(s, ast.FunctionDef))
            others = sorted(set('ZYVI') - set(want))
            if props != others: refuse(F_ELM, cls, f'{cname}: properties {props} ≠ {others}')
        w('/-! ### elements.py -/'); w()
        for cname in ('NortenElement', 'TheveninElement'):
            cls = find(te, cname, ast.ClassDef)
            for p in sorted(set('ZYVI') - set(records[cname]), key='ZYVI'.index):
                self.elem_property(cls, records[cname], p)
        for a in 'ZYVI':
            w(f'/-- `element.{a}`: a dataclass field is the stored number, a property is computed -/')
            w(f'def Elem.{a} : Elem K → Py.XVal K')
            nf, tf = records['NortenElement'], records['TheveninElement']
            w(f'  | .norton {" ".join(nf)} => ' + (f'Py.XVal.fin {a}' if a in nf else f'NortenElement.{a} {" ".join(nf)}'))
            w(f'  | .thevenin {" ".join(tf)} => ' + (f'Py.XVal.fin {a}' if a in tf else f'TheveninElement.{a} {" ".join(tf)}'))
            w()
        for pn in ('is_voltage_source', 'is_current_source', 'is_ideal_voltage_source', 'is_ideal_current_source', 'is_active',
                   'is_short_circuit', 'is_open_circuit'):
            fd = find(te, pn, ast.FunctionDef)
            if fd is None: refuse(F_ELM, te, f'{pn} not found')
            self.sig(F_ELM, fd, ['element'])
            if len(fd.args.args) != 1: refuse(F_ELM, fd, f'{pn}: extra parameters')
            self.fns[pn] = self.translate(F_ELM, fd, pn, [('element', 'elem')], 'bool')
        for fn in ('impedance', 'admittance', 'resistor', 'conductor', 'voltage_source', 'current_source', 'open_circuit', 'short_circuit'):
            self.factory(te, fn, records)
        # ------------------------------------------------------------ network.py
        tn = self.trees[F_NET]
        w('/-! ### network.py -/'); w()
        self.check_template(F_NET, 'Branch')
        ncls = find(tn, 'Network', ast.ClassDef)
        if ncls is None or [f for f, _ in dataclass_fields(ncls)] != ['branches', 'node_zero_label']:
            refuse(F_NET, ncls, 'Network: fields ≠ branches, node_zero_label')
        meth = {s.name: s for s in ncls.body if isinstance(s, ast.FunctionDef)}
        def need(n):
            if n not in meth: refuse(F_NET, ncls, f'Network.{n} not found')
            return meth[n]
        def isprop(fd):
            return len(fd.decorator_list) == 1 and isinstance(fd.decorator_list[0], ast.Name) and fd.decorator_list[0].id == 'property'
        SB = '(self : Net L K)'
        for pn, ret in (('branch_ids', ('list', 'id')), ('node_labels', ('list', 'label')), ('number_of_nodes', 'nat')):
            fd = need(pn)
            if not isprop(fd): refuse(F_NET, fd, f'Network.{pn} is not a property')
            self.sig(F_NET, fd, [], 1)
            self.net_props[pn] = self.translate(F_NET, fd, f'Network.{pn}', [], ret, selfkind='network', prefix_binders=SB)
        fd = need('__post_init__'); self.sig(F_NET, fd, [], 1)
        self.translate(F_NET, fd, 'Network.post_init', [], 'unit', selfkind='network', prefix_binders=SB, force_monadic=True)
        fd = need('branches_connected_to'); self.sig(F_NET, fd, ['node'], 1)
        self.net_methods['branches_connected_to'] = self.translate(F_NET, fd, 'Network.branches_connected_to', [('node', 'label')],
                                                                   ('list', 'branch'), selfkind='network', prefix_binders=SB)
        fd = need('branches_between'); self.sig(F_NET, fd, ['node1', 'node2'], 1)
        self.net_methods['branches_between'] = self.translate(F_NET, fd, 'Network.branches_between', [('node1', 'label'), ('node2', 'label')],
                                                              ('list', 'branch'), selfkind='network', prefix_binders=SB)
        fd = need('__getitem__'); self.sig(F_NET, fd, ['id'], 1)
        self.fn_getitem = Fn('Network.getitem', [('id', 'id')], 'branch', True)      # forward declaration for the translator
        g = self.translate(F_NET, fd, 'Network.getitem', [('id', 'id')], 'branch', selfkind='network', prefix_binders=SB)
        if not g.monadic: refuse(F_NET, fd, 'Network.__getitem__ is not a dictionary look-up')
        # ------------------------------------------------------------ label_mapping.py
        tm = self.trees[F_MAP]
        w('/-! ### label_mapping.py -/'); w()
        self.check_template(F_MAP, 'LabelMapping')
        self.check_template(F_MAP, 'filter')
        for mn, kind in (('alphabetic_node_mapper', 'label'), ('alphabetic_source_mapper', 'id'),
                         ('alphabetic_current_source_mapper', 'id'), ('alphabetic_voltage_source_mapper', 'id')):
            fd = find(tm, mn, ast.FunctionDef)
            if fd is None: refuse(F_MAP, tm, f'{mn} not found')
            self.sig(F_MAP, fd, ['network'])
            if len(fd.args.args) != 1: refuse(F_MAP, fd, f'{mn}: extra parameters')
            f = self.translate(F_MAP, fd, mn, [('network', 'net')], ('map', kind))
            f.is_mapper = True
            self.fns[mn] = f
        # ------------------------------------------------------------ node_analysis.py
        ta = self.trees[F_NA]
        w('/-! ### node_analysis.py -/'); w()
        def na(name, plain, ret, nested=None):
            fd = find(ta, name, ast.FunctionDef)
            if fd is None: refuse(F_NA, ta, f'{name} not found')
            self.sig(F_NA, fd, [p for p, _ in plain])
            ms = self.mappers_of(F_NA, fd, len(plain))
            extra = {}
            if nested:
                nname, nparams, nret = nested
                nd = next((s for s in fd.body if isinstance(s, ast.FunctionDef) and s.name == nname), None)
                if nd is None: refuse(F_NA, fd, f'{name}: nested function {nname} not found')
                self.sig(F_NA, nd, [p for p, _ in nparams])
                if len(nd.args.args) != len(nparams): refuse(F_NA, nd, f'{nname}: extra parameters')
                closure = {'network': ('network', 'net')}
                for s in fd.body:      # aliases of the network bound in the enclosing function
                    if isinstance(s, ast.Assign) and len(s.targets) == 1 and isinstance(s.targets[0], ast.Name) \
                            and isinstance(s.value, ast.Name) and s.value.id == 'network':
                        closure[s.targets[0].id] = ('network', 'net')
                nf = self.translate(F_NA, nd, nname, nparams, nret, closure=closure, prefix_binders='(network : Net L K)')
                nf.extra = 'network'
                extra[nname] = (nname, ('fn', nf))
            f = self.translate(F_NA, fd, name, plain, ret, mappers=ms, extra_env=extra)
            self.fns[name] = f
            return f
        NETP = [('network', 'net')]
        na('admittance_connected_to', NETP + [('node', 'label')], 'num')
        na('admittance_between', NETP + [('node1', 'label'), ('node2', 'label')], 'num')
        na('node_admittance_matrix', NETP, 'mat', nested=('node_matrix_element', [('i_label', 'label'), ('j_label', 'label')], 'num'))
        na('voltage_source_incidence_matrix', NETP, 'mat', nested=('voltage_source_direction', [('voltage_source', 'id'), ('node', 'label')], 'num'))
        na('nodal_analysis_coefficient_matrix', NETP, 'mat')
        na('source_incidence_matrix', NETP, 'mat')
        na('current_source_vector', NETP, 'vec')
        na('current_source_incidence_vector', NETP, 'vec')
        na('nodal_analysis_constants_vector', NETP, 'vec')
        # ------------------------------------------------------------ solution.py / bias_point_analysis.py
        ts = self.trees[F_SOL]; tb = self.trees[F_BP]
        w('/-! ### solution.py, bias_point_analysis.py — `self` is (network, x = self._solution_vector) -/'); w()
        scls = find(ts, 'NodalAnalysisSolution', ast.ClassDef)
        want = ast.parse(SOL_TEMPLATE_HEAD).body[0]
        if scls is None or [ast.dump(x) for x in scls.body[:len(want.body)]] != [ast.dump(x) for x in want.body] \
                or ast.dump(scls.decorator_list[0]) != ast.dump(want.decorator_list[0]) or [ast.dump(b) for b in scls.bases] != [ast.dump(b) for b in want.bases]:
            refuse(F_SOL, scls, 'NodalAnalysisSolution: fields / mapping properties differ from the text the translator was written for')
        self.sol_mapper_fields = {'node_mapper': self.mapper_by_name('default_node_mapper'),
                                  'current_source_mapper': self.fns['alphabetic_current_source_mapper'],
                                  'voltage_source_mapper': self.fns['alphabetic_voltage_source_mapper']}
        self.sol_maps = {'_node_mapping': self.sol_mapper_fields['node_mapper'].lean,
                         '_current_source_mapping': 'alphabetic_current_source_mapper',
                         '_voltage_source_mapping': 'alphabetic_voltage_source_mapper'}
        self.sol_map_kind = {'_node_mapping': 'label', '_current_source_mapping': 'id', '_voltage_source_mapping': 'id'}
        bcls = find(tb, 'NodalAnalysisBiasPointSolution', ast.ClassDef)
        if bcls is None or not (len(bcls.bases) == 1 and isinstance(bcls.bases[0], ast.Name) and bcls.bases[0].id == 'NodalAnalysisSolution'):
            refuse(F_BP, bcls, 'NodalAnalysisBiasPointSolution(NodalAnalysisSolution) not found')
        if dataclass_fields(bcls): refuse(F_BP, bcls, 'NodalAnalysisBiasPointSolution has fields of its own')
        bm = {s.name: s for s in bcls.body if isinstance(s, ast.FunctionDef)}
        sm = {s.name: s for s in scls.body if isinstance(s, ast.FunctionDef)}
        if sorted(bm) != ['__post_init__', '_potentials', '_voltage_source_currents', 'get_current', 'get_potential']:
            refuse(F_BP, bcls, f'NodalAnalysisBiasPointSolution: methods {sorted(bm)} outside the grammar')
        PB = '(network : Net L K) (x : List K)'
        for pn in ('_potentials', '_voltage_source_currents'):
            fd = bm[pn]
            if not isprop(fd): refuse(F_BP, fd, f'{pn} is not a property')
            self.sol_props[pn] = self.translate(F_BP, fd, 'Solution.' + pn.strip('_'), [], 'vec', selfkind='solution', prefix_binders=PB)
        fd = bm['get_potential']; self.sig(F_BP, fd, ['node_id'], 1)
        self.sol_methods['get_potential'] = self.translate(F_BP, fd, 'Solution.get_potential', [('node_id', 'label')], 'num',
                                                           selfkind='solution', prefix_binders=PB)
        fd = sm.get('get_voltage')
        if fd is None: refuse(F_SOL, scls, 'get_voltage not found')
        self.sig(F_SOL, fd, ['branch_id'], 1)
        self.sol_methods['get_voltage'] = self.translate(F_SOL, fd, 'Solution.get_voltage', [('branch_id', 'id')], 'num',
                                                         selfkind='solution', prefix_binders=PB)
        fd = bm['get_current']; self.sig(F_BP, fd, ['branch_id'], 1)
        self.sol_methods['get_current'] = self.translate(F_BP, fd, 'Solution.get_current', [('branch_id', 'id')], 'num',
                                                         selfkind='solution', prefix_binders=PB)
        fd = sm.get('get_power')
        if fd is None: refuse(F_SOL, scls, 'get_power not found')
        self.sig(F_SOL, fd, ['branch_id'], 1)
        self.translate(F_SOL, fd, 'Solution.get_power', [('branch_id', 'id')], 'num', selfkind='solution',
                       prefix_binders='(conj : K → K) ' + PB)
        self.post_init(bm['__post_init__'])
        w('end'); w()
        w('end CC.Gen.Core')
        return '\n'.join(self.out) + '\n'

    def post_init(self, fd):
        """A = …; b = …; try: x = np.linalg.solve(A, b) except LinAlgError: x = zeros(size b); if any(isnan(x)): x = zeros(size b)"""
        body = strip_doc(fd.body)
        tmpl = ast.parse('''
def __post_init__(self) -> None:
    try:
        self._solution_vector = np.linalg.solve(A, b)
    except np.linalg.LinAlgError:
        self._solution_vector = np.zeros(np.size(b))
    if np.any(np.isnan(self._solution_vector)):
        self._solution_vector = np.zeros(np.size(b))
''').body[0].body
        if len(body) != 4 or [ast.dump(x) for x in body[2:]] != [ast.dump(x) for x in tmpl]:
            refuse(F_BP, fd, '__post_init__: solve / LinAlgError / nan fallback differs from the text the translator was written for')
        for s, n in zip(body[:2], ('A', 'b')):
            if not (isinstance(s, ast.Assign) and len(s.targets) == 1 and isinstance(s.targets[0], ast.Name) and s.targets[0].id == n):
                refuse(F_BP, s, f'__post_init__: statement does not assign {n}')
        ret = ast.Return(value=ast.Name(id='__x', ctx=ast.Load()))
        env = {'__self_net': ('network', 'net')}
        tr = Tr(self, F_BP, env, 'solution')
        tr.want = 'vec'; tr.want_x = False; tr.pending = {}
        # the two assignments through the ordinary statement translator, then the fixed tail
        def tail():
            pass
        tr_block = body[:2]
        for s in tr_block:
            v, k = tr.ex(s.value)
            n = s.targets[0].id
            ln = n + '_' if n == 'A' else n
            tr.lines.append(f'let {ln} : {lean_ty(k)} := {v}')
            tr.env[n] = (ln, k)
        if tr.env['A'][1] != 'mat' or tr.env['b'][1] != 'vec': refuse(F_BP, fd, '__post_init__: A / b of the wrong kind')
        tr.lines.append('let x : List K := match solve A_ b with')
        tr.lines.append('  | some x => x')
        tr.lines.append('  | none => Py.zerosVec (b).length')
        tr.lines.append('let x : List K := if anyNan x = true then Py.zerosVec (b).length else x')
        tr.lines.append('RET x')
        self.render('Solution.solution_vector', '(solve : Py.Mat K → List K → Option (List K)) (anyNan : List K → Bool) (network : Net L K)',
                    'vec', tr, f'NodalAnalysisBiasPointSolution.__post_init__ (bias_point_analysis.py:{fd.lineno}): `np.linalg.solve` and `np.any(np.isnan(·))` are parameters')


@generator('Core.lean')
def gen_core(src):
    return Gen(src).run()
