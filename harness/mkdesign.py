#!/venv/bin/python
"""mkdesign.py — refresh the generated tables of DESIGN.md §10 (findings, seeded catch matrix)
between their BEGIN/END markers from known_findings.json and seeded/*/meta.json."""
import json, re, subprocess
from pathlib import Path
ROOT = Path(__file__).resolve().parent.parent
kf = json.loads((ROOT / 'known_findings.json').read_text())
def esc(s): return s.replace('|', '\\|').replace('\n', ' ')
rows = ['| property | status | finding (failing input) | matcher of the canonical failing input |', '|---|---|---|---|']
for e in sorted(kf, key=lambda e: (e['status'] != 'open', e['property'])):
    st = 'open' if e['status'] == 'open' else f"fixed `{e.get('commit', '')}`"
    what = re.sub(r'^(open|fixed): property=C\d+ (\w+ )?', '', e['what'])
    rows.append(f"| {e['property']} | {st} | {esc(what)[:420]} | `{esc(json.dumps(e['matcher'], ensure_ascii=False))[:260]}` |")
findings = '\n'.join(rows)
seeds = subprocess.run(['/venv/bin/python', str(ROOT / 'harness' / 'seedreport.py')], capture_output=True, text=True).stdout
seeds = '\n'.join(l for l in seeds.splitlines() if not l.startswith('WARNING'))
import importlib, sys
sys.path.insert(0, str(ROOT / 'harness'))
st = ['| id | theorems audited on every run | generated (translator) Lean files the theorems depend on | open statements (not claimed as proved) |', '|---|---|---|---|']
gen_by_prop = {'C01': 'Gen/Core', 'C02': 'Gen/{Components,Transform,CircuitTables}', 'C07': 'Gen/{Components,Transform,CircuitTables}',
               'C19': 'Gen/{Components,CircuitTables}', 'C08': 'Gen/Fourier', 'C17': 'Gen/LoadTables', 'C20': 'Gen/Effects',
               'C18': 'Gen/{FmtTables,FmtGuard}', 'C14': 'Gen/AnnotTables', 'C13': 'Gen/DrawTables', 'C15': 'Gen/DrawTables', 'C06': 'Gen/{PortImports,Port}', 'C09': 'Gen/Freq', 'C03': 'Gen/Freq',
               'C12': 'Gen/{StateSpace,Solution}', 'C10': 'Gen/{StateSpace,StateWrap}', 'C11': 'Gen/StateWrap', 'C05': 'Gen/Solution', 'C16': 'Gen/Transformers', 'C04': 'Gen/Transformers'}
for i in range(1, 21):
    pid = f'C{i:02d}'
    try:
        m = importlib.import_module(f'props.{pid.lower()}')
    except Exception as ex:
        st.append(f'| {pid} | (module does not import: {ex}) | | |'); continue
    gens = sorted({x for x in getattr(m, 'LEAN_MODULE_EXTRA', []) if 'Gen' in x})
    gen = gen_by_prop.get(pid, '—') + (('; ' + ', '.join(gens)) if gens else '')
    op = '; '.join(getattr(m, 'OPEN_STATEMENTS', [])) or '—'
    st.append(f"| {pid} | {len(getattr(m, 'THEOREMS', []))} | {gen} | {esc(op)[:400]} |")
status = '\n'.join(st)
d = (ROOT / 'DESIGN.md').read_text()
for name, body in (('findings', findings), ('seeded', seeds), ('status', status)):
    b, e = f'<!-- BEGIN:{name} -->', f'<!-- END:{name} -->'
    if b in d:
        d = d[:d.index(b) + len(b)] + '\n' + body + '\n' + d[d.index(e):]
(ROOT / 'DESIGN.md').write_text(d)
print('DESIGN.md tables refreshed:', len(kf), 'findings')
