#!/venv/bin/python
"""mkdesign.py — refresh the generated tables of DESIGN.md §10 (findings, seeded catch matrix)
between their BEGIN/END markers from known_findings.json and seeded/*/meta.json."""
import json, re, subprocess
from pathlib import Path
ROOT = Path(__file__).resolve().parent.parent
kf = json.loads((ROOT / 'known_findings.json').read_text())
def esc(s): return s.replace('|', '\\|').replace('\n', ' ')
rows = ['| property | status | finding (failing input) | matcher of the canonical failing input |', '|---|---|---|---|']
for e in sorted(kf, key=lambda e: (e['status'] != 'open', e['property'])):
    st = 'open' if e['status'] == 'open' else f"fixed `{e.get('commit', '')}`"
    what = re.sub(r'^(open|fixed): property=C\d+ (\w+ )?', '', e['what'])
    rows.append(f"| {e['property']} | {st} | {esc(what)[:420]} | `{esc(json.dumps(e['matcher'], ensure_ascii=False))[:260]}` |")
findings = '\n'.join(rows)
seeds = subprocess.run(['/venv/bin/python', str(ROOT / 'harness' / 'seedreport.py')], capture_output=True, text=True).stdout
seeds = '\n'.join(l for l in seeds.splitlines() if not l.startswith('WARNING'))
d = (ROOT / 'DESIGN.md').read_text()
for name, body in (('findings', findings), ('seeded', seeds)):
    b, e = f'<!-- BEGIN:{name} -->', f'<!-- END:{name} -->'
    if b in d:
        d = d[:d.index(b) + len(b)] + '\n' + body + '\n' + d[d.index(e):]
(ROOT / 'DESIGN.md').write_text(d)
print('DESIGN.md tables refreshed:', len(kf), 'findings')
