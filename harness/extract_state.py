"""
extract_state.py — translator for the state-space builder (C10–C12).

  Network/NodalAnalysis/state_space_model.py, Circuit/state_space_model.py,
  SignalProcessing/state_space_model.py   →   lean/CC/Gen/StateSpace.lean

Same discipline as extract_core.py (whose expression / statement translator it extends): every
function body is translated statement by statement into a Lean `def` over the data types of the
hand-written models, using only the idioms of CC/Model/CoreBase.lean and CC/Model/StateBase.lean
(`CC.Py`).  CC/Properties/C10Gen.lean proves each generated definition equal to the hand-written
CC/Model/StateSpace.lean.  `np.linalg.inv` is the parameter `inv`, `.real` the parameter `re`.

Additional kinds: dict (`ValDict K`, a Python dict of numbers keyed by branch id), arr (`Py.Arr K`, an
array whose rank depends on the branch taken), rows (a 2-d array kept as its rows), pair/tuple, comp
(a circuit component `(type, id, value-of-key)`), nssm (the `NodalStateSpaceModel` object).
Additional statements: tuple unpacking, `v[k] = x`, and four more array loops (see `for_`).
"""
from __future__ import annotations
import ast, copy
import extract_core as ec
from extract import generator, parse, lean_str, ExtractError
from extract_core import refuse, is_np, Fn, find, strip_doc, dataclass_fields

F_SS = 'Network/NodalAnalysis/state_space_model.py'
F_CSS = 'Circuit/state_space_model.py'
F_SP = 'SignalProcessing/state_space_model.py'

_core_lean_ty = ec.lean_ty
def lean_ty(t):
    if isinstance(t, tuple) and t[0] == 'tuple':
        return ' × '.join(f'({lean_ty(x)})' for x in t[1])
    if isinstance(t, tuple) and t[0] in ('list', 'set'):
        return f'List ({lean_ty(t[1])})'
    m = {'dict': 'ValDict K', 'arr': 'Py.Arr K', 'rows': 'List (List K)', 'nssm': 'NodalStateSpaceModel L K',
         'comp': 'String × String × (String → K)'}
    if t in m: return m[t]
    return _core_lean_ty(t)
ec.lean_ty = lean_ty

def const_int(e):
    return isinstance(e, ast.Constant) and isinstance(e.value, int) and not isinstance(e.value, bool)


class TrS(ec.Tr):
    RENAME = ('I', 'V', 'Y', 'Z', 'Q', 'A', 'B', 'C', 'D')

    def local_name(self, n):
        return n + '_' if n in self.RENAME else n

    # ---- expressions
    def ex(self, e):
        if isinstance(e, ast.UnaryOp) and isinstance(e.op, ast.UAdd) and const_int(e.operand) and e.operand.value == 1:
            return ('1', 'num')
        if isinstance(e, ast.UnaryOp) and isinstance(e.op, ast.USub) and not const_int(e.operand):
            v, k = self.ex(e.operand)
            if k == 'mat': return (f'(Py.Mat.neg {v})', 'mat')
            if k in ('num', 'xval'): return (f'(-({self.num((v, k), e)}))', 'num')
            self.no(e, f'negation of a {k}')
        if isinstance(e, ast.Tuple):
            xs = [self.ex(x) for x in e.elts]
            return ('(' + ', '.join(x[0] for x in xs) + ')', ('tuple', tuple(x[1] for x in xs)))
        if isinstance(e, ast.BinOp):
            exi = lambda x: (str(x.value), 'intlit') if (const_int(x) and x.value not in (0, 1)) else self.ex(x)
            l = exi(e.left); r = exi(e.right)
            lk, rk = l[1], r[1]
            if isinstance(e.op, ast.Add):
                if lk == 'nat' and rk == 'nat': return (f'({l[0]} + {r[0]})', 'nat')
                if lk == 'nat' and const_int(e.right) and e.right.value >= 0: return (f'({l[0]} + {e.right.value})', 'nat')
                if rk == 'nat' and const_int(e.left) and e.left.value >= 0: return (f'({e.left.value} + {r[0]})', 'nat')
                if isinstance(lk, tuple) and lk[0] == 'list' and lk == rk: return (f'({l[0]} ++ {r[0]})', lk)
            if isinstance(e.op, ast.MatMult):
                if lk == 'mat' and rk == 'mat': return (f'(Py.Mat.mul {l[0]} {r[0]})', 'mat')
                if lk == 'mat' and rk == 'vec': return (f'(({l[0]}).mulVec {r[0]})', 'vec')
            if isinstance(e.op, ast.Sub):
                if lk == 'mat' and rk == 'mat': return (f'(Py.Mat.sub {l[0]} {r[0]})', 'mat')
                if lk == 'arr' and rk == 'arr': return (f'(Py.Arr.sub {l[0]} {r[0]})', 'arr')
            if isinstance(e.op, ast.Mult):
                if lk in ('num', 'xval') and rk == 'vec': return (f'(Py.vecScale {self.num(l, e)} {r[0]})', 'vec')
            if isinstance(e.op, ast.Div):
                if lk == 'arr' and rk == 'xval': return (f'(Py.Arr.divX {l[0]} {r[0]})', 'arr')
            sym = {'Add': '+', 'Sub': '-', 'Mult': '*', 'Div': '/'}.get(type(e.op).__name__)
            if sym and lk in ('num', 'xval') and rk in ('num', 'xval'):
                return (f'({self.num(l, e)} {sym} {self.num(r, e)})', 'num')
            self.no(e, f'operator {type(e.op).__name__} on a {lk} and a {rk} outside the grammar')
        return super().ex(e)

    def attr(self, e):
        if isinstance(e.value, ast.Name) and e.value.id == 'self' and self.selfkind in ('nssm', 'ssmshape'):
            return self.self_attr(e)
        if e.attr == 'real':
            b, k = self.ex(e.value)
            if k == 'mat': return (f'(Py.Mat.map re {b})', 'mat')
            self.no(e, f'.real of a {k}')
        if isinstance(e.value, ast.Name) and e.value.id in self.env and self.env[e.value.id][1] in ('nssm', 'comp', 'shape4'):
            b, k = self.env[e.value.id]
            return self.obj_attr(e, b, k)
        return super().attr(e)

    def obj_attr(self, e, b, k):
        a = e.attr
        if k == 'nssm':
            f = self.g.nssm_fields.get(a)
            if f: return (f'{b}.{a}', f)
            if a in self.g.sp_props:
                return (f'({self.g.sp_props[a]} {b})', 'nat')
            self.no(e, f'attribute .{a} of the state-space model outside the grammar')
        if k == 'comp':
            if a == 'type': return (f'{b}.1', 'id')
            if a == 'id': return (f'{b}.2.1', 'id')
            self.no(e, f'attribute .{a} of a component outside the grammar')
        self.no(e, f'attribute .{a} outside the grammar')

    def self_attr(self, e):
        if self.selfkind == 'nssm':
            return self.obj_attr(e, 'self', 'nssm')
        if self.selfkind == 'ssmshape':
            if e.attr in ('A', 'B', 'C', 'D'): return (e.attr, 'shape')
            self.no(e, f'self.{e.attr} outside the grammar')
        return super().self_attr(e)

    def subscript(self, e):
        s = e.slice
        # shape of a shape-only matrix
        if isinstance(e.value, ast.Attribute) and e.value.attr == 'shape' and const_int(s) and s.value in (0, 1):
            inner = e.value.value
            b, k = self.ex(inner)
            if k == 'shape': return (f'{b}.{s.value + 1}', 'nat')
            if k == 'mat': return (f'{b}.{"nrows" if s.value == 0 else "ncols"}', 'nat')
            self.no(e, f'.shape of a {k}')
        # M[:, cols]
        if isinstance(s, ast.Tuple) and len(s.elts) == 2 and isinstance(s.elts[0], ast.Slice) \
                and s.elts[0].lower is None and s.elts[0].upper is None and s.elts[0].step is None:
            b, k = self.ex(e.value); c, ck = self.ex(s.elts[1])
            if k == 'mat' and ck == ('list', 'nat'): return (f'(Py.Mat.selectCols {b} {c})', 'mat')
            self.no(e, f'column selection of a {k} by a {ck}')
        # M[:][a:b]  (rows a … b−1 as a 2-d array)  /  M[k][:]  (row k as a 1-d array)
        if isinstance(s, ast.Slice) and isinstance(e.value, ast.Subscript):
            iv = e.value
            full = lambda sl: isinstance(sl, ast.Slice) and sl.lower is None and sl.upper is None and sl.step is None
            if full(iv.slice) and s.lower is not None and s.upper is not None and s.step is None:
                b, k = self.ex(iv.value)
                lo, lk = self.ex(s.lower); hi, hk = self.ex(s.upper)
                if k == 'mat' and lk == 'nat' and hk == 'nat':
                    return (f'(Py.Mat.rowSlice {b} {lo} {hi})', 'rows')
            if full(s):
                b, k = self.ex(iv.value); i, ik = self.ex(iv.slice)
                if k == 'mat' and ik == 'nat': return (f'(Py.Mat.row {b} {i})', 'vec')
            self.no(e, 'row access outside the grammar (only M[:][a:b] and M[k][:])')
        if not isinstance(s, ast.Slice) and not isinstance(e.value, ast.DictComp):
            b, k = self.ex(e.value)
            if k == 'dict':
                i, ik = self.ex(s)
                if ik != 'id': self.no(e, 'dictionary key is not a branch id')
                v = self.bind(f'Py.dictItem {b} {i}', 'v', key=('dictitem', b, i))
                return (v, 'num')
            if k == 'comp_value':
                if isinstance(s, ast.Constant) and isinstance(s.value, str):
                    return (f'({b} {lean_str(s.value)})', 'num')
                self.no(e, 'component value key is not a string literal')
        return super().subscript(e)

    def cond(self, c, mode):
        P = mode == 'prop'
        if isinstance(c, ast.Compare) and len(c.ops) == 1 and isinstance(c.ops[0], (ast.In, ast.NotIn)):
            a, ak = self.ex(c.left); b, bk = self.ex(c.comparators[0])
            keys = None
            if bk == 'dict' and ak == 'id': keys = f'({b}).keys'
            elif isinstance(bk, tuple) and bk[0] == 'map' and bk[1] == ak: keys = f'{b}.keys'
            if keys is not None:
                p = f'{a} ∈ {keys}' if isinstance(c.ops[0], ast.In) else f'{a} ∉ {keys}'
                return f'({p})' if P else f'(decide ({p}))'
        return super().cond(c, mode)

    def call(self, e):
        f = e.func
        g = self.g
        if isinstance(f, ast.Name):
            n = f.id
            if n == 'len' and len(e.args) == 1 and not (isinstance(e.args[0], ast.Call) and isinstance(e.args[0].func, ast.Name)):
                x, k = self.ex(e.args[0])
                if k == 'dict': return (f'({x}).length', 'nat')
            if n == 'sorted' and len(e.args) == 1 and not e.keywords and isinstance(e.args[0], ast.Name) \
                    and self.env.get(e.args[0].id, (None, None))[1] == 'dict':
                return (f'(sortL ({self.env[e.args[0].id][0]}).keys)', ('list', 'id'))
            if n == 'float' and len(e.args) == 1 and not e.keywords:
                x = self.ex(e.args[0]); return (self.num(x, e), 'num')
            if n == 'NodalStateSpaceModel' and not e.args:
                kws = {k.arg: self.ex(k.value) for k in e.keywords}
                if sorted(kws) != sorted(g.nssm_fields): self.no(e, 'NodalStateSpaceModel(…): keywords ≠ fields')
                parts = []
                for fld, kind in g.nssm_fields.items():
                    v, k = kws[fld]
                    if k != kind: self.no(e, f'NodalStateSpaceModel(…): {fld} is a {k}, expected {kind}')
                    parts.append(f'{fld} := {v}')
                return ('{ ' + ', '.join(parts) + ' }', 'nssm')
        if isinstance(f, ast.Attribute):
            # np.linalg.inv
            if isinstance(f.value, ast.Attribute) and is_np(f.value, 'linalg') and f.attr == 'inv' and len(e.args) == 1 and not e.keywords:
                x, k = self.ex(e.args[0])
                if k != 'mat': self.no(e, 'np.linalg.inv of a non-matrix')
                return (f'(inv {x})', 'mat')
            if isinstance(f.value, ast.Name) and f.value.id == 'map' and 'map' not in self.env and f.attr not in ('filter',) and f.attr not in g.fns:
                fn = g.mapper_by_name(f.attr, e)
                a, k = self.ex(e.args[0])
                if k != 'net' or len(e.args) != 1 or e.keywords: self.no(e, 'mapper applied to something else than the network')
                return (f'({fn.lean} {a})', fn.ret)
            # dict methods
            if f.attr in ('values', 'keys') and not e.args:
                b, k = self.ex(f.value) if not (isinstance(f.value, ast.Attribute) and False) else (None, None)
                if k == 'dict':
                    return (f'({b}).vals', ('list', 'num')) if f.attr == 'values' else (f'({b}).keys', ('list', 'id'))
            # list(d.keys()).index(k)
            if f.attr == 'index' and len(e.args) == 1 and isinstance(f.value, ast.Call) and isinstance(f.value.func, ast.Name) \
                    and f.value.func.id == 'list' and len(f.value.args) == 1:
                inner = f.value.args[0]
                if isinstance(inner, ast.Call) and isinstance(inner.func, ast.Attribute) and inner.func.attr == 'keys' and not inner.args:
                    d, dk = self.ex(inner.func.value); key, kk = self.ex(e.args[0])
                    if dk == 'dict' and kk == 'id':
                        v = self.bind(f'Py.keyIndex {d} {key}', 'i', key=('keyindex', d, key))
                        return (v, 'nat')
                self.no(e, '.index outside the grammar (only list(d.keys()).index(k))')
            # methods of the state-space model object
            if isinstance(f.value, ast.Name) and f.value.id in self.env and self.env[f.value.id][1] == 'nssm' and f.attr in g.nssm_methods:
                return self.apply(g.nssm_methods[f.attr], e, e.args, prefix=self.env[f.value.id][0])
            if isinstance(f.value, ast.Name) and f.value.id == 'self' and self.selfkind == 'nssm' and f.attr in g.nssm_methods:
                return self.apply(g.nssm_methods[f.attr], e, e.args, prefix='self')
        return super().call(e)

    def apply(self, fn, e, args, prefix=None):
        if getattr(fn, 'pre', None):
            prefix = (fn.pre + (' ' + prefix if prefix else ''))
        self.check_forwarding(fn, e, args)
        return super().apply(fn, e, args, prefix)

    def check_forwarding(self, fn, e, args):
        """A function that HAS index-mapper parameters must hand them on to every callee that takes a mapper of the
        same class: omitting the keyword lets the callee fall back to its default map while the caller assembles the
        rest with the map it was given (the defect repaired by 4559c7d).  Every forwarded pair is recorded and
        emitted as `mapper_forwarding`."""
        callee = getattr(fn, 'mappers', None) or {}
        caller = {n: v[1][1] for n, v in self.env.items() if isinstance(v[1], tuple) and len(v[1]) == 2 and v[1][0] == 'mapper'}
        if not callee or not caller or self.rel not in (F_SS, F_CSS):
            return
        given = {k.arg: k.value for k in e.keywords}
        extra = list(args[len(fn.params):])
        for (mn, _), a in zip(callee.items(), extra):
            given.setdefault(mn, a)
        for mn, mf in callee.items():
            cands = [cn for cn, cf in caller.items() if cf is mf]
            if not cands:
                continue
            val = given.get(mn)
            if val is None:
                self.no(e, f'{fn.lean}(…): the mapper parameter {mn} is not forwarded — the callee would use its default map '
                           f'while this function was given {"/".join(cands)}')
            if not (isinstance(val, ast.Name) and val.id in cands):
                self.no(e, f'{fn.lean}(…): {mn} is not one of the mapper parameters {cands} of the calling function')
            self.g.forwarding.append((getattr(e, 'lineno', 0), fn.lean, mn, val.id))

    def np_call(self, e):
        n = e.func.attr
        if n == 'diag' and len(e.args) == 1 and not e.keywords:
            x, k = self.ex(e.args[0])
            if k in (('list', 'num'), 'vec'): return (f'(Py.Mat.diag {x})', 'mat')
            if k == 'mat': return (f'(Py.Mat.diagOf {x})', 'vec')
            self.no(e, f'np.diag of a {k}')
        if n == 'zeros' and len(e.args) == 1 and isinstance(e.args[0], ast.Tuple) and len(e.args[0].elts) == 2 and not e.keywords:
            a = e.args[0].elts
            def natof(x):
                if const_int(x) and x.value >= 0: return str(x.value)
                v, k = self.ex(x)
                if k != 'nat': self.no(e, 'np.zeros shape is not a pair of counts')
                return v
            return (f'(Py.Mat.zeros {natof(a[0])} {natof(a[1])})', 'mat')
        if n == 'ndarray' and not e.args and len(e.keywords) == 1 and e.keywords[0].arg == 'shape':
            sh = e.keywords[0].value
            if isinstance(sh, ast.Tuple) and len(sh.elts) == 2 and const_int(sh.elts[0]) and sh.elts[0].value == 0:
                v, k = self.ex(sh.elts[1])
                if k == 'nat': return ('([] : List (List K))', 'rows')
            self.no(e, 'np.ndarray outside the grammar (only an array without rows)')
        return super().np_call(e)

    def lam(self, la, kinds, as_num=False):
        la = copy.deepcopy(la)
        ren = {a.arg: a.arg + '_' for a in la.args.args if a.arg in ('L', 'K', 'C', 'D')}
        if ren:
            for a in la.args.args:
                a.arg = ren.get(a.arg, a.arg)
            for x in ast.walk(la.body):
                if isinstance(x, ast.Name) and x.id in ren: x.id = ren[x.id]
        return super().lam(la, kinds, as_num)

    def comp(self, e, as_num=False):
        gen = e.generators[0] if len(e.generators) == 1 else None
        if gen is not None:
            # iteration over a dict = its keys; over a 1-d array = its entries
            try_iter = gen.iter
            src, sk = self.ex(try_iter)
            new = None
            if sk == 'dict': new = (f'({src}).keys', ('list', 'id'))
            elif sk == 'vec': new = (src, ('list', 'num'))
            if new is not None:
                tmp = '__it%d' % id(e)
                self.env[tmp] = new
                e2 = copy.deepcopy(e); e2.generators[0].iter = ast.Name(id=tmp, ctx=ast.Load())
                try:
                    return super().comp(e2, as_num)
                finally:
                    del self.env[tmp]
        return super().comp(e, as_num)

    # ---- returns
    def emit_ret(self, e):
        if e is not None and self.want == 'arr':
            v, k = self.ex(e)
            if k == 'arr': pass
            elif k == 'vec': v = f'Py.Arr.vec {v}'
            elif k == 'rows': v = f'Py.Arr.mat {v}'
            elif k == 'mat': v = f'Py.Arr.mat ({v}).rows'
            else: self.no(e, f'returns a {k} where an array is expected')
            self.lines.append(f'RET {v}'); return
        if e is not None and isinstance(self.want, tuple) and self.want[0] == 'tuple':
            v, k = self.ex(e)
            if k != self.want: self.no(e, f'returns {k} where {self.want} is expected')
            self.lines.append(f'RET {v}'); return
        return super().emit_ret(e)

    # ---- statements
    def block(self, stmts):
        if stmts:
            s, rest = stmts[0], stmts[1:]
            # tuple unpacking
            if isinstance(s, ast.Assign) and len(s.targets) == 1 and isinstance(s.targets[0], ast.Tuple) \
                    and all(isinstance(t, ast.Name) for t in s.targets[0].elts):
                v, k = self.ex(s.value)
                names = [t.id for t in s.targets[0].elts]
                if not (isinstance(k, tuple) and k[0] == 'tuple' and len(k[1]) == len(names)): self.no(s, 'tuple unpacking of a non-tuple')
                lns = [self.local_name(n) for n in names]
                self.lines.append(f'let ({", ".join(lns)}) := {v}')
                for n, ln, kk in zip(names, lns, k[1]):
                    self.env[n] = (ln, kk)
                return self.block(rest)
            # v[k] = x
            if isinstance(s, ast.Assign) and len(s.targets) == 1 and isinstance(s.targets[0], ast.Subscript) \
                    and isinstance(s.targets[0].value, ast.Name) and self.env.get(s.targets[0].value.id, (None, None))[1] == 'vec':
                n = s.targets[0].value.id
                i, ik = self.ex(s.targets[0].slice)
                if ik != 'nat': self.no(s, 'item assignment index is not a position')
                x = self.num(self.ex(s.value), s)
                ln = self.env[n][0]
                self.lines.append(f'let {ln} ← Py.vecSet {ln} {i} {x}'); self.monadic = True
                return self.block(rest)
        return super().block(stmts)

    def is_zero_table(self, v):
        if not (isinstance(v, ast.Call) and is_np(v.func, 'zeros') and len(v.args) == 1 and isinstance(v.args[0], ast.Tuple)
                and len(v.args[0].elts) == 2):
            return False
        def ok(x):
            return (isinstance(x, ast.Attribute) and x.attr == 'N') or \
                   (isinstance(x, ast.Call) and isinstance(x.func, ast.Name) and x.func.id == 'len' and len(x.args) == 1
                    and isinstance(x.args[0], ast.Name) and self.env.get(x.args[0].id, (None, None))[1] == 'dict')
        return all(ok(x) for x in v.args[0].elts)

    def zero_table(self, v):
        for kw in v.keywords:
            if not (kw.arg == 'dtype' and isinstance(kw.value, ast.Name) and kw.value.id in ('complex', 'int')):
                self.no(v, 'np.zeros keyword outside the grammar')
        maps = []
        for x in v.args[0].elts:
            src = x.value if isinstance(x, ast.Attribute) else x.args[0]
            m, mk = self.ex(src)
            if not ((isinstance(mk, tuple) and mk[0] == 'map') or mk == 'dict'): self.no(v, 'np.zeros shape is not (mapping.N | len(dict), …)')
            maps.append((m, mk, ast.dump(src)))
        return maps

    def for_(self, s):
        it = s.iter
        # pattern D:  for i in M.values: Q[i][i] = 1      (Q = zeros((M.N, M.N)))  →  identity
        if isinstance(s.target, ast.Name) and isinstance(it, ast.Attribute) and it.attr == 'values' and len(s.body) == 1 \
                and isinstance(s.body[0], ast.Assign):
            m, mk = self.ex(it.value)
            w = s.body[0]; tg = w.targets[0]; i = s.target.id
            ok = (isinstance(mk, tuple) and mk[0] == 'map' and isinstance(tg, ast.Subscript) and isinstance(tg.value, ast.Subscript)
                  and isinstance(tg.value.value, ast.Name) and tg.value.value.id in self.pending
                  and isinstance(tg.slice, ast.Name) and tg.slice.id == i and isinstance(tg.value.slice, ast.Name) and tg.value.slice.id == i
                  and const_int(w.value) and w.value.value == 1)
            if ok:
                name = tg.value.value.id
                rows, cols = self.pending.pop(name)
                if not (rows[0] == m and cols[0] == m): self.no(s, 'diagonal fill of an array not shaped by that mapping')
                ln = self.local_name(name)
                self.lines.append(f'let {ln} : Py.Mat K := Py.Mat.identity {m}.N')
                self.env[name] = (ln, 'mat')
                return
            self.no(s, 'loop over mapping.values outside the grammar (only the diagonal fill)')
        # pattern E:  for (k, value), (c) in itertools.product(enumerate(D), M): if g: A[k][M(c)] = v …
        if isinstance(it, ast.Call) and isinstance(it.func, ast.Attribute) and it.func.attr == 'product' and len(it.args) == 2 \
                and isinstance(it.args[0], ast.Call) and isinstance(it.args[0].func, ast.Name) and it.args[0].func.id == 'enumerate':
            tg = s.target
            if not (isinstance(tg, ast.Tuple) and len(tg.elts) == 2 and isinstance(tg.elts[0], ast.Tuple) and len(tg.elts[0].elts) == 2
                    and all(isinstance(x, ast.Name) for x in tg.elts[0].elts) and isinstance(tg.elts[1], ast.Name)) or it.keywords:
                self.no(s, 'loop target outside the grammar')
            kv, rv = [x.id for x in tg.elts[0].elts]; cv = tg.elts[1].id
            d, dk = self.ex(it.args[0].args[0]); m, mk = self.ex(it.args[1])
            if dk != 'dict' or not (isinstance(mk, tuple) and mk[0] == 'map'): self.no(s, 'loop ranges are not enumerate(dict) × mapping')
            t = self.sub({rv: (rv, 'id'), cv: (cv, mk[1])})
            t.lines.append('let q : K := 0')
            name = None
            for st in s.body:
                if not (isinstance(st, ast.If) and not st.orelse and len(st.body) == 1 and isinstance(st.body[0], ast.Assign)):
                    self.no(st, 'loop body outside the grammar')
                gcond = t.cond(st.test, 'prop')
                w = st.body[0]; wt = w.targets[0]
                if not (isinstance(wt, ast.Subscript) and isinstance(wt.value, ast.Subscript) and isinstance(wt.value.value, ast.Name)
                        and wt.value.value.id in self.pending and isinstance(wt.value.slice, ast.Name) and wt.value.slice.id == kv):
                    self.no(st, 'guarded write does not target row k of the pending array')
                name = wt.value.value.id
                rows, cols = self.pending[name]
                ci = wt.slice
                okc = (isinstance(ci, ast.Call) and ast.dump(ci.func) == cols[2] and len(ci.args) == 1 and isinstance(ci.args[0], ast.Name) and ci.args[0].id == cv) \
                    or (isinstance(ci, ast.Subscript) and ast.dump(ci.value) == cols[2] and isinstance(ci.slice, ast.Name) and ci.slice.id == cv)
                if not okc: self.no(st, 'column index is not the column mapping of the loop key')
                val = t.num(t.ex(w.value), w)
                t.lines.append(f'let q : K := if {gcond} then {val} else q')
            if name is None: self.no(s, 'loop without a write')
            rows, cols = self.pending.pop(name)
            if not (rows[0] == d and cols[0] == m): self.no(s, 'loop ranges are not the dictionary / mapping that shape the array')
            body = '\n'.join('    ' + l for l in t.lines)
            ln = self.local_name(name)
            self.lines.append(f'let {ln} ← Py.Mat.tableM ({d}).keys {m}.keys (fun ({rv} : String) ({cv} : {lean_ty(mk[1])}) => do\n{body}\n    pure q)')
            self.monadic = True
            self.env[name] = (ln, 'mat')
            return
        # pattern F:  for id in ids: ACC = np.vstack([ACC, f(id)])
        if isinstance(s.target, ast.Name) and len(s.body) == 1 and isinstance(s.body[0], ast.Assign) \
                and isinstance(s.body[0].targets[0], ast.Name) and isinstance(s.body[0].value, ast.Call) and is_np(s.body[0].value.func, 'vstack'):
            acc = s.body[0].targets[0].id
            call = s.body[0].value
            ids, ik = self.ex(it)
            if not (isinstance(ik, tuple) and ik[0] == 'list'): self.no(s, 'loop range is not a list')
            if not (len(call.args) == 1 and isinstance(call.args[0], ast.List) and len(call.args[0].elts) == 2
                    and isinstance(call.args[0].elts[0], ast.Name) and call.args[0].elts[0].id == acc and self.env.get(acc, (None, None))[1] == 'rows'):
                self.no(s, 'accumulation outside the grammar (only ACC = np.vstack([ACC, f(id)]))')
            v = s.target.id
            t = self.sub({v: (v, ik[1]), acc: ('acc', 'rows')})
            r, rk = t.ex(call.args[0].elts[1])
            if rk != 'arr': self.no(s, 'stacked value is not an output row')
            body = '\n'.join('    ' + l for l in t.lines)
            ln = self.env[acc][0]
            self.lines.append(f'let {ln} ← {ids}.foldlM (fun (acc : List (List K)) ({v} : {lean_ty(ik[1])}) => do\n{body}\n    pure (Py.vstackArr acc {r})) {ln}')
            self.monadic = True
            return
        return super().for_(s)


class GenS(ec.Gen):
    TR = TrS

    def __init__(self, src):
        super().__init__(src)
        self.forwarding = []          # (line, callee, callee mapper parameter, forwarded caller parameter)
        super().run()                 # populates the tables of the core functions (output discarded)
        self.out = []
        self.trees.update({f: parse(src, f) for f in (F_SS, F_CSS, F_SP)})
        self.nssm_fields = {}; self.nssm_methods = {}; self.sp_props = {}

    def run(self):
        w = self.w
        w('/- GENERATED by harness/extract_state.py from src/CircuitCalculator/Network/NodalAnalysis/state_space_model.py,')
        w('   Circuit/state_space_model.py and SignalProcessing/state_space_model.py — do not edit. -/')
        w('import CC.Gen.Core')
        w('import CC.Model.StateBase')
        w('set_option linter.unusedVariables false')
        w('namespace CC.Gen.State')
        w('open CC CC.Gen.Core')
        w()
        w('section')
        w('variable {L K : Type} [DecidableEq L] [LabelOrd L]')
        w('variable [Zero K] [One K] [Add K] [Mul K] [Neg K] [Sub K] [Inv K] [Div K] [DecidableEq K]')
        w()
        t = self.trees[F_SS]
        # ------------------------------------------------------------ state_space_matrices
        fd = find(t, 'state_space_matrices', ast.FunctionDef)
        if fd is None: refuse(F_SS, t, 'state_space_matrices not found')
        self.sig(F_SS, fd, ['network', 'c_values', 'l_values'])
        defaults = fd.args.defaults
        for d in defaults[:2]:
            if not (isinstance(d, ast.Dict) and not d.keys): refuse(F_SS, fd, 'default of c_values / l_values is not {}')
        fd2 = copy.deepcopy(fd); fd2.args.defaults = fd.args.defaults[2:]
        ms = self.mappers_of(F_SS, fd2, 3)
        closure = {'network': ('network', 'net')}
        for mn, mf in ms.items():
            closure[mn] = (mn, ('mapper', mf))
        PRE = '(inv : Py.Mat K → Py.Mat K) (re : K → K) (network : Net L K)'
        nested = {}
        specs = [('element_incidence_matrix', [('values', 'dict')], 'mat'),
                 ('source_and_inductance_incidence_matrix', [('values', 'dict')], ('tuple', ('mat', 'mat'))),
                 ('value_matrix', [('c_values', 'dict'), ('l_values', 'dict')], 'mat')]
        got = [s.name for s in fd.body if isinstance(s, ast.FunctionDef)]
        if got != [n for n, _, _ in specs]: refuse(F_SS, fd, f'nested functions {got} outside the grammar')
        for nname, nparams, nret in specs:
            nd = next(s for s in fd.body if isinstance(s, ast.FunctionDef) and s.name == nname)
            self.sig(F_SS, nd, [p for p, _ in nparams])
            if len(nd.args.args) != len(nparams): refuse(F_SS, nd, f'{nname}: extra parameters')
            nf = self.translate(F_SS, nd, nname, nparams, nret, closure=closure, prefix_binders=PRE)
            nf.extra = 'inv re network'
            nested[nname] = (nname, ('fn', nf))
        main = self.translate(F_SS, fd, 'state_space_matrices', [('c_values', 'dict'), ('l_values', 'dict')],
                              ('tuple', ('mat', 'mat', 'mat', 'mat')), mappers=ms, extra_env={**nested, 'network': ('network', 'net')},
                              prefix_binders=PRE)
        main.params = [('network', 'net'), ('c_values', 'dict'), ('l_values', 'dict')]
        main.pre = 'inv re'
        self.fns['state_space_matrices'] = main
        # ------------------------------------------------------------ SignalProcessing.StateSpaceModel
        tsp = self.trees[F_SP]
        sp = find(tsp, 'StateSpaceModel', ast.ClassDef)
        if sp is None or [f for f, _ in dataclass_fields(sp)] != ['A', 'B', 'C', 'D']:
            refuse(F_SP, sp, 'StateSpaceModel: fields ≠ A, B, C, D')
        # ------------------------------------------------------------ NodalStateSpaceModel
        cls = find(t, 'NodalStateSpaceModel', ast.ClassDef)
        if cls is None or not (len(cls.bases) == 1 and ast.dump(cls.bases[0]) == ast.dump(ast.parse('sp.StateSpaceModel', mode='eval').body)):
            refuse(F_SS, cls, 'NodalStateSpaceModel(sp.StateSpaceModel) not found')
        own = [f for f, _ in dataclass_fields(cls)]
        want = ['network', 'c_values', 'l_values', 'node_index_mapping', 'voltage_source_index_mapping', 'current_source_index_mapping']
        if own != want: refuse(F_SS, cls, f'NodalStateSpaceModel: fields {own} ≠ {want}')
        self.nssm_fields = {'A': 'mat', 'B': 'mat', 'C': 'mat', 'D': 'mat', 'network': 'net', 'c_values': 'dict', 'l_values': 'dict',
                            'node_index_mapping': ('map', 'label'), 'voltage_source_index_mapping': ('map', 'id'),
                            'current_source_index_mapping': ('map', 'id')}
        w('/-- NodalStateSpaceModel (with the inherited A, B, C, D) -/')
        w('structure NodalStateSpaceModel (L K : Type) where')
        for f, k in self.nssm_fields.items():
            w(f'  {f} : {lean_ty(k)}')
        w()
        # n_states / n_inputs / n_outputs of the container
        for pn in ('n_states', 'n_inputs', 'n_outputs'):
            pd = next((s for s in sp.body if isinstance(s, ast.FunctionDef) and s.name == pn), None)
            if pd is None: refuse(F_SP, sp, f'StateSpaceModel.{pn} not found')
            f = self.translate(F_SP, pd, f'NodalStateSpaceModel.{pn}', [], 'nat', selfkind='nssm',
                               prefix_binders='(self : NodalStateSpaceModel L K)')
            self.sp_props[pn] = f'NodalStateSpaceModel.{pn}'
        SB = '(self : NodalStateSpaceModel L K)'
        meth = {s.name: s for s in cls.body if isinstance(s, ast.FunctionDef)}
        order = [('_row_for_potential', [('node_id', 'label'), ('matrix', 'mat')], 'arr'),
                 ('c_row_for_potential', [('node_id', 'label')], 'arr'),
                 ('c_row_voltage', [('branch_id', 'id')], 'arr'),
                 ('c_row_current', [('branch_id', 'id')], 'arr'),
                 ('d_row_for_potential', [('node_id', 'label')], 'arr'),
                 ('d_row_voltage', [('branch_id', 'id')], 'arr'),
                 ('d_row_current', [('branch_id', 'id')], 'arr'),
                 ('sources', [], ('list', 'id'))]
        extra = sorted(set(meth) - {n for n, _, _ in order} - {'_one_vector'})
        if extra: refuse(F_SS, cls, f'NodalStateSpaceModel: methods {extra} outside the grammar')
        for mn, params, ret in order:
            md = meth.get(mn)
            if md is None: refuse(F_SS, cls, f'NodalStateSpaceModel.{mn} not found')
            self.sig(F_SS, md, [p for p, _ in params], 1)
            if len(md.args.args) != len(params) + 1: refuse(F_SS, md, f'{mn}: extra parameters')
            lean = 'NodalStateSpaceModel.' + mn.lstrip('_')
            f = self.translate(F_SS, md, lean, params, ret, selfkind='nssm', prefix_binders=SB)
            if mn == 'sources':
                self.nssm_fields_props = {'sources': f}
            self.nssm_methods[mn] = f
        # ------------------------------------------------------------ nodal_state_space_model
        fd = find(t, 'nodal_state_space_model', ast.FunctionDef)
        if fd is None: refuse(F_SS, t, 'nodal_state_space_model not found')
        self.sig(F_SS, fd, ['network', 'c_values', 'l_values'])
        fd2 = copy.deepcopy(fd); fd2.args.defaults = fd.args.defaults[2:]
        ms2 = self.mappers_of(F_SS, fd2, 3)
        # the mapper parameters of the callee are given by keyword under other names: check the pairing
        nsm = self.translate(F_SS, fd, 'nodal_state_space_model', [('network', 'net'), ('c_values', 'dict'), ('l_values', 'dict')], 'nssm',
                             mappers=ms2, prefix_binders='(inv : Py.Mat K → Py.Mat K) (re : K → K)')
        nsm.pre = 'inv re'
        self.fns['nodal_state_space_model'] = nsm
        # ------------------------------------------------------------ Circuit/state_space_model.py
        self.circuit_wrapper()
        # ------------------------------------------------------------ container checks
        self.container(sp)
        w('/-- index-mapper parameters handed on inside the state-space builder: (callee, its mapper parameter, the')
        w('caller\'s parameter it receives).  A callee that takes a map of the same class as one of the caller\'s parameters')
        w('must receive that parameter (otherwise the translator refuses); the definitions above are stated for the default')
        w('maps, this table shows that a non-default map reaches every place the default one is used in. -/')
        w('def mapper_forwarding : List (String × String × String) := [' +
          ', '.join(f'({lean_str(c)}, {lean_str(m)}, {lean_str(v)})' for _, c, m, v in sorted(set(self.forwarding))) + ']')
        w()
        w('end'); w()
        w('end CC.Gen.State')
        return '\n'.join(self.out) + '\n'

    def circuit_wrapper(self):
        w = self.w
        t = self.trees[F_CSS]
        fd = find(t, 'state_space_model', ast.FunctionDef)
        if fd is None: refuse(F_CSS, t, 'state_space_model not found')
        self.sig(F_CSS, fd, ['circuit', 'potential_nodes', 'voltage_ids', 'current_ids'])
        body = strip_doc(fd.body)
        s0 = body[0]
        ok = (isinstance(s0, ast.Assign) and len(s0.targets) == 1 and isinstance(s0.targets[0], ast.Name) and s0.targets[0].id == 'ssm'
              and isinstance(s0.value, ast.Call) and isinstance(s0.value.func, ast.Name) and s0.value.func.id == 'nodal_state_space_model'
              and not s0.value.args and [k.arg for k in s0.value.keywords] == ['network', 'c_values', 'l_values']
              and ast.dump(s0.value.keywords[0].value) == ast.dump(ast.parse('transform_circuit(circuit, w=0)', mode='eval').body))
        if not ok: refuse(F_CSS, s0, 'state_space_model: first statement is not ssm = nodal_state_space_model(network=transform_circuit(circuit, w=0), c_values=…, l_values=…)')
        for kw, lean in ((s0.value.keywords[1], 'circuit_c_values'), (s0.value.keywords[2], 'circuit_l_values')):
            dc = kw.value
            if not (isinstance(dc, ast.DictComp) and len(dc.generators) == 1 and not dc.generators[0].ifs and isinstance(dc.generators[0].target, ast.Name)):
                refuse(F_CSS, dc, 'value dictionary is not a dict comprehension')
            tr = TrS(self, F_CSS, {'__components': ('components', ('list', 'comp'))}, None)
            tr.want = 'dict'; tr.pending = {}
            # the inner list: [c for c in circuit.components if c.type == '…']
            inner = copy.deepcopy(dc.generators[0].iter)
            for x in ast.walk(inner):
                if isinstance(x, ast.Attribute) and x.attr == 'components' and isinstance(x.value, ast.Name) and x.value.id == 'circuit':
                    x.value = ast.Name(id='__circuit', ctx=ast.Load())
            class Fix(ast.NodeTransformer):
                def visit_Attribute(self_, node):
                    if node.attr == 'components' and isinstance(node.value, ast.Name) and node.value.id == 'circuit':
                        return ast.copy_location(ast.Name(id='__components', ctx=ast.Load()), node)
                    return self_.generic_visit(node)
            inner = Fix().visit(copy.deepcopy(dc.generators[0].iter))
            src, sk = tr.ex(inner)
            if sk != ('list', 'comp'): refuse(F_CSS, dc, 'value dictionary does not range over components')
            v0 = dc.generators[0].target.id
            v = v0 + '_' if v0 in ('L', 'K', 'C', 'D') else v0
            t2 = tr.sub({v0: (v, 'comp')})
            kc, kk = t2.ex(dc.key)
            # value: float(X.value['K'])
            val = dc.value
            if isinstance(val, ast.Call) and isinstance(val.func, ast.Name) and val.func.id == 'float' and len(val.args) == 1: val = val.args[0]
            if not (isinstance(val, ast.Subscript) and isinstance(val.value, ast.Attribute) and val.value.attr == 'value'
                    and isinstance(val.value.value, ast.Name) and val.value.value.id == v0 and isinstance(val.slice, ast.Constant)
                    and isinstance(val.slice.value, str)) or kk != 'id':
                refuse(F_CSS, dc, 'dictionary entry is not  X.id : float(X.value[<key>])')
            w(f'/-- {lean.replace("circuit_", "")} of the circuit-level wrapper (Circuit/state_space_model.py:{dc.lineno}); a component is (type, id, value-of-key) -/')
            w(f'def {lean} (components : List (String × String × (String → K))) : ValDict K :=')
            w(f'  {src}.map fun ({v} : String × String × (String → K)) => ({kc}, {v}.2.2 {lean_str(val.slice.value)})')
            w()
        # the rest: stacking
        rest = body[1:]
        last = rest[-1]
        ok = (isinstance(last, ast.Return) and isinstance(last.value, ast.Call) and isinstance(last.value.func, ast.Name)
              and last.value.func.id == 'StateSpaceModel' and not last.value.args
              and [k.arg for k in last.value.keywords] == ['A', 'B', 'C', 'D'])
        if not ok: refuse(F_CSS, last, 'state_space_model does not end in return StateSpaceModel(A=…, B=…, C=…, D=…)')
        ret = ast.Return(value=ast.Tuple(elts=[k.value for k in last.value.keywords], ctx=ast.Load()))
        self.translate(F_CSS, fd, 'circuit_state_space_model',
                       [('potential_nodes', ('list', 'label')), ('voltage_ids', ('list', 'id')), ('current_ids', ('list', 'id'))],
                       ('tuple', ('mat', 'mat', 'rows', 'rows')), extra_env={'ssm': ('ssm', 'nssm')},
                       prefix_binders='(ssm : NodalStateSpaceModel L K)', body=rest[:-1] + [ret],
                       doc=f'state_space_model (Circuit/state_space_model.py:{fd.lineno}) after `ssm = nodal_state_space_model(…)`: (A, B, C rows, D rows)')

    def container(self, sp):
        w = self.w
        pi = next((s for s in sp.body if isinstance(s, ast.FunctionDef) and s.name == '__post_init__'), None)
        if pi is None: refuse(F_SP, sp, 'StateSpaceModel.__post_init__ not found')
        tr = TrS(self, F_SP, {}, 'ssmshape')
        tr.want = 'unit'; tr.pending = {}
        lines = []
        msgs = []
        for i, st in enumerate(strip_doc(pi.body), 1):
            ok = (isinstance(st, ast.If) and not st.orelse and len(st.body) == 1 and isinstance(st.body[0], ast.Raise)
                  and isinstance(st.body[0].exc, ast.Call) and isinstance(st.body[0].exc.func, ast.Name) and st.body[0].exc.func.id == 'ValueError'
                  and len(st.body[0].exc.args) == 1 and isinstance(st.body[0].exc.args[0], ast.Constant))
            if not ok: refuse(F_SP, st, '__post_init__: statement is not `if a != b: raise ValueError(msg)`')
            lines.append((tr.cond(st.test, 'prop'), i))
            msgs.append(st.body[0].exc.args[0].value)
        w(f'/-- StateSpaceModel.__post_init__ (SignalProcessing/state_space_model.py:{pi.lineno}) on the shapes; the error is the number of the failing check -/')
        w('def container_post_init (A B C D : Nat × Nat) : Except Nat Unit :=')
        for c, i in lines:
            w(f'  if {c} then .error {i} else')
        w('  .ok ()')
        w()
        w('/-- the `ValueError` messages, in order -/')
        w('def container_messages : List String := [' + ', '.join(lean_str(m) for m in msgs) + ']')
        w()


@generator('StateSpace.lean')
def gen_state(src):
    return GenS(src).run()
