"""
gen_circuit.py — generators and adapters shared by the checks of group Circuit
(C07, C02, C19): component descriptions, circuits, JSON encodings for the driver,
the `trig` / `harm` parameter tables (numpy's own cos/sin and the repo's own harmonic
coefficients are *parameters* of the model and are passed through).

A component description is a plain dict  {fn, id, nodes, args}  with `fn` the name of a
constructor of Circuit/components.py.
"""
from __future__ import annotations
import math, inspect
from fractions import Fraction
import numpy as np
import core

EXC = {'FloatingGroundNode': 'FloatingGroundNode', 'AmbiguousBranchIDs': 'AmbiguousIDs',
       'AmbiguousComponentID': 'AmbiguousIDs', 'MultipleGroundNodes': 'MultipleGroundNodes',
       'KeyError': 'KeyError', 'IndexError': 'KeyError', 'ValueError': 'ValueError',
       'TypeError': 'TypeError', 'ZeroDivisionError': 'ZeroDivisionError', 'LinAlgError': 'LinAlgError',
       'AttributeError': 'AttributeError', 'UnknownCircuitComponent': 'UnknownKind',
       'UnknownWavetype': 'UnknownWavetype', 'IncorrectComponentInformation': 'IncorrectComponentInformation',
       'UnidentifiedComponent': 'UnidentifiedComponent', 'FileExistsError': 'FileExistsError',
       'FileFormatError': 'FileFormatError'}

def tag(e: BaseException) -> str:
    return EXC.get(type(e).__name__, type(e).__name__)

# --------------------------------------------------------------------------- JSON

def val_json(v):
    if isinstance(v, str):
        return {'s': v}
    if isinstance(v, (complex, np.complexfloating)):
        v = complex(v)
        return {'c': [core.q(v.real), core.q(v.imag)]}
    if isinstance(v, (bool, np.bool_)):
        raise TypeError('boolean value')
    if isinstance(v, (float, np.floating)) and math.isinf(v) and v > 0:
        return {'inf': True}
    return {'n': core.q(v)}

def is_real(x) -> bool:
    """a real number of any Python / numpy type (int, float, np.int64, np.float32, …), not a bool, not complex"""
    import numbers
    return isinstance(x, (numbers.Real, np.integer, np.floating)) and not isinstance(x, (bool, np.bool_))

NP_TYPES = {'np.float64': np.float64, 'np.float32': np.float32, 'np.int64': np.int64, 'np.int32': np.int32, 'np.complex128': np.complex128}

def tag_types(descs):
    """component descriptions with numpy-typed values made JSON-safe *and* type-preserving (for replay files):
    np.int64(3) ↦ {'__np__': 'np.int64', 'v': 3}; plain Python ints / floats / complex are kept by json as they are"""
    def enc(v):
        for name, ty in NP_TYPES.items():
            if type(v) is ty:
                return {'__np__': name, 'v': [float(v.real), float(v.imag)] if name == 'np.complex128' else v.item()}
        if isinstance(v, np.generic):
            return {'__np__': 'np.float64', 'v': float(v)}
        return v
    return [dict(d, args={k: enc(v) for k, v in d['args'].items()}) for d in descs]

def untag_types(descs):
    def dec(v):
        if isinstance(v, dict) and set(v) == {'__np__', 'v'}:
            ty = NP_TYPES[v['__np__']]
            return ty(complex(*v['v'])) if v['__np__'] == 'np.complex128' else ty(v['v'])
        return v
    return [dict(d, args={k: dec(v) for k, v in d['args'].items()}) for d in descs]

def pairs_json(d: dict):
    return [[k, val_json(v)] for k, v in d.items()]

def comp_json(c):
    """a live Component ↦ driver JSON"""
    return dict(kind=c.type, id=c.id, nodes=list(c.nodes), value=pairs_json(c.value))

def val_back(j):
    if 's' in j: return j['s']
    if 'inf' in j: return math.inf
    if 'c' in j: return complex(float(Fraction(j['c'][0])), float(Fraction(j['c'][1])))
    return Fraction(j['n'])

def comp_canon(c):
    """live Component ↦ comparable tuple (numbers as exact Fractions)"""
    def num(v):
        if isinstance(v, str): return v
        if isinstance(v, complex): return ('c', Fraction(v.real), Fraction(v.imag))
        if isinstance(v, float) and math.isinf(v): return 'inf'
        return Fraction(v)
    return (c.type, c.id, tuple(c.nodes), tuple((k, num(v)) for k, v in c.value.items()))

def comp_json_canon(j):
    def num(v):
        b = val_back(v)
        if isinstance(b, complex): return ('c', Fraction(b.real), Fraction(b.imag))
        if isinstance(b, float) and math.isinf(b): return 'inf'
        return b
    return (j['kind'], j['id'], tuple(j['nodes']), tuple((k, num(v)) for k, v in j['value']))

# --------------------------------------------------------------------------- parameters of the model

def trig_rows(phis):
    rows, seen = [], set()
    for p in phis:
        p = float(p)
        if not math.isfinite(p): continue
        k = core.q(p)
        if k in seen: continue
        seen.add(k)
        rows.append([k, core.q(float(np.cos(p))), core.q(float(np.sin(p)))])
    return rows

def params_for(components, w):
    """trig and harm tables for a list of live components at angular frequency w:
    every phase the translators can feed to np.cos/np.sin, and for every periodic source
    the harmonic coefficients the repo's own fourier_series reports (they are judged by C08) for the
    two integers next to w/w0 — the index itself is chosen by the model / the Spec, not here"""
    from CircuitCalculator.SignalProcessing.periodic_functions import periodic_function, fourier_series
    phis = [0.0]
    harm = []
    for c in components:
        v = c.value
        if 'phi' in v and is_real(v['phi']):            # whatever numeric type: the code calls float(value['phi'])
            phis.append(float(v['phi']))
        elif 'phi' in v and not isinstance(v['phi'], str):
            raise TypeError(f"harness: phase of unsupported type {type(v['phi']).__name__} — the trig table would miss it")
        if c.type in ('periodic_voltage_source', 'periodic_current_source'):
            try:
                w0 = float(v['w']); A = float(v['V' if c.type == 'periodic_voltage_source' else 'I']); phi = float(v['phi'])
                wt = str(v['wavetype'])
                fs = fourier_series(periodic_function(wt)(period=2 * np.pi / w0, amplitude=A, phase=phi))
                k = (Fraction(w) / Fraction(w0)).__floor__()
            except Exception:
                continue
            for n in (k, k + 1):
                try:
                    amp, ph = float(fs.amplitude(n)), float(fs.phase(n))
                except Exception:
                    continue
                if not (math.isfinite(amp) and math.isfinite(ph)):
                    continue
                harm.append([wt, core.q(A), core.q(phi), int(n), core.q(amp), core.q(ph)])
                phis.append(ph)
    return trig_rows(phis), harm

# --------------------------------------------------------------------------- live constructors

def constructors():
    """name ↦ function for every constructor of the live components module"""
    from CircuitCalculator.Circuit import components as ccp
    out = {}
    for name, f in vars(ccp).items():
        if inspect.isfunction(f) and f.__module__ == ccp.__name__ and name != 'is_active':
            out[name] = f
    return out

def build(desc):
    """description ↦ live Component (may raise); `fn='__raw__'` builds the dataclass directly
    (`kind` = its type string, `args` = its value dictionary) — a component no constructor produced"""
    if desc['fn'] == '__raw__':
        from CircuitCalculator.Circuit.components import Component
        return Component(type=desc['kind'], id=desc['id'], nodes=tuple(desc['nodes']), value=dict(desc['args']))
    f = constructors()[desc['fn']]
    kw = dict(desc['args'])
    if desc.get('id') is not None: kw['id'] = desc['id']
    if desc.get('nodes') is not None: kw['nodes'] = tuple(desc['nodes'])
    return f(**kw)

def construct_request(desc):
    return dict(fn=desc['fn'], id=desc.get('id'), nodes=list(desc['nodes']) if desc.get('nodes') is not None else None,
                args=pairs_json(desc['args']))

# --------------------------------------------------------------------------- value generators

def dyadic(rng, lo=-3, hi=4):
    return float(2.0 ** rng.randint(lo, hi))

def small(rng):
    c = rng.random()
    if c < 0.5: return dyadic(rng)
    if c < 0.8: return float(rng.randint(1, 12))
    return rng.randint(1, 40) / 8.0

def decade(rng):
    return float(f'{rng.uniform(1, 9.99):.3g}') * 10.0 ** rng.randint(-3, 3)

PHASES = [0.0, math.pi / 2, math.pi, -math.pi / 2, math.atan2(4, 3), math.atan2(-12, 5), math.atan2(3, -4),
          0.5, -0.25, 1.0, 2.0, -3.0, math.pi / 6, math.pi / 3, 0.1]

def phase(rng):
    return rng.choice(PHASES) if rng.random() < 0.8 else rng.uniform(-math.pi, math.pi)

WAVES = ['const', 'cos', 'sin', 'rect', 'tri', 'saw']

PASSIVE = ['resistor', 'conductance', 'impedance', 'admittance', 'capacitor', 'inductance', 'lamp', 'resistive_load']
SOURCES = ['dc_voltage_source', 'ac_voltage_source', 'dc_current_source', 'ac_current_source']
COMPLEX_SOURCES = ['complex_voltage_source', 'complex_current_source']
PERIODIC = ['periodic_voltage_source', 'periodic_current_source']
ALL_TWO_TERMINAL = PASSIVE + SOURCES + COMPLEX_SOURCES + PERIODIC + ['short_circuit']

def gen_args(rng, fn, exact=True, freqs=None, internal=None):
    """arguments of constructor `fn`; `freqs` = pool of source frequencies;
    `internal` = force (True) / forbid (False) an internal R/G of sources"""
    R = small if exact else decade
    sgn = lambda x: x if rng.random() < 0.7 else -x
    freqs = freqs or [1.0, 2.0, 0.5, 4.0]
    wsrc = lambda: rng.choice(freqs)
    def inner():
        if internal is True: return R(rng)
        if internal is False: return 0.0
        return rng.choice([0.0, R(rng), R(rng)])
    if fn == 'resistor':    return dict(R=R(rng))
    if fn == 'conductance': return dict(G=R(rng))
    if fn == 'capacitor':   return dict(C=R(rng))
    if fn == 'inductance':  return dict(L=R(rng))
    if fn == 'impedance':   return dict(Z=complex(R(rng), rng.choice([0.0, R(rng), -R(rng)])))
    if fn == 'admittance':  return dict(Y=complex(R(rng), rng.choice([0.0, R(rng), -R(rng)])))
    if fn in ('lamp', 'resistive_load'):
        return dict(P=R(rng), V_ref=dyadic(rng) if exact else decade(rng))
    if fn == 'dc_voltage_source': return dict(V=sgn(R(rng)), R=inner())
    if fn == 'dc_current_source': return dict(I=sgn(R(rng)), G=inner())
    if fn == 'ac_voltage_source': return dict(V=sgn(R(rng)), R=inner(), w=wsrc(), phi=phase(rng))
    if fn == 'ac_current_source': return dict(I=sgn(R(rng)), G=inner(), w=wsrc(), phi=phase(rng))
    if fn == 'complex_voltage_source':
        return dict(V=complex(sgn(R(rng)), sgn(R(rng))), Z=complex(inner(), rng.choice([0.0, R(rng)])))
    if fn == 'complex_current_source':
        return dict(I=complex(sgn(R(rng)), sgn(R(rng))), Y=complex(inner(), rng.choice([0.0, R(rng)])))
    if fn == 'periodic_voltage_source':
        return dict(wavetype=rng.choice(WAVES), V=sgn(R(rng)), w=wsrc(), phi=phase(rng), R=inner())
    if fn == 'periodic_current_source':
        return dict(wavetype=rng.choice(WAVES), I=sgn(R(rng)), w=wsrc(), phi=phase(rng), G=inner())
    if fn == 'short_circuit': return {}
    if fn == 'ground': return {}
    raise ValueError(fn)

LABEL_POOLS = [
    ['0', '1', '2', '3', '4', '5', '6'],
    ['10', '9', '2', '1', '0', '11', '100'],
    ['A1', 'Z9', 'a', 'B', 'b', 'AA', '_'],
    ['gnd', 'Vcc', 'n1', 'N1', 'out', 'in', 'x'],
    ['é', 'ß', 'Ω', 'a', 'z', 'Z', '0'],
]
ID_STYLES = [
    lambda k, i: f'{k[:2]}{i}',
    lambda k, i: f'{"ZYXWVUTSRQPONMLKJIHGFEDCBA"[i % 26]}{i}',
    lambda k, i: f'{i}',
    lambda k, i: f'{"abcdefghijklmnopqrstuvwxyz"[(7 * i + 3) % 26]}_{k}',
]

def random_circuit(rng, kinds, exact=True, n_nodes=None, n_extra=None, freqs=None, ground=None,
                   min_sources=1, source_kinds=None, internal=None):
    """connected multigraph of two-terminal components (spanning tree + extra edges, random
    terminal order, adversarial labels / ids), optionally with a ground component at a random
    position.  Returns a list of component descriptions."""
    n = n_nodes or rng.randint(2, 5)
    pool = list(rng.choice(LABEL_POOLS)); rng.shuffle(pool)
    while len(pool) < n:
        pool.append(f'{pool[len(pool) % 7]}{len(pool)}')
    labels = pool[:n]
    ids = rng.choice(ID_STYLES)
    edges = [(labels[rng.randrange(k)], labels[k]) for k in range(1, n)]
    extra = n_extra if n_extra is not None else rng.randint(0, n + 1)
    for _ in range(extra):
        a, b = rng.sample(labels, 2)
        edges.append((a, b))
    rng.shuffle(edges)
    source_kinds = source_kinds or [k for k in kinds if 'source' in k]
    descs = []
    for i, (a, b) in enumerate(edges):
        if rng.random() < 0.5: a, b = b, a
        fn = rng.choice(kinds)
        descs.append(dict(fn=fn, id=ids(fn, i), nodes=[a, b], args=gen_args(rng, fn, exact, freqs, internal)))
    n_src = sum('source' in d['fn'] for d in descs)
    tries = 0
    while n_src < min_sources and source_kinds and tries < 20:
        tries += 1
        k = rng.randrange(len(descs))
        if 'source' not in descs[k]['fn']:
            fn = rng.choice(source_kinds)
            descs[k] = dict(fn=fn, id=ids(fn, k), nodes=descs[k]['nodes'], args=gen_args(rng, fn, exact, freqs, internal))
            n_src += 1
    seen = set()
    for d in descs:
        while d['id'] in seen: d['id'] += "'"
        seen.add(d['id'])
    g = rng.random() < 0.6 if ground is None else ground
    if g:
        gid = 'gnd'
        while gid in seen: gid += '_'
        descs.insert(rng.randrange(len(descs) + 1), dict(fn='ground', id=gid, nodes=[rng.choice(labels)], args={}))
    return descs

def pretty(descs):
    return [f"{d['id']}:{d['fn'] if d['fn'] != '__raw__' else 'Component(type=' + repr(d['kind']) + ')'}({','.join(d['nodes'])}){d['args']}" for d in descs]

def is_open_switch(e) -> bool:
    """`NortenElement(Z=inf, V=0)`: what `elm.resistor(id, inf)` builds"""
    return type(e).__name__ == 'NortenElement' and isinstance(e.Z, (int, float)) and math.isinf(e.Z) and e.Z > 0 and e.V == 0

def elem_json(e):
    cls = type(e).__name__
    if is_open_switch(e):
        # canonical form of the open switch: its derived values are Y = 1/inf = 0, I = 0/inf = 0 (checked here on
        # the live object), i.e. the record (Y = 0, I = 0) — the shared element type of the model has no Z = inf
        if not (e.Y == 0 and e.I == 0):
            raise TypeError('open switch with non-zero derived values')
        return dict(k='T', a=core.qc(0), b=core.qc(0))
    if cls == 'NortenElement':
        return dict(k='N', a=core.qc(e.Z), b=core.qc(e.V))
    if cls == 'TheveninElement':
        return dict(k='T', a=core.qc(e.Y), b=core.qc(e.I))
    raise TypeError(cls)

def net_json(network):
    return dict(branches=[dict(n1=b.node1, n2=b.node2, id=b.id, ty=b.element.type, e=elem_json(b.element))
                          for b in network.branches], zero=network.node_zero_label)

def finite_net(network) -> bool:
    for b in network.branches:
        e = b.element
        if is_open_switch(e):
            continue
        vals = (e.Z, e.V) if type(e).__name__ == 'NortenElement' else (e.Y, e.I)
        if not all(np.isfinite(complex(v)) for v in vals):
            return False
    return True

def branches_close(bi, bm, tol=1e-13):
    """driver-JSON branches: same terminals / id / type / record kind, numbers within tol
    (relative); returns (same, bit_exact)"""
    if (bi['n1'], bi['n2'], bi['id'], bi['e']['k']) != (bm['n1'], bm['n2'], bm['id'], bm['e']['k']):
        return False, False
    exact = True
    for f in ('a', 'b'):
        x, y = core.unqc(bi['e'][f]), core.unqc(bm['e'][f])
        if x != y:
            exact = False
            if not core.close(core.cfloat(bi['e'][f]), core.cfloat(bm['e'][f]), 0.0, tol):
                return False, False
    return True, exact
