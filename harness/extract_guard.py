"""
extract_guard.py — source guard: what the per-function translators cannot see.

The translators read function bodies.  A Python function's meaning can be changed from
outside its body: by a decorator (`@lru_cache`), by module-level mutable state it closes
over (`_cache = {}`), by `global` / `nonlocal`, by a second definition of the same name
later in the module, by a module-level assignment to an attribute / item of something
imported (`elm.resistor = …`), or by a mutable default argument.  This generator takes a
census of exactly those constructs in every source file a property is anchored in
(properties.jsonl → anchors.files) and subtracts the census of the tree the models were
written against (harness/source_guard_baseline.json, committed).  What is left — constructs
the models know nothing about — is emitted per property into CC/Gen/SourceGuard.lean;
CC/Properties/Guard/<id>.lean proves `unknown_<id> = []` by `rfl`, so a new construct
breaks that property's obligation (and the check then searches for a failing input).

    python3 extract_guard.py --write-baseline [/repo/src]     # refresh the committed baseline
"""
from __future__ import annotations
import ast, json, sys
from pathlib import Path
import extract
from extract import lean_str

HERE = Path(__file__).resolve().parent
BASELINE = HERE / 'source_guard_baseline.json'
PROPERTIES = HERE.parent / 'properties.jsonl'

MUTABLE_CALLS = {'dict', 'list', 'set', 'defaultdict', 'OrderedDict', 'Counter', 'deque',
                 'WeakValueDictionary', 'WeakKeyDictionary', 'bytearray'}

def _is_mutable_value(v) -> bool:
    if isinstance(v, (ast.Dict, ast.List, ast.Set, ast.ListComp, ast.DictComp, ast.SetComp)):
        return True
    if isinstance(v, ast.Call):
        f = v.func
        name = f.id if isinstance(f, ast.Name) else f.attr if isinstance(f, ast.Attribute) else ''
        return name in MUTABLE_CALLS
    return False

def census(tree: ast.Module) -> list[list[str]]:
    items: list[list[str]] = []
    def scope(body, prefix, top):
        seen = {}
        for st in body:
            if isinstance(st, (ast.FunctionDef, ast.AsyncFunctionDef, ast.ClassDef)):
                q = prefix + st.name
                if st.name in seen:
                    items.append(['redefinition', q, f'defined again at statement {len(seen)}'])
                seen[st.name] = True
                for d in st.decorator_list:
                    items.append(['decorator', q, ast.unparse(d)])
                if not isinstance(st, ast.ClassDef):
                    a = st.args
                    pos = a.posonlyargs + a.args
                    for arg, dflt in list(zip(pos[len(pos) - len(a.defaults):], a.defaults)) + \
                                     [(k, d) for k, d in zip(a.kwonlyargs, a.kw_defaults) if d is not None]:
                        if _is_mutable_value(dflt):
                            items.append(['mutable_default', q, arg.arg])
                    for n in ast.walk(st):
                        if isinstance(n, (ast.Global, ast.Nonlocal)):
                            items.append(['global', q, ','.join(n.names)])
                scope(st.body, q + '.', False)
            elif top and isinstance(st, (ast.Assign, ast.AnnAssign, ast.AugAssign)):
                targets = st.targets if isinstance(st, ast.Assign) else [st.target]
                for t in targets:
                    if isinstance(t, (ast.Attribute, ast.Subscript)):
                        items.append(['module_attr_assign', ast.unparse(t), ''])
                    elif isinstance(t, ast.Name):
                        if t.id in seen:
                            items.append(['redefinition', prefix + t.id, 'assigned after its definition'])
                        val = getattr(st, 'value', None)
                        if val is not None and _is_mutable_value(val):
                            items.append(['module_state', t.id, ''])
            elif top and isinstance(st, ast.Expr) and isinstance(st.value, ast.Call):
                f = st.value.func
                name = f.id if isinstance(f, ast.Name) else f.attr if isinstance(f, ast.Attribute) else ''
                if name in ('setattr', 'delattr', 'update', 'register', 'append', 'extend', 'insert', 'pop', 'clear'):
                    items.append(['module_call', ast.unparse(st.value)[:120], ''])
            elif top and isinstance(st, ast.Delete):
                items.append(['module_del', ast.unparse(st)[:120], ''])
    scope(tree.body, '', True)
    return items

def anchors() -> dict[str, list[str]]:
    out = {}
    for line in PROPERTIES.read_text().splitlines():
        if not line.strip():
            continue
        o = json.loads(line)
        files = o.get('anchors', {}).get('files', [])
        out[o['id']] = sorted({f for f in files if f.endswith('.py')})
    # C20 (purity, repeatability) is about hidden state anywhere in the analysed code
    out['C20'] = sorted({f for fs in out.values() for f in fs})
    return out

def file_census(src: Path, rel: str) -> list[list[str]] | None:
    p = src.parent / rel if rel.startswith('src/') else src / rel
    if not p.exists():
        return None
    return census(ast.parse(p.read_text(), filename=rel))

def multiset_minus(a: list[list[str]], b: list[list[str]]) -> list[list[str]]:
    rest = [tuple(x) for x in b]
    out = []
    for x in a:
        t = tuple(x)
        if t in rest:
            rest.remove(t)
        else:
            out.append(x)
    return out

@extract.generator('SourceGuard.lean')
def gen_source_guard(src: Path) -> str:
    base = json.loads(BASELINE.read_text()) if BASELINE.exists() else {}
    anc = anchors()
    cache = {}
    lines = ['/-', '  GENERATED by harness/extract_guard.py — do not edit.',
             '  Constructs that change the meaning of a function from outside its body (decorators, module-level',
             '  mutable state, global statements, redefinitions, module-level attribute assignments, mutable default',
             '  arguments) found in a property\'s anchor files and NOT present in the tree the models were written',
             '  against (harness/source_guard_baseline.json).  Empty lists on the baseline tree.', '-/',
             'namespace CC.Gen.SourceGuard', '']
    for pid in sorted(anc):
        unknown = []
        for rel in anc[pid]:
            if rel not in cache:
                cache[rel] = file_census(src, rel)
            c = cache[rel]
            if c is None:
                unknown.append(['missing_file', rel, ''])
                continue
            for it in multiset_minus(c, base.get(rel, [])):
                unknown.append([it[0], f'{rel}::{it[1]}', it[2]])
        body = ', '.join(f'({lean_str(a)}, {lean_str(b)}, {lean_str(c)})' for a, b, c in unknown)
        lines.append(f'def unknown_{pid} : List (String × String × String) := [{body}]')
    lines += ['', 'end CC.Gen.SourceGuard', '']
    return '\n'.join(lines)

if __name__ == '__main__':
    if '--write-baseline' in sys.argv:
        args = [a for a in sys.argv[1:] if not a.startswith('--')]
        src = Path(args[0] if args else '/repo/src')
        base = {}
        for pid, files in anchors().items():
            for rel in files:
                c = file_census(src, rel)
                if c is not None:
                    base[rel] = c
        BASELINE.write_text(json.dumps(base, indent=1, sort_keys=True))
        print('baseline written:', len(base), 'files,', sum(len(v) for v in base.values()), 'items')
