"""
extract_statewrap.py — translator for the CIRCUIT-level state-space wrapper (C10 / C11).

  Circuit/state_space_model.py :: state_space_model   →   lean/CC/Gen/StateWrap.lean

extract_state.py translates the same function onto an abstract component `(type, id, value-of-key)`
and skips the `float(...)` cast and the call itself; this generator keeps the whole statement
`ssm = nodal_state_space_model(network=transform_circuit(circuit, w=…), c_values=…, l_values=…)` on the
component model of CC/Model/Circuit.lean:

  (a) the two value dictionaries: iteration source, filter, key, and the value expression with the
      cast as an explicit node (`Py.toFloat`; a value without cast becomes `Py.noCast`) — idioms of
      CC/Model/StateWrapBase.lean.  A dictionary may be written inline (a dict comprehension, possibly
      over an inner list comprehension) or as a call of a one-statement helper of Circuit/circuit.py
      whose body is `return {…comprehension…}`; the helper is inlined with its arguments substituted.
  (b) the call: callee, keyword names in the order written (Python evaluates them in that order), the
      arguments of `transform_circuit` (the frequency literal is emitted as written).
  (c) the stacking: `X = np.ndarray(shape=(0, ssm.n_…))`, `for id in <parameter>: X = np.vstack([X, ssm.<accessor>(id)])`
      in the order written, `return StateSpaceModel(A=ssm.A, B=ssm.B, C=…, D=…)`.

Anything else is refused.  CC/Properties/C10Wrap.lean proves the generated definitions equal to the
hand-written model (`reactiveValues`, `nodalStateSpaceModel ∘ transformCircuit … 0`, `NSSM.circuitModel`).
"""
from __future__ import annotations
import ast, copy
from extract import generator, parse, lean_str, ExtractError

F_CSS = 'Circuit/state_space_model.py'
F_CIR = 'Circuit/circuit.py'

ACCESSORS = {'c_row_for_potential': 'label', 'c_row_voltage': 'id', 'c_row_current': 'id',
             'd_row_for_potential': 'label', 'd_row_voltage': 'id', 'd_row_current': 'id'}
RENAME = ('I', 'V', 'Y', 'Z', 'Q', 'A', 'B', 'C', 'D', 'L', 'K')


def refuse(node, msg):
    raise ExtractError(f'{F_CSS}:{getattr(node, "lineno", "?")}: {msg}')

def lname(n):
    return n + '_' if n in RENAME else n

def is_name(e, n=None):
    return isinstance(e, ast.Name) and (n is None or e.id == n)

def is_attr(e, base, attr):
    return isinstance(e, ast.Attribute) and e.attr == attr and is_name(e.value, base)

def const_str(e):
    return isinstance(e, ast.Constant) and isinstance(e.value, str)

def strip_doc(body):
    if body and isinstance(body[0], ast.Expr) and const_str(body[0].value):
        return body[1:]
    return body


class Subst(ast.NodeTransformer):
    def __init__(self, env): self.env = env
    def visit_Name(self, node):
        if node.id in self.env:
            return ast.copy_location(copy.deepcopy(self.env[node.id]), node)
        return node


class GenW:
    def __init__(self, src):
        self.src = src
        self.css = parse(src, F_CSS)
        self.cir = parse(src, F_CIR)
        self.out = []

    def w(self, s=''): self.out.append(s)

    # ------------------------------------------------------------------ (a) dictionaries
    def inline_helper(self, call):
        """`helper(circuit, k=…)` with `def helper(p…): return {dict comprehension}` in Circuit/circuit.py"""
        fd = next((s for s in self.cir.body if isinstance(s, ast.FunctionDef) and s.name == call.func.id), None)
        if fd is None:
            # imported from somewhere else than circuit.py
            refuse(call, f'value dictionary built by {call.func.id}(…), which is not a function of {F_CIR}')
        body = strip_doc(fd.body)
        if not (len(body) == 1 and isinstance(body[0], ast.Return) and isinstance(body[0].value, ast.DictComp)):
            refuse(call, f'helper {fd.name} is not a single `return {{… for … in …}}`')
        a = fd.args
        if a.vararg or a.kwarg or a.kwonlyargs or a.posonlyargs or a.defaults:
            refuse(call, f'helper {fd.name}: parameter list outside the grammar')
        params = [p.arg for p in a.args]
        env = {}
        if len(call.args) > len(params): refuse(call, f'too many arguments for {fd.name}')
        for p, x in zip(params, call.args): env[p] = x
        for k in call.keywords:
            if k.arg is None or k.arg not in params or k.arg in env: refuse(call, f'bad keyword for {fd.name}')
            env[k.arg] = k.value
        if set(env) != set(params): refuse(call, f'missing argument for {fd.name}')
        for x in env.values():
            if not (is_name(x, 'circuit') or const_str(x)):
                refuse(call, f'argument of {fd.name} is neither `circuit` nor a string literal')
        dc = copy.deepcopy(body[0].value)
        bound = {g.target.id for g in dc.generators if isinstance(g.target, ast.Name)}
        if bound & set(params): refuse(call, f'helper {fd.name}: comprehension variable shadows a parameter')
        return Subst(env).visit(dc), f'{F_CIR}:{fd.lineno} ({fd.name}, inlined)'

    def components_filter(self, it, ifs, var):
        """`circuit.components` filtered by `var.type == '<t>'` ↦ the type string"""
        if not is_attr(it, 'circuit', 'components'):
            refuse(it, 'value dictionary does not range over circuit.components')
        if len(ifs) != 1: refuse(it, 'value dictionary: exactly one filter expected')
        c = ifs[0]
        ok = (isinstance(c, ast.Compare) and len(c.ops) == 1 and isinstance(c.ops[0], ast.Eq)
              and is_attr(c.left, var, 'type') and const_str(c.comparators[0]))
        if not ok: refuse(c, "filter is not `<var>.type == '<type>'`")
        return c.comparators[0].value

    def dictionary(self, e, lean, what):
        where = f'{F_CSS}:{e.lineno}'
        if isinstance(e, ast.Call) and is_name(e.func) and e.func.id != 'dict':
            e, where2 = self.inline_helper(e)
            where = f'{where} → {where2}'
        if not (isinstance(e, ast.DictComp) and len(e.generators) == 1 and is_name(e.generators[0].target)
                and not e.generators[0].is_async):
            refuse(e, f'{what} is not a dict comprehension with one generator')
        g = e.generators[0]
        v0 = g.target.id
        if isinstance(g.iter, ast.ListComp):
            # {… for X in [c for c in circuit.components if c.type == '…']}
            lc = g.iter
            if g.ifs: refuse(e, f'{what}: filter on both comprehension levels')
            if not (len(lc.generators) == 1 and is_name(lc.generators[0].target) and is_name(lc.elt, lc.generators[0].target.id)):
                refuse(lc, f'{what}: inner list is not `[c for c in … if …]`')
            ty = self.components_filter(lc.generators[0].iter, lc.generators[0].ifs, lc.generators[0].target.id)
        else:
            ty = self.components_filter(g.iter, g.ifs, v0)
        if not is_attr(e.key, v0, 'id'): refuse(e.key, f'{what}: key is not `{v0}.id`')
        val = e.value
        cast = False
        if isinstance(val, ast.Call) and is_name(val.func, 'float') and len(val.args) == 1 and not val.keywords:
            cast = True; val = val.args[0]
        if not (isinstance(val, ast.Subscript) and is_attr(val.value, v0, 'value') and const_str(val.slice)):
            refuse(e.value, f"{what}: value is not `float({v0}.value['<key>'])` or `{v0}.value['<key>']`")
        v = lname(v0)
        w = self.w
        w(f'/-- {what} ({where}): components of type {ty!r} in listing order, `id ↦ '
          + ('float(' if cast else '') + f"value[{val.slice.value!r}]" + (')' if cast else '') + '`'
          + ('' if cast else ' — NO float(…) cast') + ' -/')
        w(f'def {lean} (circuit : Circuit) : Except Err (ValDict GQ) :=')
        w(f'  (circuit.components.filter fun (c : Component) => decide (c.kind = {lean_str(ty)})).mapM fun ({v} : Component) => do')
        w(f'    let raw ← Py.compValue {v} {lean_str(val.slice.value)}')
        w(f'    let x ← {"Py.toFloat" if cast else "Py.noCast"} raw')
        w(f'    pure ({v}.id, Py.promote x)')
        w()

    # ------------------------------------------------------------------ (b) the call
    def call(self, s0):
        ok = (isinstance(s0, ast.Assign) and len(s0.targets) == 1 and is_name(s0.targets[0], 'ssm')
              and isinstance(s0.value, ast.Call) and is_name(s0.value.func, 'nodal_state_space_model') and not s0.value.args)
        if not ok: refuse(s0, 'first statement is not `ssm = nodal_state_space_model(<keywords>)`')
        kws = s0.value.keywords
        if sorted(k.arg or '' for k in kws) != ['c_values', 'l_values', 'network']:
            refuse(s0, 'nodal_state_space_model(…): keywords are not exactly network, c_values, l_values')
        binds = []
        for k in kws:
            if k.arg == 'network':
                c = k.value
                ok = (isinstance(c, ast.Call) and is_name(c.func, 'transform_circuit') and len(c.args) == 1
                      and is_name(c.args[0], 'circuit') and len(c.keywords) == 1 and c.keywords[0].arg == 'w'
                      and isinstance(c.keywords[0].value, ast.Constant) and type(c.keywords[0].value.value) in (int, float))
                if not ok: refuse(c, 'network is not `transform_circuit(circuit, w=<number literal>)`')
                wv = c.keywords[0].value.value
                from fractions import Fraction
                q = Fraction(str(wv))
                lit = f'({q.numerator} : Rat)' if q.denominator == 1 else f'(({q.numerator} : Rat) / {q.denominator})'
                binds.append(('network', f'transformCircuit T trig harm circuit {lit} wres'))
            elif k.arg == 'c_values':
                self.dictionary(k.value, 'wrapper_c_values', 'c_values')
                binds.append(('c_values', 'wrapper_c_values circuit'))
            else:
                self.dictionary(k.value, 'wrapper_l_values', 'l_values')
                binds.append(('l_values', 'wrapper_l_values circuit'))
        w = self.w
        w(f'/-- `ssm = nodal_state_space_model({", ".join(k.arg + "=…" for k in kws)})` ({F_CSS}:{s0.lineno}); the keyword arguments')
        w('are evaluated in the order written.  `w_resolution` of `transform_circuit` is not passed: `wres` is the callee\'s default. -/')
        w('def wrapper_ssm (T : Tables) (trig : Trig) (harm : Harm) (wres : Rat) (inv : Py.Mat GQ → Py.Mat GQ) (re : GQ → GQ)')
        w('    (circuit : Circuit) : Except Err (NodalStateSpaceModel String GQ) := do')
        for n, rhs in binds:
            w(f'  let {n} ← {rhs}')
        w('  nodal_state_space_model inv re network c_values l_values')
        w()

    # ------------------------------------------------------------------ (c) stacking
    def stacking(self, fd, body):
        w = self.w
        params = [a.arg for a in fd.args.args]
        if params != ['circuit', 'potential_nodes', 'voltage_ids', 'current_ids'] or fd.args.vararg or fd.args.kwarg or fd.args.kwonlyargs:
            refuse(fd, 'state_space_model: parameters are not (circuit, potential_nodes, voltage_ids, current_ids)')
        pkind = {'potential_nodes': 'label', 'voltage_ids': 'id', 'current_ids': 'id'}
        last = body[-1]
        ok = (isinstance(last, ast.Return) and isinstance(last.value, ast.Call) and is_name(last.value.func, 'StateSpaceModel')
              and not last.value.args and [k.arg for k in last.value.keywords] == ['A', 'B', 'C', 'D']
              and is_attr(last.value.keywords[0].value, 'ssm', 'A') and is_attr(last.value.keywords[1].value, 'ssm', 'B')
              and is_name(last.value.keywords[2].value) and is_name(last.value.keywords[3].value))
        if not ok: refuse(last, 'state_space_model does not end in `return StateSpaceModel(A=ssm.A, B=ssm.B, C=<name>, D=<name>)`')
        lines = []
        defined = {}
        for st in body[:-1]:
            if isinstance(st, ast.Assign):
                # X = np.ndarray(shape=(0, ssm.n_states))
                v = st.value
                ok = (len(st.targets) == 1 and is_name(st.targets[0]) and isinstance(v, ast.Call)
                      and isinstance(v.func, ast.Attribute) and v.func.attr == 'ndarray' and is_name(v.func.value, 'np')
                      and not v.args and len(v.keywords) == 1 and v.keywords[0].arg == 'shape'
                      and isinstance(v.keywords[0].value, ast.Tuple) and len(v.keywords[0].value.elts) == 2
                      and isinstance(v.keywords[0].value.elts[0], ast.Constant) and v.keywords[0].value.elts[0].value == 0
                      and isinstance(v.keywords[0].value.elts[1], ast.Attribute) and is_name(v.keywords[0].value.elts[1].value, 'ssm')
                      and v.keywords[0].value.elts[1].attr in ('n_states', 'n_inputs'))
                if not ok: refuse(st, 'statement is not `X = np.ndarray(shape=(0, ssm.n_states|n_inputs))`')
                x = st.targets[0].id
                defined[x] = v.keywords[0].value.elts[1].attr
                lines.append(f'  let {lname(x)} : List (List GQ) := ([] : List (List GQ))   -- (0, ssm.{defined[x]})')
            elif isinstance(st, ast.For):
                ok = (not st.orelse and is_name(st.target) and is_name(st.iter) and st.iter.id in pkind and len(st.body) == 1)
                if not ok: refuse(st, 'loop is not `for id in <list parameter>:` with one statement')
                a = st.body[0]
                iv = st.target.id
                ok = (isinstance(a, ast.Assign) and len(a.targets) == 1 and is_name(a.targets[0]) and a.targets[0].id in defined
                      and isinstance(a.value, ast.Call) and isinstance(a.value.func, ast.Attribute) and a.value.func.attr == 'vstack'
                      and is_name(a.value.func.value, 'np') and len(a.value.args) == 1 and not a.value.keywords
                      and isinstance(a.value.args[0], (ast.List, ast.Tuple)) and len(a.value.args[0].elts) == 2
                      and is_name(a.value.args[0].elts[0], a.targets[0].id))
                if not ok: refuse(a, 'loop body is not `X = np.vstack([X, ssm.<accessor>(id)])`')
                c = a.value.args[0].elts[1]
                ok = (isinstance(c, ast.Call) and isinstance(c.func, ast.Attribute) and is_name(c.func.value, 'ssm')
                      and c.func.attr in ACCESSORS and len(c.args) == 1 and not c.keywords and is_name(c.args[0], iv))
                if not ok: refuse(c, 'stacked row is not `ssm.<row accessor>(id)`')
                if ACCESSORS[c.func.attr] != pkind[st.iter.id]:
                    refuse(c, f'{c.func.attr} applied to an element of {st.iter.id}')
                x = lname(a.targets[0].id)
                ty = 'String'
                lines.append(f'  let {x} ← {st.iter.id}.foldlM (fun (acc : List (List GQ)) ({iv} : {ty}) => do')
                lines.append(f'    let r ← NodalStateSpaceModel.{c.func.attr} ssm {iv}')
                lines.append(f'    pure (Py.vstackArr acc r)) {x}')
            else:
                refuse(st, 'statement outside the grammar of the stacking wrapper')
        cn, dn = last.value.keywords[2].value.id, last.value.keywords[3].value.id
        if cn not in defined or dn not in defined: refuse(last, 'returned C / D is not a stacked array')
        w(f'/-- state_space_model ({F_CSS}:{fd.lineno}): (A, B, C rows, D rows) of the returned `StateSpaceModel` -/')
        w('def state_space_model (T : Tables) (trig : Trig) (harm : Harm) (wres : Rat) (inv : Py.Mat GQ → Py.Mat GQ) (re : GQ → GQ)')
        w('    (circuit : Circuit) (potential_nodes : List String) (voltage_ids : List String) (current_ids : List String) :')
        w('    Except Err ((Py.Mat GQ) × (Py.Mat GQ) × (List (List GQ)) × (List (List GQ))) := do')
        w('  let ssm ← wrapper_ssm T trig harm wres inv re circuit')
        for l in lines: w(l)
        w(f'  pure ((ssm.A, ssm.B, {lname(cn)}, {lname(dn)}))')
        w()
        w('/-- column counts the two empty arrays are created with: (C, D) -/')
        w(f'def wrapper_widths : String × String := ({lean_str(defined[cn])}, {lean_str(defined[dn])})')
        w()

    def run(self):
        w = self.w
        fd = next((s for s in self.css.body if isinstance(s, ast.FunctionDef) and s.name == 'state_space_model'), None)
        if fd is None: refuse(self.css, 'state_space_model not found')
        body = strip_doc(fd.body)
        if len(body) < 2: refuse(fd, 'state_space_model: body too short')
        w('/- GENERATED by harness/extract_statewrap.py from src/CircuitCalculator/Circuit/state_space_model.py')
        w('   (and Circuit/circuit.py for an inlined dictionary helper) — do not edit. -/')
        w('import CC.Gen.StateSpace')
        w('import CC.Model.Circuit')
        w('import CC.Model.StateWrapBase')
        w('set_option linter.unusedVariables false')
        w('namespace CC.Gen.StateWrap')
        w('open CC CC.Gen.Core CC.Gen.State')
        w()
        self.call(body[0])
        self.stacking(fd, body[1:])
        w('end CC.Gen.StateWrap')
        return '\n'.join(self.out) + '\n'


@generator('StateWrap.lean')
def gen_statewrap(src):
    return GenW(src).run()
