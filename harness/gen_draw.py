"""
gen_draw.py — drawing programs over an integer grid (shared by C13 and C15).

A *program* is a list of steps
    two-terminal  {kind, name, vals, rev, a:(i,j), b:(i,j), place}
    wire          {kind:'wire', a, b, place}
    node label    {kind:'node'|'lnode', name, a}
    ground        {kind:'gnd', a [, name]}
and a *geometry* {rot: 0..3, dx, dy, unit, drawing_unit}: grid point (i,j) ↦ unit·Rot^rot(i,j) + (dx,dy).
`build` executes the program with the real classes of SimpleCircuit/Elements.py and
schemdraw's placement (no figure is drawn); `read_syms` reads every element the way the
parser and the translators do; `intended` is the netlist the program depicts by construction
(union–find over grid points = the Spec side of the oracle).
"""
from __future__ import annotations
import math, cmath
from fractions import Fraction
import core

PI = math.pi

# kind ↦ (class name, keyword names of the electrical values)
TWO_TERMINAL = {
    'R': ('Resistor', ['R']), 'G': ('Conductance', ['G']), 'Z': ('Impedance', ['Z']),
    'C': ('Capacitor', ['C']), 'L': ('Inductance', ['L']), 'lamp': ('Lamp', ['V_ref', 'P_ref']),
    'switch': ('Switch', ['state']), 'sc': ('LabeledLine', []),
    'V': ('VoltageSource', ['V']), 'I': ('CurrentSource', ['I']),
    'Vc': ('ComplexVoltageSource', ['V']), 'Ic': ('ComplexCurrentSource', ['I']),
    'Vac': ('ACVoltageSource', ['V', 'w', 'phi', 'deg', 'sin']), 'Iac': ('ACCurrentSource', ['I', 'w', 'phi', 'deg', 'sin']),
    'Vrect': ('RectVoltageSource', ['V', 'w', 'phi', 'deg']), 'Irect': ('RectCurrentSource', ['I', 'w', 'phi', 'deg']),
    'Vtri': ('TriangleVoltageSource', ['V', 'w', 'phi', 'deg']), 'Itri': ('TriangleCurrentSource', ['I', 'w', 'phi', 'deg']),
    'Vsaw': ('SawtoothVoltageSource', ['V', 'w', 'phi', 'deg']), 'Isaw': ('SawtoothCurrentSource', ['I', 'w', 'phi', 'deg']),
}
# linear (lossy) DC sources: compound symbols of fixed size (the voltage source is 5 long and extends
# *backwards* from its `at` point, the current source is 3 long) — only in `linear_source_program`
LINEAR = {'Vreal': ('RealVoltageSource', 5.0), 'Ireal': ('RealCurrentSource', 3.0)}
# constructors that take `name` (also) positionally: name=… by position is a supported call
POSITIONAL = {'C': ['C', 'name'], 'L': ['L', 'name'], 'lamp': ['V_ref', 'P_ref', 'name'], 'switch': ['name'],
              'Vac': ['V', 'w', 'phi', 'name'], 'Vrect': ['V', 'w', 'phi', 'name'], 'Irect': ['I', 'w', 'phi', 'name'],
              'Vtri': ['V', 'w', 'phi', 'name'], 'Itri': ['I', 'w', 'phi', 'name'], 'Vsaw': ['V', 'w', 'phi', 'name'], 'Isaw': ['I', 'w', 'phi', 'name']}
PASSIVE = ['R', 'G', 'Z', 'C', 'L', 'lamp', 'switch', 'sc']
SOURCES = ['V', 'I', 'Vc', 'Ic', 'Vac', 'Iac', 'Vrect', 'Irect', 'Vtri', 'Itri', 'Vsaw', 'Isaw']
ONE_TERMINAL = {'node': 'Node', 'lnode': 'LabelNode', 'gnd': 'Ground'}
WAVE = {'Vrect': 'rect', 'Irect': 'rect', 'Vtri': 'tri', 'Itri': 'tri', 'Vsaw': 'saw', 'Isaw': 'saw'}
# kinds the loader of SimpleCircuit/dump_load.py can rebuild (C15)
PERSISTABLE = ['R', 'G', 'Z', 'C', 'L', 'V', 'I', 'Vc', 'Ic', 'Vac', 'Iac', 'Vrect', 'Irect']
ATTRS_READ = ['V', 'I', 'R', 'G', 'Z', 'Y', 'C', 'L', 'P_ref', 'V_ref', 'w', 'phi', 'deg', 'sin', 'state']

# --------------------------------------------------------------------------- geometry

def rot(p, k):
    x, y = p
    for _ in range(k % 4):
        x, y = -y, x
    return (x, y)

def to_xy(geom, p):
    x, y = rot(p, geom.get('rot', 0))
    u = geom.get('unit', 3)
    return (u * x + geom.get('dx', 0.0), u * y + geom.get('dy', 0.0))

IDENT = dict(rot=0, dx=0.0, dy=0.0, unit=3.0)

def direction_of(a, b, k):
    """name of the schemdraw direction method for the grid step a→b after rotation k (axis-aligned steps only)"""
    d = rot((b[0] - a[0], b[1] - a[1]), k)
    if d[1] == 0 and d[0] != 0:
        return 'right' if d[0] > 0 else 'left'
    if d[0] == 0 and d[1] != 0:
        return 'up' if d[1] > 0 else 'down'
    return None

# --------------------------------------------------------------------------- build with the real classes

def _elm():
    from CircuitCalculator.SimpleCircuit import Elements as elm
    return elm

def make_element(step):
    elm = _elm()
    k = step['kind']
    if k == 'wire':
        return elm.Line(**({'reverse': True} if step.get('rev') else {}))
    if k in ONE_TERMINAL:
        cls = getattr(elm, ONE_TERMINAL[k])
        kw = {}
        if 'name' in step:
            kw['name'] = step['name']
        if k == 'lnode':
            kw['id_loc'] = step.get('id_loc', 'N')
        return cls(**kw)
    if k in LINEAR:
        return getattr(elm, LINEAR[k][0])(name=step['name'], **step['vals'])
    cls = getattr(elm, TWO_TERMINAL[k][0])
    kw = dict(step.get('vals', {}))
    if step.get('positional') and k in POSITIONAL:
        if k == 'switch':
            kw['state'] = elm.SwitchState.OPEN if kw.get('state', 'OPEN') == 'OPEN' else elm.SwitchState.CLOSED
        kw['name'] = step['name']
        args = [kw.pop(a) for a in POSITIONAL[k]]
        if step.get('rev'):
            kw['reverse'] = True
        return cls(*args, **kw)
    if k == 'switch':
        kw['state'] = elm.SwitchState.OPEN if kw.get('state', 'OPEN') == 'OPEN' else elm.SwitchState.CLOSED
    kw['name'] = step['name']
    if step.get('rev') is not None and (step.get('rev') or step.get('rev_explicit')):
        kw['reverse'] = bool(step['rev'])
    return cls(**kw)

def build(program, geom, schematic=None):
    """returns (schematic, [element per step]); no figure is drawn"""
    elm = _elm()
    d = schematic if schematic is not None else elm.Schematic(unit=geom.get('drawing_unit', geom.get('unit', 3)))
    placed = []
    here_grid = None
    k = geom.get('rot', 0)
    u = geom.get('unit', 3)
    for step in program:
        e = make_element(step)
        a = step['a']
        if step['kind'] in ONE_TERMINAL:
            e.at(to_xy(geom, a))
            d.add(e)
            placed.append(e)
            here_grid = None
            continue
        b = step['b']
        place = step.get('place', 'endpoints')
        dname = direction_of(a, b, k)
        if step['kind'] in LINEAR:
            # fixed-size symbol: one grid step of exactly its own length, placed by a direction method
            e.at(to_xy(geom, b if step['kind'] == 'Vreal' else a))
            getattr(e, dname)()
            d.add(e); placed.append(e); here_grid = b
            continue
        if place in ('dir', 'chain', 'tox') and dname is None:
            place = 'endpoints'
        if place == 'chain' and here_grid != a:
            place = 'dir'
        if place == 'endpoints':
            e.endpoints(to_xy(geom, a), to_xy(geom, b))
        elif place == 'tox':
            xa, ya = to_xy(geom, a); xb, yb = to_xy(geom, b)
            e.at((xa, ya))
            if dname in ('right', 'left'):
                e.tox(xb)
            else:
                e.toy(yb)
        else:
            length = u * (abs(b[0] - a[0]) + abs(b[1] - a[1]))
            if place == 'dir':
                e.at(to_xy(geom, a))
            getattr(e, dname)(length)
        d.add(e)
        placed.append(e)
        here_grid = b
    return d, placed

_CLS_NAMES = None
def class_name(e):
    """name of type(e) inside Elements (the key of circuit_translator_map)"""
    global _CLS_NAMES
    elm = _elm()
    if _CLS_NAMES is None:
        _CLS_NAMES = {v: k for k, v in vars(elm).items() if isinstance(v, type)}
    return _CLS_NAMES.get(type(e), type(e).__name__)

def enc_val(v):
    """Python value ↦ JSON encoding of CC.Draw.Val"""
    import enum
    if v is None:
        return None
    if isinstance(v, bool):
        return {'b': v}
    if isinstance(v, enum.Enum):
        return {'s': v.name}
    if isinstance(v, str):
        return {'s': v}
    if isinstance(v, (int, float)):
        if isinstance(v, float) and math.isinf(v) and v > 0:
            return 'inf'
        return {'n': core.qc(complex(v))}
    if isinstance(v, complex):
        return {'n': core.qc(v)}
    try:
        import numpy as np
        if isinstance(v, np.generic):
            return enc_val(v.item())
    except ImportError:
        pass
    try:
        from schemdraw.util import Point
        if isinstance(v, Point):
            return {'p': [core.q(v.x), core.q(v.y)]}
    except ImportError:
        pass
    return {'s': 'opaque:' + repr(v)[:40]}

def dec_val(j):
    if j is None:
        return None
    if j == 'inf':
        return math.inf
    if 'n' in j:
        z = core.cfloat(j['n'])
        return z
    if 'b' in j:
        return j['b']
    if 's' in j:
        return j['s']
    if 'p' in j:
        return (float(Fraction(j['p'][0])), float(Fraction(j['p'][1])))
    raise ValueError(j)

def read_attrs(e):
    out = []
    for a in ATTRS_READ:
        try:
            v = getattr(e, a)
        except Exception:
            continue
        if callable(v):
            continue
        try:
            out.append([a, enc_val(v)])
        except Exception:
            continue
    return out

def read_sym(e):
    """one drawing element as the parser / the translators see it"""
    s = dict(cls=class_name(e), attrs=read_attrs(e))
    try:
        s['name'] = e.name
    except AttributeError:
        pass
    try:
        s['rev'] = bool(e.is_reverse)
    except AttributeError:
        pass
    if hasattr(e, 'node_id'):
        s['node_id'] = e.node_id
    st = e.absanchors.get('start'); en = e.absanchors.get('end')
    s['start'] = [core.q(st[0]), core.q(st[1])]
    s['end'] = [core.q(en[0]), core.q(en[1])]
    return s

def read_syms(d):
    return [read_sym(e) for e in d.elements]

def enc_pt(p):
    return [core.q(p[0]), core.q(p[1])]

def ptkey(p):
    """hashable form of a rounded point for comparison (−0.0 ≡ 0.0)"""
    return (float(p[0]) + 0.0, float(p[1]) + 0.0)

def jkey(jp):
    return (float(Fraction(jp[0])) + 0.0, float(Fraction(jp[1])) + 0.0)

def tie_distance(d):
    """smallest distance (in units of 1e-2) of any raw anchor coordinate from a rounding tie"""
    best = 1.0
    for e in d.elements:
        for k in ('start', 'end'):
            p = e.absanchors.get(k)
            if p is None:
                continue
            for x in (p[0], p[1]):
                y = Fraction(*float(x).as_integer_ratio()) * 100
                fr = y - math.floor(y)
                best = min(best, abs(float(fr - Fraction(1, 2))))
    return best

# --------------------------------------------------------------------------- intended netlist (Spec side)

class UF:
    def __init__(self):
        self.p = {}
    def find(self, x):
        self.p.setdefault(x, x)
        while self.p[x] != x:
            self.p[x] = self.p[self.p[x]]
            x = self.p[x]
        return x
    def union(self, a, b):
        ra, rb = self.find(a), self.find(b)
        if ra != rb:
            self.p[ra] = rb

def phase_rad(vals):
    """the phase (radians, cosine reference) a source with these user parameters denotes"""
    phi = vals.get('phi', 0.0)
    if vals.get('deg'):
        phi = phi * PI / 180
    if vals.get('sin'):
        phi = phi - PI / 2
    return phi

def expected_component(step):
    """(type, value dict, oriented?) of the component a two-terminal step depicts; the value of a
    source is the one that runs from the first to the second *listed* terminal"""
    k = step['kind']; v = step.get('vals', {})
    if k == 'R': return 'resistor', {'R': v['R']}
    if k == 'G': return 'conductance', {'G': v['G']}
    if k == 'Z': return 'impedance', {'R': complex(v['Z']).real, 'X': complex(v['Z']).imag}
    if k == 'C': return 'capacitor', {'C': v['C']}
    if k == 'L': return 'inductance', {'L': v['L']}
    if k == 'lamp': return 'lamp', {'P': v['P_ref'], 'V_ref': v['V_ref']}
    if k == 'switch': return 'resistor', {'R': math.inf if v.get('state', 'OPEN') == 'OPEN' else 1e-12}
    if k == 'sc': return 'short_circuit', {}
    if k == 'Vreal': return 'dc_voltage_source', {'V': complex(v['V']).real, 'R': v['R'], 'w': 0, 'phi': 0}
    if k == 'Ireal': return 'dc_current_source', {'I': complex(v['I']).real, 'G': 1 / v['R'], 'w': 0, 'phi': 0}
    if k == 'V': return 'dc_voltage_source', {'V': complex(v['V']).real, 'R': 0, 'w': 0, 'phi': 0}
    if k == 'I': return 'dc_current_source', {'I': complex(v['I']).real, 'G': 0, 'w': 0, 'phi': 0}
    if k == 'Vc': return 'complex_voltage_source', {'V_real': complex(v['V']).real, 'V_imag': complex(v['V']).imag, 'R': 0, 'X': 0}
    if k == 'Ic': return 'complex_current_source', {'I_real': complex(v['I']).real, 'I_imag': complex(v['I']).imag, 'G': 0, 'B': 0}
    if k == 'Vac': return 'ac_voltage_source', {'V': v['V'], 'R': 0, 'w': v['w'], 'phi': phase_rad(v)}
    if k == 'Iac': return 'ac_current_source', {'I': v['I'], 'G': 0, 'w': v['w'], 'phi': phase_rad(v)}
    if k in ('Vrect', 'Vtri', 'Vsaw'):
        return 'periodic_voltage_source', {'wavetype': WAVE[k], 'V': v['V'], 'w': v['w'], 'phi': phase_rad(v), 'R': 0}
    if k in ('Irect', 'Itri', 'Isaw'):
        return 'periodic_current_source', {'wavetype': WAVE[k], 'I': v['I'], 'w': v['w'], 'phi': phase_rad(v), 'G': 0}
    raise ValueError(k)

SIGNED_KEYS = {'dc_voltage_source': ['V'], 'dc_current_source': ['I'], 'complex_voltage_source': ['V_real', 'V_imag'],
               'complex_current_source': ['I_real', 'I_imag'], 'ac_voltage_source': ['V'], 'ac_current_source': ['I'],
               'periodic_voltage_source': ['V'], 'periodic_current_source': ['I']}

def intended(program):
    """the netlist the program depicts: classes of grid points, names, components"""
    uf = UF()
    for s in program:
        uf.find(tuple(s['a']))
        if 'b' in s:
            uf.find(tuple(s['b']))
        if s['kind'] == 'wire':
            uf.union(tuple(s['a']), tuple(s['b']))
    cls = lambda p: uf.find(tuple(p))
    names = {}
    comps = []
    grounds = []
    for s in program:
        k = s['kind']
        if k in ('node', 'lnode'):
            names.setdefault(cls(s['a']), []).append(s.get('name', ''))
        elif k == 'gnd':
            nm = s.get('name', '0')
            names.setdefault(cls(s['a']), []).append(nm)
            grounds.append(cls(s['a']))
            comps.append(dict(type='ground', id=nm, terms=[cls(s['a'])], pts=[tuple(s['a'])], value={}, kind=k))
        elif k != 'wire':
            typ, val = expected_component(s)
            a, b = cls(s['a']), cls(s['b'])
            # every reversed two-terminal symbol is listed from its end to its start terminal (for a passive
            # element: the same element with the reversed reference direction, as its annotations show it)
            terms = [b, a] if s.get('rev') else [a, b]
            pts = [tuple(s['b']), tuple(s['a'])] if s.get('rev') else [tuple(s['a']), tuple(s['b'])]
            comps.append(dict(type=typ, id=s['name'], terms=terms, pts=pts, value=val, kind=k, rev=bool(s.get('rev')),
                              deg=bool(s.get('vals', {}).get('deg')), sin=bool(s.get('vals', {}).get('sin'))))
    points = sorted({tuple(s['a']) for s in program} | {tuple(s['b']) for s in program if 'b' in s})
    return dict(cls={p: cls(p) for p in points}, names=names, comps=comps, grounds=grounds)

def valid_program(program):
    """the quantifier of C13: unique element names, at most one ground, no name used on two
    different electrical nodes (one node may carry several names, e.g. a label on the ground node: it is
    then called by one of them)"""
    spec = intended(program)
    ids = [c['id'] for c in spec['comps']]
    if len(set(ids)) != len(ids):
        return False
    if len(spec['grounds']) > 1:
        return False
    seen = {}
    for c, ns in spec['names'].items():
        for n in set(ns):
            if n in seen and seen[n] != c:
                return False
            seen[n] = c
    return True

def values_close(a, b, tol=1e-12):
    if isinstance(a, str) or isinstance(b, str):
        return a == b
    a = complex(a); b = complex(b)
    if cmath.isinf(a) or cmath.isinf(b):
        return a == b
    return abs(a - b) <= tol * (1 + max(abs(a), abs(b)))

def compare_with_intended(circuit, spec):
    """None when the translated `Circuit` is the intended netlist up to a bijective renaming of
    unnamed nodes; otherwise (symptom, detail, component-record)"""
    comps = circuit.components
    want = spec['comps']
    if len(comps) != len(want):
        return 'component_count', f'{len(comps)} components, {len(want)} intended', None
    lab2cls, cls2lab = {}, {}
    for c, w in zip(comps, want):
        if c.id != w['id'] or c.type != w['type']:
            return 'identity', f'component {c.id!r}:{c.type} where {w["id"]!r}:{w["type"]} was drawn', w
        if len(c.nodes) != len(w['terms']):
            return 'terminals', f'{c.id}: {len(c.nodes)} terminals', w
        nodes = list(c.nodes); val = dict(c.value); wterms = list(w['terms'])
        # a source listed the other way round with the negated value is the same source
        if w['type'] in SIGNED_KEYS and len(nodes) == 2:
            direct = all(lab2cls.get(n, t) == t for n, t in zip(nodes, wterms))
            if not direct:
                nodes = nodes[::-1]
                for k in SIGNED_KEYS[w['type']]:
                    if k in val:
                        val[k] = -val[k]
        for n, t in zip(nodes, wterms):
            if lab2cls.setdefault(n, t) != t or cls2lab.setdefault(t, n) != n:
                return 'connectivity', f'{c.id}: terminal named {n!r} is not one electrical node of the drawing', w
        if set(val) != set(w['value']):
            return 'value_keys', f'{c.id}: value keys {sorted(val)}', w
        for k in val:
            if not values_close(val[k], w['value'][k]):
                return 'value', f'{c.id}: {k} = {val[k]!r}, drawn {w["value"][k]!r}', w
    for t, ns in spec['names'].items():
        if t in cls2lab and cls2lab[t] not in ns:
            return 'name', f'node named {ns!r} in the drawing is called {cls2lab[t]!r}', None
    if spec['grounds']:
        g = spec['grounds'][0]
        if cls2lab.get(g) != circuit.ground_node:
            return 'reference', f'reference node {circuit.ground_node!r}, ground symbol sits on {cls2lab.get(g)!r}', None
    return None

# --------------------------------------------------------------------------- generators

NAME_POOLS = [
    lambda k, i: f'{k}{i}',
    lambda k, i: f'{"ZYXWVUTSRQPONMLKJIHGFEDCBA"[i % 26]}{i}',
    lambda k, i: f'e{i}',
    lambda k, i: f'{k}_{"abcdefgh"[i % 8]}{i // 8}',
    # names that differ only in case (R0 / r0 — large- and small-signal twins): distinct ids all the same
    # (seeded change C15-5B, a case-folding name table on reload)
    lambda k, i: f'{"Rr"[i % 2]}{i // 2}',
]
NODE_NAME_POOLS = [['A', 'B', 'C', 'D', 'E'], ['1', '2', '3', '4', '5'], ['n1', 'N1', 'out', 'in', 'x'],
                   ['2', 'a', '3', 'b', '10'], ['é', 'Ω', 'µ', 'z', '~']]

def nice(rng, lo=-2, hi=3):
    c = rng.random()
    if c < 0.4:
        return float(rng.randint(1, 20))
    if c < 0.7:
        return float(f'{rng.uniform(1, 9.99):.3g}') * 10.0 ** rng.randint(lo, hi)
    return float(2.0 ** rng.randint(-4, 6))

def signed(rng):
    return nice(rng) * (1 if rng.random() < 0.7 else -1)

def nice_complex(rng):
    return complex(signed(rng) if rng.random() < 0.9 else 0.0, signed(rng) if rng.random() < 0.8 else 0.0)

def random_vals(rng, kind, flags=True):
    if kind == 'R': return {'R': nice(rng)}
    if kind == 'G': return {'G': nice(rng)}
    if kind == 'Z': return {'Z': nice_complex(rng)}
    if kind == 'C': return {'C': nice(rng, -9, -3)}
    if kind == 'L': return {'L': nice(rng, -6, 0)}
    if kind == 'lamp': return {'V_ref': nice(rng), 'P_ref': nice(rng)}
    if kind == 'switch': return {'state': rng.choice(['OPEN', 'CLOSED'])}
    if kind == 'sc': return {}
    if kind == 'V': return {'V': signed(rng)}
    if kind == 'I': return {'I': signed(rng)}
    if kind == 'Vc': return {'V': nice_complex(rng)}
    if kind == 'Ic': return {'I': nice_complex(rng)}
    key = 'V' if kind.startswith('V') else 'I'
    v = {key: signed(rng), 'w': nice(rng, 0, 3), 'phi': rng.choice([0.0, 0.5, -1.25, 2.0, round(rng.uniform(-3, 3), 3)])}
    if flags and rng.random() < 0.35:
        v['deg'] = True
        v['phi'] = rng.choice([0.0, 30.0, 45.0, -90.0, 120.0, float(rng.randint(-180, 180))])
    if flags and kind in ('Vac', 'Iac') and rng.random() < 0.3:
        v['sin'] = True
    return v

def random_program(rng, kinds=None, n_elems=None, flags=True, labels=True, persistable=False):
    """grid walk: elements between grid points, wires with junctions and chains, node labels, ≤ 1 ground"""
    kinds = kinds or (PERSISTABLE if persistable else PASSIVE + SOURCES)
    W, H = rng.randint(2, 3), rng.randint(1, 3)
    pts = [(i, j) for i in range(W + 1) for j in range(H + 1)]
    def segment():
        a = rng.choice(pts)
        c = rng.random()
        while True:
            if c < 0.75:      # unit step, axis aligned
                d = rng.choice([(1, 0), (-1, 0), (0, 1), (0, -1)])
            elif c < 0.9:     # longer axis-aligned step
                d = rng.choice([(2, 0), (-2, 0), (0, 2), (0, -2), (3, 0), (0, -3)])
            else:             # diagonal
                d = rng.choice([(1, 1), (-1, 1), (1, -1), (-1, -1), (2, 1), (1, -2)])
            b = (a[0] + d[0], a[1] + d[1])
            if 0 <= b[0] <= W and 0 <= b[1] <= H:
                return a, b
            a = rng.choice(pts)
    n = n_elems if n_elems is not None else rng.randint(1, 5)
    pool = rng.choice(NAME_POOLS)
    prog = []
    for i in range(n):
        k = rng.choice(kinds)
        a, b = segment()
        prog.append(dict(kind=k, name=pool(k, i), vals=random_vals(rng, k, flags), rev=rng.random() < 0.4,
                         a=a, b=b, place=rng.choice(['endpoints', 'dir', 'chain', 'tox', 'endpoints'])))
    used = [s['a'] for s in prog] + [s['b'] for s in prog]
    # wires: chains and junctions between used points (and sometimes fresh ones)
    for _ in range(rng.randint(0, 5)):
        if rng.random() < 0.6 and used:
            a = rng.choice(used)
            b = rng.choice(used if rng.random() < 0.7 else pts)
            if a == b:
                continue
        else:
            a, b = segment()
        prog.append(dict(kind='wire', a=a, b=b, place=rng.choice(['endpoints', 'dir', 'chain', 'tox']), rev=rng.random() < 0.15))
        used += [a, b]
    # a chain of wires through fresh points
    if rng.random() < 0.3 and used:
        a = rng.choice(used)
        for _ in range(rng.randint(2, 3)):
            b = rng.choice(pts)
            if b != a:
                prog.append(dict(kind='wire', a=a, b=b, place='endpoints'))
                used.append(b); a = b
    rng.shuffle(prog)
    if labels:
        names = list(rng.choice(NODE_NAME_POOLS)); rng.shuffle(names)
        for _ in range(rng.randint(0, 3)):
            if names and used:
                prog.insert(rng.randint(0, len(prog)), dict(kind=rng.choice(['node', 'lnode']), name=names.pop(), a=rng.choice(used)))
    if not persistable or True:
        if rng.random() < 0.7 and used:
            g = dict(kind='gnd', a=rng.choice(used))
            if rng.random() < 0.15:
                g['name'] = rng.choice(['0', 'gnd', 'GND', 'ref'])
            prog.insert(rng.randint(0, len(prog)), g)
    return prog

def ladder_program(rng, kinds_v=None, kinds_h=None, persistable=False, flags=False, ac=False):
    """a well-posed ladder: source in column 0, shunt branches in the other columns, series
    elements (or wires) on the top rail, a wired bottom rail with the ground symbol"""
    n_cols = rng.randint(1, 3)
    pas = ['R', 'G'] if not ac else ['R', 'G', 'Z', 'C', 'L']
    if not persistable and not ac:
        pas = pas + ['lamp']
    src = ['V', 'I'] if not ac else ['Vc', 'Vac', 'Iac', 'V']
    if ac and not persistable:
        src = src + ['Vrect']
    pool = rng.choice(NAME_POOLS)
    prog = []; i = 0
    sk = rng.choice(src)
    prog.append(dict(kind=sk, name=pool(sk, i), vals=random_vals(rng, sk, flags), rev=rng.random() < 0.5,
                     a=(0, 0), b=(0, 1), place=rng.choice(['dir', 'endpoints', 'chain']))); i += 1
    for c in range(1, n_cols + 1):
        # top rail segment (c-1,1) → (c,1): a resistor next to the source, otherwise element or wire
        if c == 1 or rng.random() < 0.6:
            k = 'R' if c == 1 else rng.choice(pas)
            prog.append(dict(kind=k, name=pool(k, i), vals=random_vals(rng, k), rev=rng.random() < 0.3,
                             a=(c - 1, 1), b=(c, 1), place=rng.choice(['chain', 'dir', 'endpoints']))); i += 1
        else:
            prog.append(dict(kind='wire', a=(c - 1, 1), b=(c, 1), place=rng.choice(['chain', 'dir', 'endpoints'])))
        k = rng.choice(pas + (['I'] if not ac and rng.random() < 0.3 else []))
        prog.append(dict(kind=k, name=pool(k, i), vals=random_vals(rng, k), rev=rng.random() < 0.4,
                         a=(c, 1), b=(c, 0), place=rng.choice(['chain', 'dir', 'endpoints']))); i += 1
        prog.append(dict(kind='wire', a=(c, 0), b=(c - 1, 0), place=rng.choice(['chain', 'dir', 'endpoints'])))
    prog.append(dict(kind='gnd', a=(rng.randint(0, n_cols), 0)))
    if rng.random() < 0.5:
        prog.append(dict(kind=rng.choice(['node', 'lnode']), name=rng.choice(['A', 'out', '7', 'x1']), a=(rng.randint(0, n_cols), 1)))
    return prog

def random_geometry(rng, base=None):
    g = dict(rot=rng.randint(0, 3), unit=float(rng.choice([2, 3, 4, 5, 7, 10, 2.5, 7.5, 3.3])),
             dx=rng.choice([0.0, 1.0, -2.0, 0.5, 0.25, 0.1, -0.3, 12.34, 100.0, -0.07]),
             dy=rng.choice([0.0, 3.0, -1.0, 0.5, 0.75, 0.2, 0.9, -7.77, 50.0, 0.01]))
    return g

TIE_OFFSETS = [0.005, 1.005, 0.015, 0.045, 2.675, 0.125, 0.375, 1.115, -0.005, 0.625]
def tie_geometry(rng):
    """offsets / units that put grid coordinates on (or within float noise of) a tie of round(x, 2)"""
    return dict(rot=rng.randint(0, 3), unit=float(rng.choice([3, 2, 5, 2.125, 2.5, 3.125, 4])),
                dx=rng.choice(TIE_OFFSETS + [0.0]), dy=rng.choice(TIE_OFFSETS))

def linear_source_program(rng):
    """a loop source – R – R – wire with a ground; the source is a linear (lossy) DC source.  Returns
    (program, geometry): the unit is the length of the source symbol"""
    k = rng.choice(list(LINEAR))
    unit = LINEAR[k][1]
    key = 'V' if k == 'Vreal' else 'I'
    corners = [(0, 0), (0, 1), (1, 1), (1, 0)]
    r = rng.randint(0, 3)
    if rng.random() < 0.5:
        corners = corners[::-1]
    c = corners[r:] + corners[:r]
    prog = [dict(kind=k, name='Sq', vals={key: signed(rng), 'R': nice(rng)}, rev=False, a=c[0], b=c[1]),
            dict(kind='R', name='R1', vals={'R': nice(rng)}, rev=rng.random() < 0.3, a=c[1], b=c[2], place=rng.choice(['endpoints', 'dir'])),
            dict(kind=rng.choice(['R', 'G']), name='R2', vals={}, a=c[2], b=c[3], place='endpoints'),
            dict(kind='wire', a=c[3], b=c[0], place='endpoints'), dict(kind='gnd', a=c[rng.randint(0, 3)])]
    prog[2]['vals'] = random_vals(rng, prog[2]['kind'])
    return prog, dict(rot=rng.randint(0, 3), unit=unit, dx=rng.choice([0.0, 1.0, -2.5]), dy=rng.choice([0.0, 0.5, 7.0]))

def subdivide_wires(rng, program, factor=3):
    """every wire becomes a chain through fresh points of the `factor`× refined grid (when the
    candidate points are unused); all grid coordinates are multiplied by `factor`"""
    scaled = []
    for s in program:
        t = dict(s)
        t['a'] = (s['a'][0] * factor, s['a'][1] * factor)
        if 'b' in s:
            t['b'] = (s['b'][0] * factor, s['b'][1] * factor)
        scaled.append(t)
    used = {t['a'] for t in scaled} | {t['b'] for t in scaled if 'b' in t}
    out = []
    for t in scaled:
        if t['kind'] != 'wire' or rng.random() < 0.25:
            out.append(t); continue
        a, b = t['a'], t['b']
        n = rng.choice([2, 3]) if factor >= 3 else 2
        mids = [(a[0] + (b[0] - a[0]) * j // n, a[1] + (b[1] - a[1]) * j // n) for j in range(1, n)]
        exact = all((b[0] - a[0]) * j % n == 0 and (b[1] - a[1]) * j % n == 0 for j in range(1, n))
        if not exact or any(m in used for m in mids) or len(set(mids)) != len(mids):
            out.append(t); continue
        used |= set(mids)
        chain = [a] + mids + [b]
        segs = [dict(kind='wire', a=chain[j], b=chain[j + 1], place='endpoints') for j in range(len(chain) - 1)]
        if rng.random() < 0.5:
            rng.shuffle(segs)
        if rng.random() < 0.3:
            segs = [dict(s, a=s['b'], b=s['a']) if rng.random() < 0.5 else s for s in segs]
        out += segs
    return out

def shuffled(rng, program):
    """the same symbols inserted in another order (every placement made absolute)"""
    p = [dict(s, place='endpoints') if 'b' in s else dict(s) for s in program]
    rng.shuffle(p)
    return p

def pretty(program, geom=None):
    rows = []
    for s in program:
        if 'b' in s:
            rows.append(f"{s['kind']}:{s.get('name', '')}{'~' if s.get('rev') else ''}{'(positional)' if s.get('positional') else ''} {tuple(s['a'])}->{tuple(s['b'])} {s.get('vals', '')}")
        else:
            rows.append(f"{s['kind']}:{s.get('name', '')} @{tuple(s['a'])}")
    return dict(geometry=geom, steps=rows)
