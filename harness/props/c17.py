"""
C17 — loading describes exactly what was written, without side effects.

Correspondence (model = CC/Model/Load.lean through the driver, implementation = the real
functions of Network/loaders.py, dump_load.py, Circuit/dump_load.py, in process):
  to_complex, load_network (+ second load of the same object, + load_network_from_json),
  generate_component, undictify_circuit, Circuit.dump_load.deserialize,
  dictify/undictify(_all)_complex_values, serialize, deserialize, dump, load —
  results *and* the post-state of every argument (deep, ordered), on generated
  descriptions of every kind of both tables, both complex notations, nested documents,
  JSON and YAML, plus a malformed stream.
Oracle on the implementation (independent of the model): an intended-meaning table per kind
(written from the property text), deep snapshots of the argument before/after, a second
load of the same object, round trip through serialize/deserialize.
"""
from __future__ import annotations
import copy, json, math, cmath, os, tempfile
from fractions import Fraction
import numpy as np
import core

ID = 'C17'
LEAN_MODULE = 'CC.Properties.C17'
LEVEL = 'proof'
THEOREMS = [
    'CC.C17_polar_cartesian', 'CC.C17_polar_eq_cartesian', 'CC.C17_degree_radian', 'CC.C17_undictify_notations',
    'CC.C17_faithful', 'CC.C17_table_total', 'CC.C17_table_wellformed', 'CC.C17_circuit_table_total',
    'CC.C17_toComplex_pure', 'CC.C17_pure', 'CC.C17_idempotent', 'CC.C17_circuit_pure', 'CC.C17_circuit_idempotent',
    'CC.C17_roundtrip', 'CC.C17_roundtrip_codec', 'CC.C17_dictify_converts', 'CC.C17_undictify_scalar_list',
    'CC.C17_circuit_complex', 'CC.C17_no_decorated_loader', 'CC.C17_notation_shape', 'CC.C17_mixed_keys',
]
# round 5 (CC/Properties/C17Circuit.lean): the circuit loader through the dictionary -> constructor-call step, every kind, every entry dictionary
LEAN_MODULE_EXTRA = list(globals().get('LEAN_MODULE_EXTRA', [])) + ['CC.Properties.C17Circuit']
THEOREMS += [
    'CC.C17_circuit_fields', 'CC.C17_circuit_entry_keys_ignored', 'CC.C17_circuit_missing_key', 'CC.C17_circuit_unknown_kind',
    'CC.C17_circuit_table_wellformed', 'CC.C17_circuit_loads_given', 'CC.C17_circuit_faithful', 'CC.C17_circuit_bad_value_block',
    'CC.C17_circuit_ctor_tables_agree', 'CC.C17_circuit_constructor_half', 'CC.C17_circuit_translator_reads_loaded',
]
# round 5b (CC/Properties/C17Simulation.lean): the two constructor interpreters simulate each other; Load.accepts is exact
LEAN_MODULE_EXTRA = list(LEAN_MODULE_EXTRA) + ['CC.Properties.C17Simulation']
THEOREMS += [
    'CC.C17_constructors_simulate', 'CC.C17_constructors_simulate_cases', 'CC.C17_loaders_simulate', 'CC.C17_loader_table_lookup',
    'CC.C17_simulation_needs_unique_keys', 'CC.C17_circuit_accepts_iff', 'CC.C17_circuit_rejects',
]
OPEN_STATEMENTS = [
    'circuit loader, simulation of the two constructor interpreters (closed in round 5b by C17_constructors_simulate / C17_loaders_simulate up to the '
    'explicit translation Load.J.toVal? / Load.Obj.toArgs?): what stays outside the theorem is by type — a value block with a None / list / dictionary '
    'leaf has no counterpart in the Circuit group\'s `Val` (the loader side alone: C17_circuit_rejects), `Val.inf` has no JSON counterpart, a boolean '
    'leaf is identified with the number it equals (True ↦ 1), the value block must have no key twice (C17_simulation_needs_unique_keys: not droppable '
    'for key lists that are no Python dict), and for a `type` outside the table the two models name one Python exception differently '
    '(.other "UnknownCircuitComponent" / .unknownKind); both models remain tied to the code by their correspondence runs only',
    'circuit loader: Circuit.__post_init__ on the component list (mkCircuit) is C19\'s; Load.accepts is now exact (C17_circuit_accepts_iff) and every '
    'failing branch is named with its exception (C17_circuit_rejects) for entries whose `value` is a dictionary and whose `type` is a kind of the table '
    '(other entries: C17_circuit_missing_key, C17_circuit_unknown_kind, C17_circuit_bad_value_block)',
]
ASSUMPTIONS = [
    'json/yaml are parameters of the model: `loads (dumps t) = t` on plain trees for the library pairs of the two tables (LosslessCodec; checked per case by the round-trip oracle; satisfiability shown by a toy codec only)',
    'cos, sin, the binary64 product x*(pi/180) and np.deg2rad are parameters (the harness passes numpy\'s values); polar values are compared within 1e-12 relative',
    'hand-written model CC/Model/Load.lean is tied to the code by this correspondence; its tables are generated (CC/Gen/LoadTables.lean)',
    'domain of the correspondence: string keys; a phase is a JSON number (bool/complex/list phases go through numpy broadcasting and are not modelled)',
]

# --------------------------------------------------------------------------- wire encoding

def enc_key(k):
    """a dictionary key -> string: strings as they are; numbers / booleans / None injectively with a control-character tag
    (equal keys — 1, 1.0, True — get equal encodings, as they are one key for Python); see CC/Model/Load.lean `keyClass`"""
    if isinstance(k, str):
        return k
    if k is None:
        return '\u0001none'
    if isinstance(k, (bool, int, float, np.integer, np.floating)):
        return '\u0001n:' + core.q(int(k) if isinstance(k, (bool, np.bool_)) else k)
    raise TypeError(f'cannot encode key {k!r}')

def dec_key(s):
    if s == '\u0001none': return None
    if s.startswith('\u0001n:'):
        fr = Fraction(s[3:]); return int(fr) if fr.denominator == 1 else float(fr)
    return s

def enc(x):
    """Python value -> wire tree (see CC/Driver/DLoad.lean)"""
    if x is None:
        return None
    if isinstance(x, bool):
        return x
    if isinstance(x, (int, Fraction)):
        return {'n': core.q(x)}
    if isinstance(x, (float, np.floating)):
        return {'n': core.q(float(x))}
    if isinstance(x, (complex, np.complexfloating)):
        return {'c': core.qc(complex(x))}
    if isinstance(x, str):
        return x
    if isinstance(x, (list, tuple)):
        return [enc(v) for v in x]
    if isinstance(x, dict):
        return {'o': [[enc_key(k), enc(v)] for k, v in x.items()]}
    raise TypeError(f'cannot encode {type(x).__name__}')

def dec(w):
    """wire tree -> Python value (numbers as float when not integral)"""
    if w is None or isinstance(w, (bool, str)):
        return w
    if isinstance(w, list):
        return [dec(v) for v in w]
    if 'n' in w:
        fr = Fraction(w['n'])
        return int(fr) if fr.denominator == 1 and '/' not in w['n'] and abs(fr) < 2 ** 53 and False else float(fr)
    if 'c' in w:
        return core.cfloat(w['c'])
    return {dec_key(k): dec(v) for k, v in w['o']}

def relclose(a, b, tol=1e-12):
    """agreement RELATIVE to the magnitude of the value itself: |a − b| ≤ tol · max(|a|, |b|), no absolute floor — a 0.4 pA
    source is judged as strictly as a 400 A one"""
    return core.rclose(a, b, 0.0, tol)

def same(a, b, tol=1e-12):
    """wire trees equal: exactly, except complex leaves within `tol` relative"""
    if type(a) != type(b):
        return False
    if isinstance(a, list):
        return len(a) == len(b) and all(same(x, y, tol) for x, y in zip(a, b))
    if isinstance(a, dict):
        if set(a) != set(b):
            return False
        if 'n' in a:
            # exact, except for real/imaginary parts of a polar value split again by dictify (1e-12)
            return Fraction(a['n']) == Fraction(b['n']) or relclose(float(Fraction(a['n'])), float(Fraction(b['n'])), tol)
        if 'c' in a:
            if core.unqc(a['c']) == core.unqc(b['c']):
                return True
            return relclose(core.cfloat(a['c']), core.cfloat(b['c']), tol)
        return len(a['o']) == len(b['o']) and all(x[0] == y[0] and same(x[1], y[1], tol) for x, y in zip(a['o'], b['o']))
    return a == b

EXC = {'FileFormatError': 'FileFormatError', 'FileExistsError': 'FileExistsError', 'KeyError': 'KeyError',
       'IndexError': 'KeyError', 'TypeError': 'TypeError', 'UFuncTypeError': 'TypeError', '_UFuncNoLoopError': 'TypeError',
       'ValueError': 'ValueError', 'JSONDecodeError': 'ValueError',
       'AttributeError': 'AttributeError', 'FloatingGroundNode': 'FloatingGroundNode', 'AmbiguousBranchIDs': 'AmbiguousIDs',
       'AmbiguousComponentID': 'AmbiguousIDs', 'MultipleGroundNodes': 'MultipleGroundNodes',
       'UnidentifiedComponent': 'UnidentifiedComponent', 'UnknownCircuitComponent': 'UnknownCircuitComponent',
       'IncorrectComponentInformation': 'IncorrectComponentInformation'}

def tag(e):
    n = type(e).__name__
    if n in EXC:
        return EXC[n]
    for base in type(e).__mro__:
        if base.__name__ in ('TypeError', 'ValueError', 'KeyError', 'AttributeError'):
            return base.__name__
    return n

def attempt(f, *a, **k):
    try:
        return ('ok', f(*a, **k))
    except Exception as e:            # noqa: BLE001 — every exception class is an observable outcome
        return ('err', tag(e))

# --------------------------------------------------------------------------- trig parameters

def _numbers_at(x, keys, out):
    if isinstance(x, dict):
        for k, v in x.items():
            if k in keys and isinstance(v, (int, float)) and not isinstance(v, bool):
                out.add(float(v))
            _numbers_at(v, keys, out)
    elif isinstance(x, (list, tuple)):
        for v in x:
            _numbers_at(v, keys, out)

def trig_for(*trees, depth=3):
    """library values of the model's parameters for every phase occurring in the trees"""
    ph, pd = set(), set()
    for t in trees:
        _numbers_at(t, ('phase',), ph)
        _numbers_at(t, ('phase_deg',), pd)
    rad, cs, d2r = [], [], []
    xs = set(ph)
    for x in list(ph):
        y = x
        for _ in range(depth):
            y2 = y * np.pi / 180          # as loaders.to_complex computes it
            rad.append([core.q(y), core.q(y2)])
            xs.add(y2); y = y2
    for x in pd:
        y = float(np.deg2rad(x))
        d2r.append([core.q(x), core.q(y)])
        xs.add(y)
    for x in xs:
        cs.append([core.q(x), core.q(float(np.cos(x))), core.q(float(np.sin(x)))])
    return dict(cs=cs, rad=rad, deg2rad=d2r)

# --------------------------------------------------------------------------- generators

LABELS = ['0', '1', '2', 'a', 'B', '10', 'gnd', 'é', ' ']
IDS = ['R1', 'Z9', 'a', '10', 'Vq', 'ü', 'x y', 'A1', 'name', 'type', 'id']
PHASES_DEG = [0, 30, 45, 60, 90, 120, 180, -90, -45, 270, 360, 12.5, 1e-3]

def num(rng, positive=False):
    c = rng.random()
    if c < 0.3: v = rng.randint(0 if positive else -9, 12)
    elif c < 0.6: v = float(2.0 ** rng.randint(-6, 8)) * (1 if positive else rng.choice([1, 1, -1]))
    elif c < 0.9: v = float(f'{rng.uniform(0.001, 999):.4g}') * (1 if positive else rng.choice([1, 1, -1]))
    else: v = rng.choice([0, 0.0, 1, 0.1, 1e-9, 1e9, 3.141592653589793])
    return v

SI_MAGNITUDES = [10.0 ** k for k in range(-15, 13)] + [2.0 ** k for k in (-50, -40, -30, -20, -10, 10, 20, 30, 40)]

def si_value(rng):
    """small / large SI magnitudes (1e-15 … 1e12; exact decades and powers of two, times a short mantissa)"""
    return rng.choice(SI_MAGNITUDES) * rng.choice([1.0, 1.0, 2.5, 0.4, 250.0, 4.7]) * rng.choice([1, 1, 1, -1])

def cx_notation(rng, notation=None):
    """a complex number in one of the documented notations; returns (tree, kind)"""
    notation = notation or rng.choice(['cart', 'polar'])
    if notation == 'cart':
        d = {'real': num(rng), 'imag': num(rng)}
        if rng.random() < 0.25: d = {'real': si_value(rng), 'imag': rng.choice([0.0, si_value(rng)])}
        if rng.random() < 0.3:
            d = {'imag': d['imag'], 'real': d['real']}
    else:
        ph = rng.choice([math.radians(p) for p in PHASES_DEG] + [num(rng), 0.5, -2.25, 1, 3])
        d = {'abs': num(rng, positive=rng.random() < 0.8), 'phase': ph}
        if rng.random() < 0.4: d['abs'] = si_value(rng)
        if rng.random() < 0.3:
            d = {'phase': d['phase'], 'abs': d['abs']}
    return d, notation

def intended_complex(d):
    """independent reading of a complex notation (cmath, not numpy)"""
    if 'real' in d and 'imag' in d:
        return complex(d['real'], d['imag'])
    return d['abs'] * cmath.rect(1.0, d['phase'])

# kind -> (fields: name -> ('cx'|'plain', required), record, a, b, element type); a/b: field name or 0
INTENDED = {
    'resistor': ({'R': ('plain', True)}, 'N', 'R', 0, 'resistor'),
    'conductor': ({'G': ('plain', True)}, 'T', 'G', 0, 'conductor'),
    'impedance': ({'Z': ('cx', True)}, 'N', 'Z', 0, 'impedance'),
    'admittance': ({'Y': ('cx', True)}, 'T', 'Y', 0, 'admittance'),
    'linear_current_source': ({'I': ('cx', True), 'Y': ('cx', True)}, 'T', 'Y', 'I', 'current_source'),
    'current_source': ({'I': ('cx', True)}, 'T', 0, 'I', 'current_source'),
    'real_current_source': ({'I': ('plain', True), 'Y': ('plain', False)}, 'T', 'Y', 'I', 'current_source'),
    'linear_voltage_source': ({'V': ('cx', True), 'Z': ('cx', True)}, 'N', 'Z', 'V', 'voltage_source'),
    'voltage_source': ({'V': ('cx', True)}, 'N', 0, 'V', 'voltage_source'),
    'real_voltage_source': ({'V': ('plain', True), 'Z': ('plain', False)}, 'N', 'Z', 'V', 'voltage_source'),
    'short_circuit': ({}, 'N', 0, 0, 'short_circuit'),
    'open_circuit': ({}, 'T', 0, 0, 'open_circuit'),
}

def gen_entry(rng, kind, ident, n1, n2, notation=None):
    spec = INTENDED.get(kind)
    fields = {}
    if spec is not None:
        for f, (ty, req) in spec[0].items():
            if not req and rng.random() < 0.5:
                continue
            fields[f] = cx_notation(rng, notation)[0] if ty == 'cx' else num(rng)
    items = [('type', kind), ('id', ident), ('N1', n1), ('N2', n2)] + list(fields.items())
    if rng.random() < 0.5:
        rng.shuffle(items)
    return dict(items)

def gen_description(rng, kinds, n=None, notation=None, ground=True):
    n = n or rng.randint(1, 6)
    labels = ['0'] + rng.sample(LABELS[1:], rng.randint(1, 4)) if ground else rng.sample(LABELS[1:], 2)
    ids = rng.sample(IDS, min(n, len(IDS)))
    desc = []
    for i in range(n):
        a, b = rng.sample(labels, 2) if len(labels) > 1 else (labels[0], labels[0])
        desc.append(gen_entry(rng, rng.choice(kinds), ids[i % len(ids)] + ('' if i < len(ids) else str(i)), a, b, notation))
    if ground and not any('0' in (e['N1'], e['N2']) for e in desc):
        desc[0]['N1'] = '0'
    return desc

MALFORM = ['drop_N1', 'drop_N2', 'drop_id', 'drop_type', 'unknown_type', 'extra_key', 'drop_value', 'value_wrong_type',
           'bad_complex', 'entry_not_dict', 'dup_id', 'no_ground', 'name_present', 'type_not_str', 'plain_for_complex',
           'complex_for_plain']

def malform(rng, desc, how):
    desc = copy.deepcopy(desc)
    e = rng.choice(desc)
    i = desc.index(e)
    vals = [k for k in e if k not in ('type', 'id', 'N1', 'N2')]
    if how.startswith('drop_') and how != 'drop_value': e.pop(how[5:], None)
    elif how == 'unknown_type': e['type'] = rng.choice(['nope', 'Resistor', '', 'capacitor'])
    elif how == 'extra_key': e[rng.choice(['extra', 'Q', 'name2'])] = num(rng)
    elif how == 'drop_value' and vals: e.pop(rng.choice(vals))
    elif how == 'value_wrong_type' and vals: e[rng.choice(vals)] = rng.choice(['x', None, [1, 2], {}])
    elif how == 'bad_complex' and vals:
        e[rng.choice(vals)] = rng.choice([{'real': 1}, {'abs': 2}, {'real': 'a', 'imag': 1}, {'abs': 1, 'phase': 'p'},
                                          {'abs': None, 'phase': 0}, {'real': None, 'imag': 2, 'abs': 3, 'phase': 0.5},
                                          {'phase': 1.5}, {'abs': 'x', 'phase': 0}, {}])
    elif how == 'entry_not_dict': desc[i] = rng.choice([3, None, 'R', [1]])
    elif how == 'dup_id' and len(desc) > 1: desc[(i + 1) % len(desc)]['id'] = e.get('id')
    elif how == 'no_ground':
        for d in desc:
            for k in ('N1', 'N2'):
                if d.get(k) == '0': d[k] = 'z'
    elif how == 'name_present': e['name'] = rng.choice(['other', e.get('id')])
    elif how == 'type_not_str': e['type'] = rng.choice([1, None, ['resistor'], {'a': 1}])
    elif how == 'plain_for_complex' and vals: e[rng.choice(vals)] = num(rng)
    elif how == 'complex_for_plain' and vals: e[rng.choice(vals)] = cx_notation(rng)[0]
    return desc

NONSTR_KEYS = [2, 3, 7, -1, 0, 1.5, 0.25, True, None]          # YAML mapping keys (no two of them equal: 1 == 1.0 == True is one key)

def gen_tree(rng, depth=0, cx=True, cxlike=True, scalars_in_lists=False, bad=False, nonstr_keys=0.0, numpy_leaves=0.0, numpy_floats=False):
    """a dict-rooted document; `nonstr_keys`: probability of an int / float / bool / None key (YAML documents, direct calls);
    `numpy_leaves`: probability that a complex leaf is a numpy.complex128 (a solver result); `numpy_floats`: real leaves may be
    numpy.float64 (json carries them, yaml does not — not a complex value)"""
    d = {}
    kw = dict(cx=cx, cxlike=cxlike, scalars_in_lists=scalars_in_lists, bad=bad, nonstr_keys=nonstr_keys, numpy_leaves=numpy_leaves,
              numpy_floats=numpy_floats)
    for i in range(rng.randint(0 if depth else 1, 4)):
        key = rng.choice(['a', 'b', 'z', 'value', 'nodes', 'k%d' % i, 'Real', 'ABS', 'phase2', 'é', 'list'])
        if rng.random() < nonstr_keys: key = rng.choice(NONSTR_KEYS)
        c = rng.random()
        if c < 0.22: v = np.float64(num(rng)) if numpy_floats and rng.random() < 0.3 else num(rng)
        elif c < 0.30: v = rng.choice(['s', '', 'yes', '1', 'null', 'ü'])
        elif c < 0.34: v = rng.choice([None, True, False])
        elif c < 0.46 and cx:
            v = complex(num(rng), num(rng))
            if rng.random() < numpy_leaves: v = np.complex128(v)
        elif c < 0.60 and cxlike:
            r = rng.random()
            if r < 0.4: v = cx_notation(rng, 'cart')[0]
            elif r < 0.7: v = cx_notation(rng, 'polar')[0]
            else: v = {'abs': num(rng, positive=rng.random() < 0.8), 'phase_deg': rng.choice(PHASES_DEG)}
            if 'abs' in v and rng.random() < 0.15: v['abs'] = rng.choice([0, 0.0])
            if bad and rng.random() < 0.4:
                v = rng.choice([{'real': 'x', 'imag': 1}, {'abs': -1, 'phase': 0}, {'abs': 'a', 'phase': 0},
                                {'abs': 1, 'phase': None}, {'real': None, 'imag': 0}, {'abs': -2.5, 'phase_deg': 10},
                                {'abs': 1, 'phase_deg': 'x'}, {'real': 1, 'imag': 2, 'extra': 3}, {'real': 1}])
        elif c < 0.80 and depth < 3: v = gen_tree(rng, depth + 1, **kw)
        elif depth < 3:
            v = [gen_tree(rng, depth + 1, **kw) for _ in range(rng.randint(0, 3))]
            if scalars_in_lists and rng.random() < 0.6:
                v.insert(rng.randint(0, len(v)), rng.choice([1, 'n', None, [1], 2.5, complex(0, 1) if cx else 0]))
        else: v = num(rng)
        d[key] = v
    return d

def has_complex(t):
    if isinstance(t, complex): return True
    if isinstance(t, dict): return any(has_complex(v) for v in t.values())
    if isinstance(t, list): return any(has_complex(v) for v in t)
    return False

def rp(t):
    """a document as it goes into a replay file: itself when JSON can carry it (string keys), else its wire encoding"""
    return {'__wire__': enc(t), 'numpy_complex': has_numpy_complex(t)} if has_nonstr_key(t) or has_numpy_complex(t) else t

def from_rp(x):
    if isinstance(x, dict) and set(x) == {'__wire__', 'numpy_complex'}:
        def conv(v):
            if isinstance(v, complex): return np.complex128(v) if x['numpy_complex'] else v
            if isinstance(v, dict): return {k: conv(w) for k, w in v.items()}
            if isinstance(v, list): return [conv(w) for w in v]
            return v
        return conv(dec(x['__wire__']))
    return x

def has_nonstr_key(t):
    if isinstance(t, dict): return any(not isinstance(k, str) or has_nonstr_key(v) for k, v in t.items())
    if isinstance(t, list): return any(has_nonstr_key(v) for v in t)
    return False

def has_mixed_keys(t):
    cls = lambda k: 0 if isinstance(k, str) else 2 if k is None else 1
    if isinstance(t, dict): return len({cls(k) for k in t}) > 1 or any(has_mixed_keys(v) for v in t.values())
    if isinstance(t, list): return any(has_mixed_keys(v) for v in t)
    return False

def has_numpy_complex(t):
    if isinstance(t, np.complexfloating): return True
    if isinstance(t, dict): return any(has_numpy_complex(v) for v in t.values())
    if isinstance(t, list): return any(has_numpy_complex(v) for v in t)
    return False

def has_scalar_in_list(t):
    if isinstance(t, dict): return any(has_scalar_in_list(v) for v in t.values())
    if isinstance(t, list): return any(not isinstance(v, dict) or has_scalar_in_list(v) for v in t)
    return False

def has_cxlike(t):
    if isinstance(t, dict):
        return any((isinstance(v, dict) and set(v) in ({'imag', 'real'}, {'abs', 'phase'}, {'abs', 'phase_deg'})) or has_cxlike(v)
                   for v in t.values())
    if isinstance(t, list): return any(has_cxlike(v) for v in t)
    return False

def complex_in_list(t):
    if isinstance(t, dict): return any(complex_in_list(v) for v in t.values())
    if isinstance(t, list): return any(isinstance(v, complex) or complex_in_list(v) for v in t)
    return False

# circuit side: kind -> {param: ('real'|'cx', required)}, and the value dictionary the component must carry
INTENDED_C = {
    'resistor': ({'R': ('real', True)}, lambda v: {'R': v['R']}),
    'conductance': ({'G': ('real', True)}, lambda v: {'G': v['G']}),
    'impedance': ({'Z': ('cx', True)}, lambda v: {'R': v['Z'].real, 'X': v['Z'].imag}),
    'admittance': ({'Y': ('cx', True)}, lambda v: {'G': v['Y'].real, 'B': v['Y'].imag}),
    'dc_voltage_source': ({'V': ('real', True), 'R': ('real', False)}, lambda v: {'V': v['V'], 'R': v.get('R', 0), 'w': 0, 'phi': 0}),
    'ac_voltage_source': ({'V': ('real', True), 'R': ('real', False), 'w': ('real', False), 'phi': ('real', False)},
                          lambda v: {'V': v['V'], 'R': v.get('R', 0), 'w': v.get('w', 0), 'phi': v.get('phi', 0)}),
    'complex_voltage_source': ({'V': ('cx', True), 'Z': ('cx', False)},
                               lambda v: {'V_real': v['V'].real, 'V_imag': v['V'].imag, 'R': complex(v.get('Z', 0)).real, 'X': complex(v.get('Z', 0)).imag}),
    'dc_current_source': ({'I': ('real', True), 'G': ('real', False)}, lambda v: {'I': v['I'], 'G': v.get('G', 0), 'w': 0, 'phi': 0}),
    'ac_current_source': ({'I': ('real', True), 'G': ('real', False), 'w': ('real', False), 'phi': ('real', False)},
                          lambda v: {'I': v['I'], 'G': v.get('G', 0), 'w': v.get('w', 0), 'phi': v.get('phi', 0)}),
    'complex_current_source': ({'I': ('cx', True), 'Y': ('cx', False)},
                               lambda v: {'I_real': v['I'].real, 'I_imag': v['I'].imag, 'G': complex(v.get('Y', 0)).real, 'B': complex(v.get('Y', 0)).imag}),
}
NONNEG = {'R', 'G', 'w'}

def gen_component(rng, kind, ident, nodes, cx_as='python'):
    """returns (component dict, intended python values per parameter)"""
    spec = INTENDED_C.get(kind)
    value, meaning = {}, {}
    if spec is not None:
        for p, (ty, req) in spec[0].items():
            if not req and rng.random() < 0.5:
                continue
            if ty == 'real':
                v = num(rng, positive=p in NONNEG)
                value[p] = v; meaning[p] = v
            else:
                if cx_as == 'python':
                    z = complex(num(rng), num(rng)); value[p] = z; meaning[p] = z
                elif cx_as == 'real':
                    v = num(rng); value[p] = v; meaning[p] = complex(v)
                else:
                    d, _ = cx_notation(rng, cx_as)
                    if 'abs' in d: d['abs'] = abs(d['abs'])      # dump_load's notations demand abs >= 0
                    value[p] = d; meaning[p] = intended_complex(d)
    items = [('type', kind), ('id', ident), ('nodes', list(nodes)), ('value', value)]
    if rng.random() < 0.4:
        rng.shuffle(items)
    return dict(items), meaning

MALFORM_C = ['drop_id', 'drop_type', 'drop_nodes', 'drop_value', 'unknown_type', 'extra_value_key', 'drop_value_key',
             'negative', 'value_wrong_type', 'value_not_dict', 'extra_key', 'id_in_value', 'nodes_empty', 'not_dict', 'dup_id']

def malform_c(rng, comps, how):
    comps = copy.deepcopy(comps)
    c = rng.choice(comps); i = comps.index(c)
    val = c.get('value') if isinstance(c.get('value'), dict) else {}
    if how in ('drop_id', 'drop_type', 'drop_nodes', 'drop_value'): c.pop(how[5:], None)
    elif how == 'unknown_type': c['type'] = rng.choice(['capacitor', 'nope', '', 'ground', 1, None])
    elif how == 'extra_value_key': val[rng.choice(['Q', 'w', 'phi', 'X'])] = 1
    elif how == 'drop_value_key' and val: val.pop(rng.choice(list(val)))
    elif how == 'negative' and val:
        k = rng.choice(list(val))
        if isinstance(val[k], (int, float)): val[k] = -abs(val[k]) - 1
    elif how == 'value_wrong_type' and val: val[rng.choice(list(val))] = rng.choice(['x', None, [1], {'real': 1, 'imag': 2}])
    elif how == 'value_not_dict': c['value'] = rng.choice([None, [1], 3, 'v'])
    elif how == 'extra_key': c['comment'] = 'hello'
    elif how == 'id_in_value': val[rng.choice(['id', 'nodes'])] = 'x'
    elif how == 'nodes_empty': c['nodes'] = rng.choice([[], '', None, 'ab'])
    elif how == 'not_dict': comps[i] = rng.choice([1, None, 'c'])
    elif how == 'dup_id' and len(comps) > 1: comps[(i + 1) % len(comps)]['id'] = c.get('id')
    return comps

# --------------------------------------------------------------------------- implementation adapters

def element_wire(b):
    e = b.element
    nort = type(e).__name__ == 'NortenElement'
    return dict(n1=enc(b.node1), n2=enc(b.node2), name=enc(e.name), ty=e.type, norton=nort,
                a=enc(e.Z if nort else e.Y), b=enc(e.V if nort else e.I))

def network_wire(net):
    return [element_wire(b) for b in net.branches]

def component_wire(c):
    return dict(ty=c.type, id=enc(c.id), nodes=enc(c.nodes), value=enc(c.value))

def circuit_wire(c):
    return dict(components=[component_wire(x) for x in c.components], ground=enc(c.ground_node))

def res_same(model, impl_kind, impl_val, cmp):
    """model = {"ok": …} | {"err": tag}; impl = ('ok', wire) | ('err', tag)"""
    if impl_kind == 'err':
        return model.get('err') == impl_val
    return 'ok' in model and cmp(model['ok'], impl_val)

def branches_same(m, i):
    return len(m) == len(i) and all(x['ty'] == y['ty'] and x['norton'] == y['norton'] and
                                    all(same(x[k], y[k]) for k in ('n1', 'n2', 'name', 'a', 'b')) for x, y in zip(m, i))

def comp_same(x, y):
    return x['ty'] == y['ty'] and all(same(x[k], y[k]) for k in ('id', 'nodes', 'value'))

def circ_same(m, i):
    return same(m['ground'], i['ground']) and len(m['components']) == len(i['components']) and \
        all(comp_same(x, y) for x, y in zip(m['components'], i['components']))

def diff_keys(before: dict, after: dict):
    removed = sorted(k for k in before if k not in after)
    added = sorted(k for k in after if k not in before)
    changed = sorted(k for k in before if k in after and enc(before[k]) != enc(after[k]))
    return ','.join(removed), ','.join(added), ','.join(changed)

# --------------------------------------------------------------------------- checks

def check_to_complex(ctx, out, z, deg, origin='gen'):
    from CircuitCalculator.Network import loaders as L
    out.evaluations += 1
    out.count('to_complex:' + ('deg' if deg else 'rad'))
    z_impl = copy.deepcopy(z)
    before = enc(z_impl)
    kind, val = attempt(L.to_complex, z_impl, deg) if deg is not None else attempt(L.to_complex, z_impl)
    after = enc(z_impl)
    if ctx.driver is not None:
        m = ctx.driver.call('c17_to_complex', z=before, deg=bool(deg), trig=trig_for(z))
        ok = res_same(m['res'], kind, core.qc(val) if kind == 'ok' else val,
                      lambda a, b: core.unqc(a) == core.unqc(b) or relclose(core.cfloat(a), core.cfloat(b), 1e-12))
        if not ok or not same(m['post'], after):
            out.disagree('to_complex', dict(z=z, degree=deg), dict(res=(kind, str(val)), post=after), m)
        out.traces_validated += 1
    # oracle: the argument is not changed
    if before != after and isinstance(z, dict):
        r, a, c = diff_keys(z, z_impl)
        out.spec_fail(dict(op='to_complex', symptom='argument_mutated', degree=bool(deg), removed=r, added=a, changed=c),
                      'to_complex changed the dictionary it was given', dict(z=z, degree=deg),
                      impl=dict(after=z_impl), spec='argument unchanged')
    # oracle: the value is the denoted number
    if isinstance(z, dict) and kind == 'ok':
        want = None
        if all(isinstance(z.get(k), (int, float)) and not isinstance(z.get(k), bool) for k in ('real', 'imag')):
            want = complex(z['real'], z['imag'])
        elif all(isinstance(z.get(k), (int, float)) and not isinstance(z.get(k), bool) for k in ('abs', 'phase')) and 'real' not in z and 'imag' not in z:
            want = z['abs'] * cmath.rect(1.0, math.radians(z['phase']) if deg else z['phase'])
        if want is not None:
            out.nontrivial(('to_complex', 'cart' if 'real' in z else 'polar', bool(deg)))
            if not relclose(val, want, 1e-12):
                out.spec_fail(dict(op='to_complex', symptom='wrong_value', degree=bool(deg), notation='cart' if 'real' in z else 'polar'),
                              'to_complex does not return the denoted number', dict(z=z, degree=deg), impl=str(val), spec=str(want))

def check_notations_agree(ctx, out, a, deg):
    """one number written three ways — polar with the phase in degrees, polar in radians, Cartesian — loads as one number,
    judged relative to its own magnitude; also through load_network (an impedance entry per notation)"""
    from CircuitCalculator.Network import loaders as L
    out.evaluations += 1
    out.count('notations_agree')
    rad = math.radians(deg)
    want = a * cmath.rect(1.0, rad)
    forms = {'polar_deg': lambda: L.to_complex({'abs': a, 'phase': deg}, True), 'polar_rad': lambda: L.to_complex({'abs': a, 'phase': rad}),
             'cartesian': lambda: L.to_complex({'real': want.real, 'imag': want.imag})}
    def entry(z): return [{'type': 'impedance', 'id': 'Z', 'N1': '1', 'N2': '0', 'Z': z}]
    forms['load_network_polar'] = lambda: L.load_network(entry({'abs': a, 'phase': rad})).branches[0].element.Z
    forms['load_network_cartesian'] = lambda: L.load_network(entry({'real': want.real, 'imag': want.imag})).branches[0].element.Z
    mag = 'small' if abs(a) < 1e-6 else 'large' if abs(a) > 1e6 else 'unit'
    for name, f in forms.items():
        k, v = attempt(f)
        if k == 'err' or not relclose(v, want, 1e-12):
            out.spec_fail(dict(op='to_complex', symptom='notations_disagree', form=name, magnitude=mag),
                          f'{name} notation of {want!r} (|value| = {abs(a):.3g}, phase {deg}°) loads as {v!r}', dict(abs=a, phase_deg=deg, form=name),
                          impl=str(v), spec=str(want))
            return
    out.nontrivial(('notations', mag, deg))

def culprit_kinds(desc):
    """kinds whose entry, loaded alone (next to a ground resistor), raises"""
    from CircuitCalculator.Network import loaders as L
    bad = []
    for e in desc:
        alone = [copy.deepcopy(e), {'type': 'resistor', 'id': '__g__', 'N1': '0', 'N2': e.get('N1', '0'), 'R': 1}]
        k, v = attempt(L.load_network, alone)
        if k == 'err':
            bad.append((e.get('type'), v))
    return bad

def check_load_network(ctx, out, desc, valid, origin='gen', via_file=None):
    from CircuitCalculator.Network import loaders as L
    out.evaluations += 1
    kinds = sorted({str(e.get('type')) for e in desc if isinstance(e, dict)}) if isinstance(desc, list) else []
    for k in kinds: out.count('net_kind:' + k)
    out.count('load_network:' + ('valid' if valid else 'malformed'))
    d_impl = copy.deepcopy(desc)
    before = enc(d_impl)
    if via_file:
        path = os.path.join(via_file, 'net.json')
        with open(path, 'w') as f:
            json.dump(desc, f)
        k1, v1 = attempt(L.load_network_from_json, path)
        kf, vf = attempt(L.load_network, copy.deepcopy(desc))
        if (k1, network_wire(v1) if k1 == 'ok' else v1) != (kf, network_wire(vf) if kf == 'ok' else vf):
            out.spec_fail(dict(op='load_network_from_json', symptom='differs_from_load_network'),
                          'loading through a JSON file differs from loading the same description', desc)
        out.count('load_network_from_json')
    k1, v1 = attempt(L.load_network, d_impl)
    w1 = network_wire(v1) if k1 == 'ok' else v1
    after = enc(d_impl)
    k2, v2 = attempt(L.load_network, d_impl)          # second load of the same object
    w2 = network_wire(v2) if k2 == 'ok' else v2
    after2 = enc(d_impl)
    if ctx.driver is not None:
        m = ctx.driver.call('c17_load_network', d=before, trig=trig_for(desc))
        ok = (res_same(m['res'], k1, w1, branches_same) and same(m['post'], after)
              and res_same(m['res2'], k2, w2, branches_same) and same(m['post2'], after2))
        if not ok:
            out.disagree('load_network', desc, dict(res=(k1, w1), post=after, res2=(k2, w2), post2=after2), m)
        out.traces_validated += 1
    if not valid:
        out.count('load_error:' + (v1 if k1 == 'err' else 'none'))
        return
    # ---- oracle 1: faithful
    if k1 == 'err':
        bad = culprit_kinds(desc)
        for kind, exc in (bad or [(','.join(kinds), v1)]):
            out.spec_fail(dict(op='load_network', symptom='valid_description_raises', kind=kind, exc=exc),
                          f'a valid description of kind {kind!r} does not load: {exc}', desc, impl=dict(exception=v1))
    else:
        for e, b in zip(desc, v1.branches):
            spec = INTENDED[e['type']]
            el = b.element
            nort = type(el).__name__ == 'NortenElement'
            def meaning(f):
                if f == 0: return 0
                if f not in e: return 0
                return intended_complex(e[f]) if spec[0][f][0] == 'cx' else e[f]
            got_a, got_b = (el.Z, el.V) if nort else (el.Y, el.I)
            okv = relclose(got_a, meaning(spec[2]), 1e-12) and relclose(got_b, meaning(spec[3]), 1e-12)
            if not (b.node1 == e['N1'] and b.node2 == e['N2'] and el.name == e['id'] and el.type == spec[4]
                    and nort == (spec[1] == 'N') and okv):
                out.spec_fail(dict(op='load_network', symptom='unfaithful', kind=e['type']),
                              f'loaded {e["type"]} differs from what was written', desc,
                              impl=str(b), spec=dict(a=str(meaning(spec[2])), b=str(meaning(spec[3]))))
            notation = ','.join(sorted({('cart' if 'real' in v else 'polar') for v in e.values() if isinstance(v, dict)}))
            out.nontrivial(('load', e['type'], notation))
    # ---- oracle 2: the description is not changed
    if before != after and isinstance(desc, list):
        sig = set()
        for e0, e1 in zip(desc, d_impl):
            if isinstance(e0, dict) and isinstance(e1, dict) and enc(e0) != enc(e1):
                sig.add(diff_keys(e0, e1))
        for r, a, c in sorted(sig):
            out.spec_fail(dict(op='load_network', symptom='argument_mutated', removed=r, added=a, changed=c),
                          'load_network changed the description it was given', desc, impl=dict(after=d_impl),
                          spec='description unchanged')
    # ---- oracle 3: loading the same object twice gives equal results
    if (k1, w1) != (k2, w2):
        out.spec_fail(dict(op='load_network', symptom='second_load_differs', first=k1 if k1 == 'ok' else v1,
                           second=k2 if k2 == 'ok' else v2),
                      'loading the same description object twice gives different results', desc,
                      impl=dict(first=str(w1)[:200], second=str(w2)[:200]))

def check_inplace(ctx, out, name, t, all_):
    from CircuitCalculator import dump_load as DL
    f = getattr(DL, name)
    out.evaluations += 1
    out.count(name)
    t_impl = copy.deepcopy(t)
    before = enc(t_impl)
    kind, val = attempt(f, t_impl)
    after = enc(t_impl)
    if ctx.driver is not None:
        op = 'c17_dictify' if name.startswith('dictify') else 'c17_undictify'
        m = ctx.driver.call(op, t=before, all=all_, trig=trig_for(t))
        ok = res_same(m['res'], kind, enc(val) if kind == 'ok' else val, same) and same(m['post'], after)
        if kind == 'ok' and isinstance(t_impl, (dict, list)) and val is t_impl:
            ok = False                                  # the model says: a new container, never the argument
        if not ok:
            out.disagree(name, rp(t), dict(res=(kind, str(val)[:300]), post=after), m)
        out.traces_validated += 1
    # oracle (flat conversion): every top-level value that is a well-formed notation becomes the number it denotes
    if name == 'undictify_complex_values' and isinstance(t, dict):
        def wellformed(v):
            if not isinstance(v, dict): return None
            isnum = lambda x: isinstance(x, (int, float)) and not isinstance(x, bool)
            if set(v) == {'imag', 'real'} and isnum(v['real']) and isnum(v['imag']): return complex(v['real'], v['imag'])
            if set(v) == {'abs', 'phase'} and isnum(v['abs']) and isnum(v['phase']) and v['abs'] >= 0: return v['abs'] * cmath.rect(1.0, v['phase'])
            if set(v) == {'abs', 'phase_deg'} and isnum(v['abs']) and isnum(v['phase_deg']) and v['abs'] >= 0:
                return v['abs'] * cmath.rect(1.0, math.radians(v['phase_deg']))
            return None
        looks = lambda v: isinstance(v, dict) and set(v) in ({'imag', 'real'}, {'abs', 'phase'}, {'abs', 'phase_deg'})
        wants = {k: wellformed(v) for k, v in t.items()}
        if all(wants[k] is not None for k, v in t.items() if looks(v)) and any(w is not None for w in wants.values()):
            notation = ','.join(sorted({'+'.join(sorted(map(str, v))) for v in t.values() if looks(v)}))
            if kind == 'err':
                out.spec_fail(dict(op=name, symptom='valid_notation_raises', exc=val, notation=notation),
                              f'a document whose complex notations are all well-formed is rejected: {val}', rp(t))
            else:
                for k, w in wants.items():
                    if w is not None and not (isinstance(val.get(k), complex) and relclose(val[k], w, 1e-12)):
                        out.spec_fail(dict(op=name, symptom='wrong_value', notation=notation), f'notation under key {k!r} converted to a different number', rp(t),
                                      impl=str(val.get(k)), spec=str(w))
                        break
                else:
                    out.nontrivial(('undictify', notation))
    if before != after:
        out.spec_fail(dict(op=name, symptom='argument_mutated'), f'{name} changed the document it was given', rp(t), impl=dict(after=rp(t_impl)))
    return kind, val

LIBS = None
def libs():
    global LIBS
    if LIBS is None:
        import yaml
        LIBS = {'json.dumps': json.dumps, 'yaml.dump': yaml.dump, 'json.loads': json.loads, 'yaml.safe_load': yaml.safe_load}
    return LIBS

def check_serialize(ctx, out, t, fmt, file=None):
    from CircuitCalculator import dump_load as DL
    out.evaluations += 1
    out.count('serialize:' + (fmt if file is None else 'file'))
    t_impl = copy.deepcopy(t)
    before = enc(t_impl)
    if file is None:
        kind, val = attempt(DL.serialize, t_impl, fmt)
    else:
        kind, val = attempt(DL.dump, file, t_impl)
        if kind == 'ok':
            with open(file) as f:
                val = f.read()
    after = enc(t_impl)
    if before != after:
        out.spec_fail(dict(op='serialize', symptom='argument_mutated', format=str(fmt)), 'serialize changed the document it was given', t, impl=dict(after=t_impl))
    if ctx.driver is not None:
        m = ctx.driver.call('c17_serialize', t=before, **(dict(fmt=fmt) if file is None else dict(file=file)))
        if 'err' in m:
            mk, mv, tree_ok = 'err', m['err'], True
        else:
            # the model says which library function receives which tree: the tree must be what the
            # implementation's own dict_processor makes of the document, and the library applied to
            # that must produce the implementation's outcome
            handed = DL.dictify_all_complex_values(copy.deepcopy(t))
            tree_ok = same(m['tree'], enc(handed))
            mk, mv = attempt(libs()[m['lib']], handed)
        if (mk, mv) != (kind, val) or not tree_ok:
            out.disagree('serialize', dict(t=t, fmt=fmt, file=file), dict(res=(kind, val), post=after), dict(model=m, applied=(mk, mv)))
        out.traces_validated += 1
    return kind, val

def check_deserialize(ctx, out, s, fmt, file=None, circuit=False):
    from CircuitCalculator import dump_load as DL
    from CircuitCalculator.Circuit import dump_load as CDL
    out.evaluations += 1
    out.count(('circuit_' if circuit else '') + 'deserialize:' + (fmt if file is None else 'file'))
    mod = CDL if circuit else DL
    if file is None:
        kind, val = attempt(mod.deserialize, s, fmt)
    else:
        with open(file, 'w') as f:
            f.write(s)
        kind, val = attempt(mod.load, file)
    wire = (circuit_wire(val) if circuit else enc(val)) if kind == 'ok' else val
    if ctx.driver is not None:
        tables = driver_tables(ctx)
        if file is not None:
            fmt_m = ctx.driver.call('c17_suffix', file=file)['suffix']
        else:
            fmt_m = fmt
        lib = dict(tables['deserializers']).get(fmt_m)
        if lib is None:
            parsed = dict(err='unused')
        else:
            pk, pv = attempt(libs()[lib], s)
            parsed = dict(ok=enc(pv)) if pk == 'ok' else dict(err=pv)
        tr = trig_for(pv) if lib is not None and pk == 'ok' else dict(cs=[], rad=[], deg2rad=[])
        m = ctx.driver.call('c17_deserialize', parsed=parsed, trig=tr, circuit=circuit,
                            **(dict(fmt=fmt) if file is None else dict(file=file)))
        if not res_same(m['res'], kind, wire, circ_same if circuit else same):
            out.disagree('deserialize', dict(s=s, fmt=fmt, file=file, circuit=circuit), (kind, wire), m)
        out.traces_validated += 1
    return kind, val

_TABLES = {}
def driver_tables(ctx):
    if id(ctx.driver) not in _TABLES:
        _TABLES.clear()
        _TABLES[id(ctx.driver)] = ctx.driver.call('c17_tables')
    return _TABLES[id(ctx.driver)]

def check_roundtrip(ctx, out, t, fmt):
    """oracle on the implementation: deserialize(serialize(t)) == t"""
    from CircuitCalculator import dump_load as DL
    out.evaluations += 1
    out.count('roundtrip:' + fmt)
    facts = dict(op='roundtrip', format=fmt, has_complex=has_complex(t), scalar_in_list=has_scalar_in_list(t),
                 mixed_keys=has_mixed_keys(t), numpy_complex=has_numpy_complex(t))
    t0 = copy.deepcopy(t)
    k1, s = attempt(DL.serialize, t, fmt)
    if enc(t) != enc(t0):
        out.spec_fail(dict(op='serialize', symptom='argument_mutated', format=fmt), 'serialize changed the document it was given', rp(t0),
                      impl=dict(after=rp(t)))
    if k1 == 'err':
        out.spec_fail(dict(facts, symptom='serialize_raises', exc=s), f'a document cannot be serialised to {fmt}: {s}', rp(t0))
        return
    k2, back = attempt(DL.deserialize, s, fmt)
    if k2 == 'err':
        out.spec_fail(dict(facts, symptom='deserialize_raises', exc=back), f'a serialised document cannot be loaded back from {fmt}: {back}', rp(t0),
                      impl=dict(text=s[:400]))
        return
    if not value_equal(back, t0):
        out.spec_fail(dict(facts, symptom='differs'), f'document changed in a {fmt} round trip', rp(t0), impl=dict(back=rp(back), text=s[:400]))
        return
    out.nontrivial(('roundtrip', fmt, facts['has_complex'], facts['scalar_in_list'], facts['mixed_keys'], facts['numpy_complex'], depth_of(t0)))

def value_equal(a, b):
    if isinstance(a, dict) and isinstance(b, dict):
        return set(a) == set(b) and all(value_equal(a[k], b[k]) for k in a)
    if isinstance(a, (list, tuple)) and isinstance(b, (list, tuple)):
        return len(a) == len(b) and all(value_equal(x, y) for x, y in zip(a, b))
    if isinstance(a, bool) or isinstance(b, bool) or a is None or b is None or isinstance(a, str) or isinstance(b, str):
        return type(a) == type(b) and a == b
    if isinstance(a, (int, float, complex)) and isinstance(b, (int, float, complex)):
        return a == b
    return False

def depth_of(t):
    if isinstance(t, dict): return 1 + max([depth_of(v) for v in t.values()] + [0])
    if isinstance(t, list): return 1 + max([depth_of(v) for v in t] + [0])
    return 0

def check_generate_component(ctx, out, comp, meaning, valid, notation):
    from CircuitCalculator.Circuit import dump_load as CDL
    out.evaluations += 1
    kind_s = str(comp.get('type')) if isinstance(comp, dict) else '?'
    out.count('circ_kind:' + kind_s)
    c_impl = copy.deepcopy(comp)
    before = enc(c_impl)
    k1, v1 = attempt(CDL.generate_component, c_impl)
    after = enc(c_impl)
    k2, v2 = attempt(CDL.generate_component, c_impl)
    w1 = component_wire(v1) if k1 == 'ok' else v1
    w2 = component_wire(v2) if k2 == 'ok' else v2
    if ctx.driver is not None:
        m = ctx.driver.call('c17_generate_component', c=before)
        if not res_same(m['res'], k1, w1, comp_same) or not same(m['post'], after):
            out.disagree('generate_component', comp, dict(res=(k1, w1), post=after), m)
        out.traces_validated += 1
    if before != after:
        out.spec_fail(dict(op='generate_component', symptom='argument_mutated'), 'generate_component changed its argument', comp, impl=dict(after=c_impl))
    if (k1, w1) != (k2, w2):
        out.spec_fail(dict(op='generate_component', symptom='second_load_differs'), 'second load of the same component differs', comp)
    if not valid:
        out.count('component_error:' + (v1 if k1 == 'err' else 'none'))
        return
    if k1 == 'err':
        out.spec_fail(dict(op='generate_component', symptom='valid_description_raises', kind=kind_s, exc=v1, notation=notation),
                      f'a valid {kind_s} component ({notation} notation) does not load: {v1}', comp, impl=dict(exception=v1))
        return
    want = INTENDED_C[kind_s][1](meaning)
    okv = set(want) == set(v1.value) and all(relclose(v1.value[k], want[k], 1e-12) for k in want)
    if not (v1.type == kind_s and v1.id == comp['id'] and list(v1.nodes) == list(comp['nodes']) and okv):
        out.spec_fail(dict(op='generate_component', symptom='unfaithful', kind=kind_s, notation=notation),
                      f'loaded {kind_s} component differs from what was written', comp, impl=str(v1), spec=str(want))
    out.nontrivial(('component', kind_s, notation))

VALUE_FAULTS = ['misspelt_key', 'extra_key', 'sibling_key']

def value_fault(rng, kind, fault):
    """a component whose value block does not fit its kind: a misspelt key, an unknown extra key, a key of a sibling kind;
    returns the component and the numbers written into its value block"""
    comp, _ = gen_component(rng, kind, rng.choice(IDS), rng.sample(LABELS, 2), 'real')
    val = comp['value']
    marker = 7000.0 + rng.randint(1, 900) + 0.25
    params = set(INTENDED_C[kind][0])
    if fault == 'misspelt_key':
        k = rng.choice(sorted(val))
        alt = k.swapcase() if k.swapcase() != k and k.swapcase() not in params else k + '_'
        del val[k]; val[alt] = marker
    elif fault == 'extra_key':
        val[rng.choice(['Q', 'tolerance', 'value', 'Rs'])] = marker
    else:
        others = sorted({p for kk in INTENDED_C for p in INTENDED_C[kk][0]} - params)
        val[rng.choice(others)] = marker
    nums = [float(v) for v in val.values() if isinstance(v, (int, float)) and not isinstance(v, bool)]
    return comp, nums

def check_value_fault(ctx, out, comp, kind, fault, written):
    """a value block that does not fit the element kind is rejected — or, if it is accepted, every number that was written
    is found in the loaded component (nothing is dropped silently)"""
    from CircuitCalculator.Circuit import dump_load as CDL
    check_generate_component(ctx, out, comp, {}, False, 'real')            # correspondence with the model (typed error)
    k, v = attempt(CDL.generate_component, copy.deepcopy(comp))
    out.count(f'value_fault:{fault}:' + ('rejected:' + v if k == 'err' else 'accepted'))
    if k == 'ok':
        have = []
        for x in v.value.values():
            if isinstance(x, complex): have += [x.real, x.imag]
            elif isinstance(x, (int, float)) and not isinstance(x, bool): have.append(float(x))
        lost = [w for w in written if not any(relclose(w, h, 1e-12) for h in have)]
        if lost:
            out.spec_fail(dict(op='generate_component', symptom='written_value_dropped', fault=fault, kind=kind),
                          f'a {kind} component with a {fault.replace("_", " ")} is accepted and the written value(s) {lost} are silently dropped', comp,
                          impl=str(v), spec='rejected with the typed error, or every written number is found in the loaded component')
            return
    out.nontrivial(('value_fault', kind, fault))

def check_circuit_text(ctx, out, comp, meaning, notation, fmt):
    """a circuit *file* whose complex values are written in a documented notation (oracle on Circuit.dump_load.deserialize)"""
    from CircuitCalculator.Circuit import dump_load as CDL
    import yaml
    kind_s = comp['type']
    doc = {'components': [comp]}
    text = json.dumps(doc) if fmt == 'json' else yaml.dump(doc)
    k, v = check_deserialize(ctx, out, text, fmt, circuit=True)
    if k == 'err':
        out.spec_fail(dict(op='circuit_deserialize', symptom='valid_description_raises', kind=kind_s, exc=v, notation=notation),
                      f'a circuit file with a {kind_s} component in {notation} notation does not load: {v}', doc, impl=dict(exception=v), fmt=fmt)
        return
    c = v.components[0]
    want = INTENDED_C[kind_s][1](meaning)
    okv = set(want) == set(c.value) and all(relclose(c.value[x], want[x], 1e-12) for x in want)
    if not (c.type == kind_s and c.id == comp['id'] and list(c.nodes) == list(comp['nodes']) and okv):
        out.spec_fail(dict(op='circuit_deserialize', symptom='unfaithful', kind=kind_s, notation=notation),
                      f'{kind_s} component loaded from a file differs from what was written', doc, impl=str(c), spec=str(want), fmt=fmt)
    out.nontrivial(('circuit_file', kind_s, notation, fmt))

def check_undictify_circuit(ctx, out, circ):
    from CircuitCalculator.Circuit import dump_load as CDL
    out.evaluations += 1
    out.count('undictify_circuit')
    c_impl = copy.deepcopy(circ)
    before = enc(c_impl)
    k1, v1 = attempt(CDL.undictify_circuit, c_impl)
    after = enc(c_impl)
    w1 = circuit_wire(v1) if k1 == 'ok' else v1
    if ctx.driver is not None:
        m = ctx.driver.call('c17_undictify_circuit', c=before)
        if not res_same(m['res'], k1, w1, circ_same) or not same(m['post'], after):
            out.disagree('undictify_circuit', circ, dict(res=(k1, w1), post=after), m)
        out.traces_validated += 1
    if before != after:
        out.spec_fail(dict(op='undictify_circuit', symptom='argument_mutated'), 'undictify_circuit changed its argument', circ)
    return k1, v1


# --------------------------------------------------------------------------- file-level stream (every loader / saver pair)

def mutable_ids(x, acc=None, depth=0):
    """ids of the mutable objects reachable from x (containers, arrays, instances with a __dict__)"""
    acc = set() if acc is None else acc
    if depth > 30 or x is None or isinstance(x, (bool, int, float, complex, str, bytes)):
        return acc
    if isinstance(x, (list, dict, set, np.ndarray)) or (hasattr(x, '__dict__') and not isinstance(x, type) and not callable(x)):
        if id(x) in acc:
            return acc
        acc.add(id(x))
    if isinstance(x, dict):
        for v in x.values(): mutable_ids(v, acc, depth + 1)
    elif isinstance(x, (list, tuple, set, frozenset)):
        for v in x: mutable_ids(v, acc, depth + 1)
    elif hasattr(x, '__dict__') and not isinstance(x, type) and not callable(x) and depth < 6:
        for v in list(vars(x).values()): mutable_ids(v, acc, depth + 1)
    return acc

def scramble(x, depth=0, seen=None):
    """edit every mutable part of a loaded result in place (what a caller is free to do with *its* result)"""
    seen = set() if seen is None else seen
    if depth > 30 or id(x) in seen:
        return
    seen.add(id(x))
    if isinstance(x, dict):
        for v in list(x.values()): scramble(v, depth + 1, seen)
        x.clear(); x['__edited__'] = True
    elif isinstance(x, list):
        for v in list(x): scramble(v, depth + 1, seen)
        x.clear(); x.append('__edited__')
    elif isinstance(x, tuple):
        for v in x: scramble(v, depth + 1, seen)
    elif hasattr(x, '__dict__') and not isinstance(x, type) and not callable(x) and depth < 6:
        for v in list(vars(x).values()): scramble(v, depth + 1, seen)

class FilePair:
    """one public saver / loader pair working on a file: `save(path, obj)`, `load(path)`, how to make two different
    objects, how to compare what was loaded with what was written"""
    def __init__(self, name, save, load, make, equal, fmts, scramble_result=scramble):
        self.name, self.save, self.load, self.make, self.equal, self.fmts, self.scramble = name, save, load, make, equal, fmts, scramble_result

def file_pairs():
    from pathlib import Path
    from CircuitCalculator import dump_load as DL
    from CircuitCalculator.Circuit import dump_load as CDL, components as ccp
    from CircuitCalculator.Circuit.circuit import Circuit
    from CircuitCalculator.Network import loaders as L
    import yaml
    def tree(rng, i):
        t = gen_tree(rng, cx=rng.random() < 0.6, cxlike=False, scalars_in_lists=rng.random() < 0.5)
        t['serial'] = i                                  # two documents written to one path always differ
        return t
    def circuit_obj(rng, i):
        # kinds whose stored value dictionary is what their constructor takes (a Circuit save/load round trip of the
        # other kinds is the adjacent observation of this module, not claimed here)
        ids = rng.sample(IDS, 3)
        return Circuit([ccp.resistor(ids[0], ('1', '0'), float(i + 1)), ccp.conductance(ids[1], ('1', '2'), num(rng, positive=True)),
                        ccp.ac_voltage_source(ids[2], ('2', '0'), V=num(rng), R=num(rng, positive=True), w=float(rng.randint(0, 9)), phi=0.5)])
    def circuit_eq(loaded, written):
        return [(c.type, c.id, list(c.nodes), dict(c.value)) for c in loaded.components] == \
               [(c.type, c.id, list(c.nodes), dict(c.value)) for c in written.components]
    def circuit_doc(rng, i):
        comps = []
        for j, kind in enumerate(rng.sample(list(INTENDED_C), 3)):
            c, meaning = gen_component(rng, kind, f'K{j}', ['0', str(j + 1)], rng.choice(['real', 'cart']))
            comps.append((c, meaning))
        comps[0][0]['id'] = f'serial{i}'
        return comps
    def circuit_doc_eq(loaded, written):
        if len(loaded.components) != len(written): return False
        for c, (d, meaning) in zip(loaded.components, written):
            want = INTENDED_C[d['type']][1](meaning)
            if not (c.type == d['type'] and c.id == d['id'] and list(c.nodes) == list(d['nodes']) and set(want) == set(c.value)
                    and all(relclose(c.value[k], want[k], 1e-12) for k in want)):
                return False
        return True
    def net_desc(rng, i):
        d = gen_description(rng, [k for k in INTENDED], n=rng.randint(1, 4))
        d[0]['id'] = f'serial{i}'
        return d
    def net_eq(loaded, written):
        if len(loaded.branches) != len(written): return False
        return all(b.node1 == e['N1'] and b.node2 == e['N2'] and b.element.name == e['id'] for b, e in zip(loaded.branches, written))
    def write_text(path, text):
        with open(path, 'w') as f:
            f.write(text)
    pairs = [
        FilePair('dump_load.dump/load', lambda p, o: DL.dump(p, o), lambda p: DL.load(p), tree, value_equal, ['json', 'yaml', 'yml']),
        FilePair('Circuit.dump_load.save/load', lambda p, o: CDL.save(p, o), lambda p: CDL.load(p), circuit_obj, circuit_eq, ['json']),
        FilePair('dump_load.dump/Circuit.dump_load.load', lambda p, o: DL.dump(p, {'components': [c for c, _ in o]}), lambda p: CDL.load(p),
                 circuit_doc, circuit_doc_eq, ['json', 'yaml', 'yml']),
        FilePair('json.dump/load_network_from_json', lambda p, o: write_text(p, json.dumps(o)), lambda p: L.load_network_from_json(p),
                 net_desc, net_eq, ['json']),
    ]
    try:
        import schemdraw
        schemdraw.use('svg')
        import gen_draw as gd
        from props import c15
        from CircuitCalculator.SimpleCircuit import dump_load as SDL
        from CircuitCalculator.SimpleCircuit.DiagramTranslator import circuit_translator
        def schematic(rng, i):
            prog = [dict(kind='V', name='V1', vals={'V': float(i + 1)}, rev=False, a=(0, 0), b=(0, 1), place='dir'),
                    dict(kind='R', name='R1', vals={'R': float(10 + rng.randint(0, 50))}, a=(0, 1), b=(1, 1), place='chain'),
                    dict(kind='wire', a=(1, 1), b=(1, 0), place='chain'), dict(kind='wire', a=(1, 0), b=(0, 0), place='chain'),
                    dict(kind='gnd', a=(0, 0))]
            d, _ = gd.build(prog, dict(gd.IDENT, unit=5.0))
            return d
        def schematic_eq(loaded, written):
            return c15.same_circuit(circuit_translator(written), circuit_translator(loaded)) is None
        def scramble_schematic(d):
            for attr in ('elements', '_elm_stack', 'elm_params'):
                v = getattr(d, attr, None)
                if isinstance(v, list): v.clear()
                elif isinstance(v, dict): v.clear()
        pairs.append(FilePair('SimpleCircuit.dump_load.dump/load', lambda p, o: SDL.dump(p, o), lambda p: SDL.load(p),
                              schematic, schematic_eq, ['json'], scramble_schematic))
    except Exception as e:          # noqa: BLE001 — the drawing layer is optional for this stream
        pairs.append(None)
    return pairs

def check_file_stream(ctx, out, pair, fmt, path_kind, rng, tmpdir, serial, prop='C17'):
    """(1) write d1, load, compare; rewrite the SAME path with d2, load: must be d2;  (2) two loads of one path are equal,
    not the same object, share no mutable part; after every mutable part of the first result is edited a further load
    still gives what was written;  (3) the same through str and pathlib.Path."""
    from pathlib import Path
    out.evaluations += 1
    out.count(f'file:{pair.name}:{fmt}:{path_kind}')
    raw = os.path.join(tmpdir, f'f{serial}_{abs(hash(pair.name)) % 1000}.{fmt}')
    mk = (lambda s: Path(s)) if path_kind == 'Path' else (lambda s: s)
    other = (lambda s: s) if path_kind == 'Path' else (lambda s: Path(s))
    facts = dict(op='file_load', pair=pair.name, format=fmt, path=path_kind)
    d1, d2 = pair.make(rng, 2 * serial), pair.make(rng, 2 * serial + 1)
    show = lambda d: d if isinstance(d, (dict, list)) and not any(isinstance(x, tuple) for x in (d if isinstance(d, list) else [])) else str(d)[:600]
    def fail(symptom, what, **extra):
        out.spec_fail(dict(facts, symptom=symptom), what,
                      dict(pair=pair.name, format=fmt, path_kind=path_kind, file=os.path.basename(raw), written_first=show(d1), written_second=show(d2),
                           steps='save(f, first); load(f); save(f, second); load(f); load(f); edit results; load(f); load(other path type)'), **extra)
    k, v = attempt(pair.save, mk(raw), d1)
    if k == 'err': return fail('save_raises', f'{pair.name}: saving raises {v}')
    k, r1 = attempt(pair.load, mk(raw))
    if k == 'err': return fail('load_raises', f'{pair.name}: loading what was just written raises {r1}')
    if not pair.equal(r1, d1): return fail('differs', f'{pair.name}: what is loaded is not what was written', impl=str(r1)[:300])
    # (1) rewrite the same path
    k, v = attempt(pair.save, mk(raw), d2)
    if k == 'err': return fail('save_raises', f'{pair.name}: saving raises {v}')
    k, r2 = attempt(pair.load, mk(raw))
    if k == 'err': return fail('load_raises', f'{pair.name}: loading raises {r2}')
    if not pair.equal(r2, d2):
        stale = pair.equal(r2, d1)
        return fail('stale_after_rewrite' if stale else 'differs_after_rewrite',
                    f'{pair.name}: the file was rewritten, a second load of the same path returns ' + ('the OLD content' if stale else 'something else'),
                    impl=str(r2)[:300])
    # (2) two loads of one path
    k, r3 = attempt(pair.load, mk(raw))
    if k == 'err' or not pair.equal(r3, d2): return fail('repeat_differs', f'{pair.name}: a repeated load differs', impl=str(r3)[:300])
    if r3 is r2 and mutable_ids(r2): return fail('same_object', f'{pair.name}: two loads of one path return the very same mutable object')
    if mutable_ids(r2) & mutable_ids(r3): return fail('shared_mutable', f'{pair.name}: two loads of one path share mutable parts')
    pair.scramble(r2); pair.scramble(r1)
    k, r4 = attempt(pair.load, mk(raw))
    if k == 'err' or not pair.equal(r4, d2):
        return fail('load_affected_by_edit', f'{pair.name}: after the caller edited an earlier result, loading the path no longer gives what was written',
                    impl=str(r4)[:300])
    if not pair.equal(r3, d2): return fail('earlier_result_changed', f'{pair.name}: editing one result changed another one')
    # (3) the other path type names the same file
    k, r5 = attempt(pair.load, other(raw))
    if k == 'err' or not pair.equal(r5, d2): return fail('path_type_differs', f'{pair.name}: str and pathlib.Path of one file load differently', impl=str(r5)[:300])
    k, v = attempt(pair.save, other(raw), d1)
    k, r6 = attempt(pair.load, mk(raw))
    if k == 'err' or not pair.equal(r6, d1): return fail('stale_after_rewrite', f'{pair.name}: rewritten through the other path type, the load is stale', impl=str(r6)[:300])
    out.nontrivial(('file', pair.name, fmt, path_kind))

def run_file_streams(ctx, out, reps, prop='C17'):
    import shutil
    rng = ctx.rng('file_stream')
    tmpdir = tempfile.mkdtemp(prefix=f'{prop.lower()}_files_')
    try:
        serial = 0
        for pair in file_pairs():
            if pair is None:
                out.notes.append('SimpleCircuit file stream skipped (drawing layer unavailable)'); continue
            for fmt in pair.fmts:
                for path_kind in ('str', 'Path'):
                    n = reps if not pair.name.startswith('SimpleCircuit') else max(1, reps // 3)
                    for _ in range(n):
                        if ctx.time_left() < 10: return
                        serial += 1
                        check_file_stream(ctx, out, pair, fmt, path_kind, rng, tmpdir, serial, prop)
    finally:
        shutil.rmtree(tmpdir, ignore_errors=True)

# --------------------------------------------------------------------------- corpus (minimal failing inputs of the findings)

CORPUS_NET = [
    [{'type': 'resistor', 'id': 'R1', 'N1': '1', 'N2': '0', 'R': 10}],
    [{'type': 'admittance', 'id': 'Y1', 'N1': '1', 'N2': '0', 'Y': {'real': 1, 'imag': 2}}],
    [{'type': 'impedance', 'id': 'Z', 'N1': '0', 'N2': '1', 'Z': {'abs': 2, 'phase': 0.5}},
     {'type': 'linear_current_source', 'id': 'I', 'N1': '1', 'N2': '0', 'I': {'real': 1, 'imag': 0}, 'Y': {'abs': 1, 'phase': 0}}],
]

def run(ctx, out):
    out.rule = ('descriptions generated per kind of both loader tables (kinds taken from the compiled generated table), complex values '
                'in Cartesian / polar notation with shuffled key order, 1–6 entries, adversarial ids and labels; documents up to depth 4 with '
                'complex leaves, complex-looking dictionaries, lists of dictionaries and of scalars; formats json/yaml/yml/unknown; '
                'non-trivial = a valid input on which the intended-meaning oracle, the snapshot oracle and the second-load oracle were all evaluated, '
                'distinct by (operation, kind, notation[, format, depth])')
    from CircuitCalculator.Network import loaders as L
    from CircuitCalculator.Circuit import dump_load as CDL
    tables = driver_tables(ctx) if ctx.driver is not None else None
    net_kinds = tables['network_kinds'] if tables else list(L.network_branch_translators)
    circ_kinds = tables['circuit_kinds'] if tables else list(CDL.circuit_component_translators)
    # the compiled table and the live table must list the same kinds
    if sorted(net_kinds) != sorted(L.network_branch_translators) or sorted(circ_kinds) != sorted(CDL.circuit_component_translators):
        out.disagree('tables', 'kinds', dict(net=sorted(L.network_branch_translators), circ=sorted(CDL.circuit_component_translators)),
                     dict(net=net_kinds, circ=circ_kinds))
    # documented kinds (the property's own list) must be loadable kinds
    for k in INTENDED:
        if k not in L.network_branch_translators:
            out.spec_fail(dict(op='load_network', symptom='kind_missing', kind=k), f'documented kind {k!r} has no loader', k)
    for k in INTENDED_C:
        if k not in CDL.circuit_component_translators:
            out.spec_fail(dict(op='generate_component', symptom='kind_missing', kind=k), f'documented kind {k!r} has no loader', k)
    known_net = [k for k in net_kinds if k in INTENDED]
    known_circ = [k for k in circ_kinds if k in INTENDED_C]
    scale = 4 if ctx.quick else 40
    tmp = tempfile.mkdtemp(prefix='c17_')

    # ---- to_complex
    rng = ctx.rng('to_complex')
    for z in [{'abs': 250e-12, 'phase': 60}, {'abs': 0.4e-12, 'phase': 90}, {'abs': 3.3e-15, 'phase': 45.0}, {'abs': 2.0 ** -40, 'phase': 120},
              {'abs': 4.7e11, 'phase': 30}, {'abs': 1e-9, 'phase': 1.0471975511965976},
              {'abs': 2, 'phase': 30}, {'phase': 30}, {'real': 1, 'imag': 2, 'abs': 1, 'phase': 90}, {'abs': 1.5, 'phase': 90.0},
              5.0, None, 'x', [1, 2], {}, {'real': 1, 'imag': None, 'abs': 1, 'phase': 0}]:
        for deg in (False, True):
            check_to_complex(ctx, out, z, deg, 'corpus')
    for i in range(120 * scale):
        z, nt = cx_notation(rng)
        if nt == 'polar' and rng.random() < 0.5:
            z['phase'] = rng.choice(PHASES_DEG + [num(rng)])
        if rng.random() < 0.15:
            z = rng.choice([{**z, 'extra': 1}, {k: v for k, v in list(z.items())[:1]}, {**z, 'real': 'x'}, {**z, 'abs': None},
                            {'real': 1, 'abs': 2, 'phase': 0.5}, {'abs': 'q', 'phase': 1}, {'abs': 2, 'phase': '1'}, {'abs': 2, 'phase': None}])
        check_to_complex(ctx, out, z, rng.random() < 0.5)
    for i in range(40 * scale):
        check_notations_agree(ctx, out, si_value(rng) if i % 2 else num(rng), rng.choice(PHASES_DEG))

    # ---- load_network
    rng = ctx.rng('load_network')
    for d in CORPUS_NET:
        check_load_network(ctx, out, d, True, 'corpus')
    for kind in known_net:                                   # every kind alone, both notations
        for notation in ('cart', 'polar'):
            for rep in range(2 * scale):
                e = gen_entry(rng, kind, rng.choice(IDS), '0', rng.choice(LABELS[1:]), notation)
                if rng.random() < 0.5: e['N1'], e['N2'] = e['N2'], e['N1']
                check_load_network(ctx, out, [e], True)
    no_adm = [k for k in known_net if k != 'admittance']
    for i in range(60 * scale):
        kinds = known_net if rng.random() < 0.25 else no_adm
        check_load_network(ctx, out, gen_description(rng, kinds), True, via_file=tmp if i % 6 == 0 else None)
    for i in range(70 * scale):
        how = MALFORM[i % len(MALFORM)]
        d = malform(rng, gen_description(rng, no_adm, ground=True), how)
        out.count('malform:' + how)
        check_load_network(ctx, out, d, False)
    for d in ([], {}, None, 3, '', 'ab', [[]], {'a': 1}):
        check_load_network(ctx, out, d, False)
    for k in [x for x in net_kinds if x not in INTENDED]:     # a kind the property text does not know
        out.notes.append(f'loader table has an undocumented kind {k!r}')

    # ---- dictify / undictify
    rng = ctx.rng('trees')
    for i in range(50 * scale):
        t = gen_tree(rng, cx=True, cxlike=rng.random() < 0.7, scalars_in_lists=rng.random() < 0.4, bad=rng.random() < 0.3,
                     nonstr_keys=0.3 if i % 3 == 0 else 0.0, numpy_leaves=0.3, numpy_floats=(i % 4 == 0))
        check_inplace(ctx, out, 'dictify_complex_values', t, False)
        check_inplace(ctx, out, 'dictify_all_complex_values', t, True)
        check_inplace(ctx, out, 'undictify_complex_values', t, False)
        check_inplace(ctx, out, 'undictify_all_complex_values', t, True)
    for t in ([1], 3, None, 'x', {'a': [1]}, {'a': [{'z': {'real': 1, 'imag': 2}}, [1]]}, {'real': 1, 'imag': 2}):
        for name, a in (('dictify_complex_values', False), ('dictify_all_complex_values', True),
                        ('undictify_complex_values', False), ('undictify_all_complex_values', True)):
            check_inplace(ctx, out, name, t, a)

    # ---- serialize / deserialize / dump / load
    rng = ctx.rng('serialize')
    fmts = ['json', 'yaml', 'yml']
    for i in range(40 * scale):
        t = gen_tree(rng, cx=rng.random() < 0.4, cxlike=rng.random() < 0.6, scalars_in_lists=rng.random() < 0.4)
        fmt = rng.choice(fmts + ['xml', '', 'JSON'])
        k, s = check_serialize(ctx, out, t, fmt)
        if k == 'ok':
            check_deserialize(ctx, out, s, fmt)
            check_deserialize(ctx, out, s, rng.choice(fmts + ['txt']))
    for s, fmt in [('{"a":{"real":1,"imag":2},"b":{"abs":2,"phase":0.5,"k":1},"c":[{"z":{"abs":1,"phase_deg":90}}]}', 'json'),
                   ('{"a": {"abs": -1, "phase": 0}}', 'json'), ('[1, 2]', 'json'), ('{"a": [1]}', 'json'), ('{bad', 'json'),
                   ('a: {real: 1, imag: 2}\nb: [{c: {abs: 2, phase: 0}}]', 'yaml'), ('a: [1, 2]', 'yml'), ('a: !!python/complex 1+2j', 'yaml'),
                   ('{"a":{"real":{"real":1,"imag":1},"imag":2}}', 'json'), ('{"nodes": ["0", "1"]}', 'json'), ('', 'json'), ('', 'yaml')]:
        check_deserialize(ctx, out, s, fmt)
    for i, name in enumerate(['a.json', 'b.yaml', 'c.yml', 'd.txt', 'noext', '.json', 'x.tar.json', 'y.', 'z..yaml', 'dir.d/e.json']):
        t = gen_tree(rng, cx=False, cxlike=True, scalars_in_lists=False)
        path = os.path.join(tmp, name)
        os.makedirs(os.path.dirname(path), exist_ok=True)
        k, s = check_serialize(ctx, out, t, None, file=path)
        check_deserialize(ctx, out, s if k == 'ok' else '{}', None, file=path)
    # round-trip oracle: first the former failing documents (fixed by 2481879; reported again if it is reverted)
    for t in ({'a': complex(1, 2)}, {'nodes': ['0', '1']}, {'l': [complex(0, 1), {'z': complex(3, 4)}, 2.5, [complex(1, 0)]]},
              {'z': np.complex128(1 + 2j)}, {'r': [np.complex128(0.5j), {'v': np.complex128(-3)}]}):        # fixed by 6d9f0ec
        for fmt in fmts:
            check_roundtrip(ctx, out, copy.deepcopy(t), fmt)
    # YAML mappings with keys of different types (fixed by 65da131); JSON keys are always strings
    for t in ({1: 'x', 'a': 2}, {None: 1, 'a': complex(0, 1)}, {1: 'x', 'a': complex(1, 2)}, {2: complex(1, 2), 3: 'x'},
              {'m': {True: 1, 'k': [1.5, {0.25: 'q', 'z': complex(2, 0)}]}}):
        for fmt in ('yaml', 'yml'):
            check_roundtrip(ctx, out, copy.deepcopy(t), fmt)
    for i in range(20 * scale):
        t = gen_tree(rng, cx=True, cxlike=False, scalars_in_lists=rng.random() < 0.5, nonstr_keys=0.35 if i % 2 else 0.0, numpy_leaves=0.5)
        if has_cxlike(t): continue
        check_roundtrip(ctx, out, t, ('yaml', 'yml')[i % 2] if has_nonstr_key(t) else fmts[i % 3])
    for i in range(45 * scale):
        c = i % 3
        t = gen_tree(rng, cx=(c == 0), cxlike=False, scalars_in_lists=(c == 1))
        if c == 0 and not has_complex(t): t['zz'] = complex(1, 2)
        if c == 1 and not has_scalar_in_list(t): t['nodes'] = ['0', '1']
        if c == 2 and has_scalar_in_list(t): continue
        if has_cxlike(t): continue            # a dictionary that *looks like* a complex number is ambiguous by design
        check_roundtrip(ctx, out, t, fmts[(i // 3) % 3])

    # ---- circuit loader
    rng = ctx.rng('circuit')
    for kind in known_circ:
        for cx_as in ('python', 'real', 'cart', 'polar'):
            has_cx = any(ty == 'cx' for ty, _ in INTENDED_C[kind][0].values())
            if cx_as != 'python' and not has_cx:
                continue
            for rep in range(2 * scale):
                comp, meaning = gen_component(rng, kind, rng.choice(IDS), rng.sample(LABELS, 2), cx_as)
                if cx_as in ('cart', 'polar'):
                    # the notations are a matter of the *file* loader: Circuit.dump_load.deserialize converts them,
                    # generate_component itself takes Python numbers (correspondence only)
                    check_generate_component(ctx, out, comp, meaning, False, cx_as)
                    check_circuit_text(ctx, out, comp, meaning, cx_as, ('json', 'yaml', 'yml')[rep % 3])
                else:
                    check_generate_component(ctx, out, comp, meaning, True, cx_as if has_cx else 'real')
    # value blocks that do not fit the element kind (misspelt / unknown / sibling-kind keys)
    for kind in known_circ:
        for fault in VALUE_FAULTS:
            for rep in range(scale):
                comp, written = value_fault(rng, kind, fault)
                check_value_fault(ctx, out, comp, kind, fault, written)
    # former failing circuit files (fixed by b379006)
    check_circuit_text(ctx, out, {'type': 'impedance', 'id': 'Z', 'nodes': ['0', '1'], 'value': {'Z': {'real': 1, 'imag': 2}}},
                       {'Z': complex(1, 2)}, 'cart', 'json')
    check_circuit_text(ctx, out, {'type': 'complex_voltage_source', 'id': 'V', 'nodes': ['1', '0'], 'value': {'V': {'abs': 2, 'phase': 0.5}}},
                       {'V': 2 * cmath.rect(1.0, 0.5)}, 'polar', 'yaml')
    for i in range(30 * scale):
        n = rng.randint(1, 5)
        ids = rng.sample(IDS, n)
        comps = [gen_component(rng, rng.choice(known_circ), ids[j], rng.sample(LABELS, 2), 'real')[0] for j in range(n)]
        circ = {'components': comps}
        if i % 2:
            how = MALFORM_C[(i // 2) % len(MALFORM_C)]
            out.count('malform_c:' + how)
            circ = {'components': malform_c(rng, comps, how)}
            for c in circ['components']:
                check_generate_component(ctx, out, c, {}, False, 'real')
        k, v = check_undictify_circuit(ctx, out, circ)
        # through text, both formats (complex-free: the circuit loader does not convert)
        if all(isinstance(c, dict) for c in circ['components']):
            import yaml
            check_deserialize(ctx, out, json.dumps(circ), 'json', circuit=True)
            check_deserialize(ctx, out, yaml.dump(circ), rng.choice(['yaml', 'yml']), circuit=True)
    for c in ({}, {'components': None}, {'components': []}, None, [], {'components': {}}, {'components': 'ab'}):
        check_undictify_circuit(ctx, out, c)
    # ---- file level: every saver / loader pair, same path rewritten, repeated loads, str and Path
    run_file_streams(ctx, out, 2 if ctx.quick else 12)
    # observation (adjacent to the property, not claimed): Circuit.serialize -> Circuit.deserialize
    obs = {}
    from CircuitCalculator.Circuit import components as ccp
    from CircuitCalculator.Circuit.circuit import Circuit
    for kind, mk in [('resistor', lambda: ccp.resistor('R', ('0', '1'), 5)), ('impedance', lambda: ccp.impedance('Z', ('0', '1'), 1 + 2j)),
                     ('dc_voltage_source', lambda: ccp.dc_voltage_source('V', ('1', '0'), 3)),
                     ('ac_voltage_source', lambda: ccp.ac_voltage_source('V', ('1', '0'), 3, 0, 2, 1)),
                     ('complex_voltage_source', lambda: ccp.complex_voltage_source('V', ('1', '0'), 3 + 1j))]:
        k, s = attempt(CDL.serialize, Circuit([mk()]), 'json')
        k2, v2 = attempt(CDL.deserialize, s, 'json') if k == 'ok' else (k, s)
        obs[kind] = 'ok' if k2 == 'ok' else v2
    out.extra['observation_circuit_save_load'] = obs
    out.sample(dict(description=CORPUS_NET[2]))
    import shutil
    shutil.rmtree(tmp, ignore_errors=True)

def replay(ctx, out, rp):
    canon = rp.get('canon', {})
    inp = rp.get('input')
    op = canon.get('op')
    if op == 'to_complex' and canon.get('symptom') == 'notations_disagree':
        check_notations_agree(ctx, out, inp['abs'], inp['phase_deg'])
    elif op == 'to_complex':
        check_to_complex(ctx, out, inp['z'], inp['degree'], 'replay')
    elif op in ('load_network', 'load_network_from_json'):
        check_load_network(ctx, out, inp, True, 'replay')
    elif op in ('roundtrip', 'serialize'):
        check_roundtrip(ctx, out, from_rp(inp), canon.get('format', 'json'))
    elif op == 'generate_component' and canon.get('symptom') == 'written_value_dropped':
        val = inp.get('value', {})
        check_value_fault(ctx, out, inp, canon.get('kind'), canon.get('fault'),
                          [float(v) for v in val.values() if isinstance(v, (int, float)) and not isinstance(v, bool)])
    elif op == 'generate_component':
        check_generate_component(ctx, out, inp, {}, False, canon.get('notation', 'real'))
        from CircuitCalculator.Circuit import dump_load as CDL
        k, v = attempt(CDL.generate_component, copy.deepcopy(inp))
        if k == 'err':
            out.spec_fail(canon, f'component does not load: {v}', inp)
    elif op == 'undictify_circuit':
        check_undictify_circuit(ctx, out, inp)
    elif op == 'file_load':
        run_file_streams(ctx, out, 2)
    elif op in ('undictify_complex_values',):
        check_inplace(ctx, out, op, from_rp(inp), False)
    else:
        raise SystemExit(f'cannot replay op {op!r}')
    # a replay is about the recorded failure: other *known* findings that fire on the same input are not re-reported
    known = [f for f in core.load_known_findings() if f['property'] == ID and f.get('status') == 'open']
    out.spec_failures = [sf for sf in out.spec_failures if sf['canon'] == canon or not any(core.matches(f['matcher'], sf['canon']) for f in known)]
