"""
C02 — DC/AC phasor analysis of component circuits is exact at every frequency.

Oracle (implementation side): the exact phasor solution of the *intended* network
(CC/Spec/Phasor.lean via driver op cc_spec_net; solved exactly over the Gaussian rationals by
the spec tableau of op wellposed) against what DCSolution / ComplexSolution(w, peak_values)
report: potentials at every node, voltage and current of every component.
Correspondence: the model's DC / complex wrappers (op cc_solution) applied to the
implementation's own network and numpy's own solution vector; the network itself (op
cc_transform) at the default resolution.
"""
from __future__ import annotations
import math
import numpy as np
import core, gen_circuit as gc

ID = 'C02'
LEAN_MODULE = 'CC.Properties.C02'
LEVEL = 'proof'
THEOREMS = [
    'CC.C02_component_eq_spec', 'CC.C02_transform_eq_spec',
    'CC.C02_exact', 'CC.C02_wrappers_generated', 'CC.C02_rms', 'CC.C02_rms_power', 'CC.C02_dc', 'CC.C02_gate_boundary',
]
# round 5: existence, uniqueness and det != 0 for a well-posed phasor network (CC/Properties/C02More.lean)
LEAN_MODULE_EXTRA = ['CC.Properties.C02More']
THEOREMS += ['CC.C02_exists_unique', 'CC.C02_wellPosed_transfer']
OPEN_STATEMENTS = ['C02_exists_unique adds to C02_exact, for a WELL-POSED intended phasor network S: det(A) != 0, exactly one solution vector, and agreement of the reported quantities with every solution of CircuitEqs S; well-posedness of S is a hypothesis (decided per instance by the check with the exact tableau; no theorem says which component circuits are well-posed at which w, e.g. a capacitor in series with a current source at w = 0 is not); hypotheses S.check = ok and no self-loop are still carried; exact arithmetic over the Gaussian rationals only',
                   'C02_rms and conjunct 2 of C02_dc hold by definition of the hand-written wrappers cxGet / dcGet (linked to the generated formulas by C02_wrappers_generated for cxGet; dcGet by correspondence only); C02_dc conjunct 1 is rfl between two transcriptions of solution.py:37/59']
ASSUMPTIONS = [
    'np.cos / np.sin / np.sqrt(2) are parameters of the model; the harness passes numpy\'s own values (r2 = np.sqrt(2), r2·r2 = 2 within 1 ulp)',
    'numpy.linalg.solve is a parameter: C02_exact holds for every vector solving the matrix equation; binary64 agrees with field arithmetic within 1e-9 relative on instances with cond(A) < 1e8',
    'reals are modelled as rationals; C02_exact is instantiated at the Gaussian rationals (CC/Proofs/CircuitGQ.lean proves they form a field)',
    'the interpreter CC/Model/Circuit.lean and the wrappers dcGet / cxGet / cxPower are tied to the code by the cc_transform / cc_solution correspondence only',
]

EXACT_PASSIVE = ['resistor', 'conductance', 'impedance', 'admittance', 'capacitor', 'inductance', 'lamp', 'resistive_load']
SOURCES = ['dc_voltage_source', 'ac_voltage_source', 'dc_current_source', 'ac_current_source']
R2 = float(np.sqrt(2))

def default_wres():
    import inspect
    from CircuitCalculator.Circuit import circuit as cc
    return inspect.signature(cc.transform).parameters['w_resolution'].default

def exact_solution(drv, spec_net):
    wp = drv.call('wellposed', net=spec_net)
    if not wp['wellposed']:
        return None
    pot = {n: core.cfloat(v) for n, v in wp['pot'].items()}
    cur = {n: core.cfloat(v) for n, v in wp['i'].items()}
    volt = {b['id']: pot[b['n1']] - pot[b['n2']] for b in spec_net['branches']}
    return pot, volt, cur

def check_case(ctx, out, descs, w, mode, origin):
    """mode: 'dc' | 'peak' | 'rms'"""
    from CircuitCalculator.Circuit import circuit as cc, solution as sol
    from CircuitCalculator.Network.NodalAnalysis import node_analysis as na
    drv = ctx.driver
    out.evaluations += 1
    comps = [gc.build(d) for d in descs]
    wres = default_wres()
    kinds = sorted({c.type for c in comps})
    from CircuitCalculator.Circuit import transformers as tr_
    untranslated = '+'.join(sorted({c.type for c in comps if c.type != 'ground' and c.type not in tr_.transformers}))
    for k in kinds: out.count('kind:' + k)
    out.count('mode:' + mode); out.count('origin:' + origin)
    inp = dict(components=gc.pretty(descs), w=w, mode=mode)
    canon = dict(op='solution', mode=mode, untranslated=untranslated, w_is_zero=(w == 0))
    if drv is None:
        return
    if gate_tie(comps, w, wres):
        out.skip('tie_margin'); return
    trig, harm = gc.params_for(comps, w)
    req = dict(components=[gc.comp_json(c) for c in comps], w=core.q(w), wres=core.q(wres), trig=trig, harm=harm)
    sp = drv.call('cc_spec_net', **req)
    if sp['net'] is None:
        out.skip('outside_spec_domain'); return
    labels = {b['n1'] for b in sp['net']['branches']} | {b['n2'] for b in sp['net']['branches']}
    if sp['net']['zero'] not in labels or any(b['n1'] == b['n2'] for b in sp['net']['branches']):
        out.skip('spec_net_invalid'); return
    ex = exact_solution(drv, sp['net'])
    if ex is None:
        out.count('illposed:' + origin); return
    pot_x, volt_x, cur_x = ex
    scale = max([abs(v) for v in list(pot_x.values()) + list(cur_x.values())] + [1.0])
    # each class of quantity is judged relative to its own magnitude (a circuit of MΩ and µA must not hide behind an
    # absolute floor): |impl − exact| ≤ 1e-6·max|exact values of that class| + 1e-12·(1 + overall magnitude)
    sc_v = max([abs(v) for v in list(pot_x.values()) + list(volt_x.values())] + [0.0])
    sc_i = max([abs(v) for v in cur_x.values()] + [0.0])
    raw = max([abs(v) for v in list(pot_x.values()) + list(cur_x.values())] + [0.0])
    def near(got, want, cls_scale, current=False):
        # floor: rounding of the solve, ~eps·(magnitude of the solution); a current is a potential difference times an
        # admittance, so its floor scales with the largest admittance of the circuit
        got = complex(got); want = complex(want)
        floor = 1e-10 * (1.0 + raw) * (y_adm if current else 1.0)
        return np.isfinite(got) and abs(got - want) <= fscale * (1e-6 * cls_scale + floor)
    ymax = max([abs(core.cfloat(b['e']['a'])) for b in sp['net']['branches']] + [1.0])
    adm = [abs(core.cfloat(b['e']['a'])) if b['e']['k'] == 'T' else (1.0 / abs(core.cfloat(b['e']['a'])) if abs(core.cfloat(b['e']['a'])) > 0 else 0.0)
           for b in sp['net']['branches']]
    y_adm = max(adm + [1.0])
    # ---- implementation
    try:
        C = cc.Circuit(list(comps))
        S = sol.DCSolution(C) if mode == 'dc' else sol.ComplexSolution(C, w=w, peak_values=(mode == 'peak'))
        net = S._solution.network
        A = np.asarray(na.nodal_analysis_coefficient_matrix(net), dtype=complex)
    except Exception as e:
        out.spec_fail(dict(canon, symptom='raises', exc=gc.tag(e)),
                      f'analysis of a well-posed circuit raises {type(e).__name__}: {e}', inp,
                      impl=dict(exception=repr(e)), descs=gc.tag_types(descs), w=w, mode=mode)
        return
    if A.size and (not np.all(np.isfinite(A)) or np.linalg.cond(A) > 1e8):
        out.skip('ill_conditioned:' + origin); return
    # ---- correspondence: network and wrappers
    if gc.finite_net(net):
        m = drv.call('cc_transform', **req)
        jn = gc.net_json(net)
        ok = 'ok' in m and jn['zero'] == m['ok']['zero'] and len(jn['branches']) == len(m['ok']['branches']) and \
            all(gc.branches_close(bi, bm)[0] and bi['ty'] == bm['ty'] for bi, bm in zip(jn['branches'], m['ok']['branches']))
        if not ok:
            out.disagree('cc_transform', inp, jn, m)
        x_py = [core.qc(z) for z in np.asarray(S._solution._solution_vector, dtype=complex)]
        ms = drv.call('cc_solution', net=jn, x=x_py, mode=mode, r2=core.q(R2))
        for grp, getter, names in (('pot', S.get_potential, net.node_labels), ('v', S.get_voltage, [b.id for b in net.branches]),
                                   ('i', S.get_current, [b.id for b in net.branches]), ('p', S.get_power, [b.id for b in net.branches])):
            for n in names:
                try:
                    iv = complex(getter(n))
                except Exception as e:
                    iv = gc.tag(e)
                mv = ms[grp][n]
                if 'ok' in mv:
                    mval = core.cfloat(mv['ok']) if isinstance(mv['ok'], list) else float(core.unq(mv['ok']))
                    good = not isinstance(iv, str) and core.close(iv, mval, scale * (scale if grp == 'p' else 1), 1e-11)
                else:
                    good = iv == mv['err']
                if not good:
                    out.disagree('cc_solution.' + grp, inp, str(iv), mv, id=n, mode=mode)
        out.traces_validated += 1
    # ---- oracle: the exact phasor solution of the intended network
    f = (lambda z: z.real) if mode == 'dc' else ((lambda z: z) if mode == 'peak' else (lambda z: z / R2))
    fscale = 1.0 if mode != 'rms' else 1.0 / R2
    tol = 1e-7 * max(1.0, min(ymax, 1e3))
    bad = None
    for n, v in pot_x.items():
        try:
            got = complex(S.get_potential(n))
        except Exception as e:
            bad = ('potential', n, gc.tag(e), f(v)); break
        if not (core.close(got, f(v), scale, tol) and near(got, f(v), sc_v)):
            bad = ('potential', n, got, f(v)); break
    if bad is None:
        for b in sp['net']['branches']:
            i = b['id']
            for name, getter, want in (('voltage', S.get_voltage, volt_x[i]), ('current', S.get_current, cur_x[i])):
                try:
                    got = complex(getter(i))
                except Exception as e:
                    bad = (name, i, gc.tag(e), f(want)); break
                if not (core.close(got, f(want), scale, tol) and near(got, f(want), sc_v if name == 'voltage' else sc_i, current=(name == 'current'))):
                    bad = (name, i, got, f(want)); break
            if bad: break
    if bad is not None:
        sym = 'raises' if isinstance(bad[2], str) else 'not_the_solution'
        out.spec_fail(dict(canon, symptom=sym, quantity=bad[0]),
                      f'{mode} {bad[0]} of {bad[1]!r} is {bad[2]} but the exact phasor solution gives {bad[3]}', inp,
                      impl=str(bad[2]), spec=str(bad[3]), descs=gc.tag_types(descs), w=w, mode=mode)
        return
    # ---- power of both complex modes agrees (peak: ½·V·conj I, rms: V·conj I)
    if mode in ('peak', 'rms'):
        try:
            other = sol.ComplexSolution(C, w=w, peak_values=(mode != 'peak'))
            for b in net.branches:
                p1, p2 = complex(S.get_power(b.id)), complex(other.get_power(b.id))
                if not core.close(p1, p2, scale * scale, 1e-9):
                    out.spec_fail(dict(canon, symptom='power_modes_differ'), f'peak and RMS power of {b.id!r} differ', inp,
                                  impl=str(p1), spec=str(p2), descs=gc.tag_types(descs), w=w, mode=mode)
                    return
        except Exception as e:
            out.spec_fail(dict(canon, symptom='raises', exc=gc.tag(e)), f'power raises {type(e).__name__}', inp, descs=gc.tag_types(descs), w=w, mode=mode)
            return
    out.count('verified:' + origin)
    out.nontrivial((tuple(kinds), len(labels), mode, w == 0, origin == 'high_frequency' and round(math.log10(max(w, 1e-9)))))
    out.sample(dict(inp, origin=origin))

def gate_tie(comps, w, wres) -> bool:
    """True when, for some source, the gate decided in binary64 as the code computes it
    (`np.abs(w - w_src) > w_res`, resp. `|w/w0 - n| > w_res/w0`) differs from the decision on the
    exact rationals of the same floats (`|w - w_src| ≤ w_res` exactly): only possible within a
    few ulp of the boundary itself; such cases are counted as skipped, never judged"""
    from fractions import Fraction
    W, R = Fraction(w), Fraction(wres)
    for c in comps:
        if 'source' not in c.type or 'w' not in c.value:
            continue
        ws = float(c.value['w'])
        if c.type.startswith('periodic'):
            if ws <= 0: continue
            n = float(np.round(w / ws))
            fl_off = bool(np.abs(w / ws - n) > wres / ws)
            k = (W / Fraction(ws)).__floor__()
            ex_on = any(abs(W - m * Fraction(ws)) <= R for m in (k, k + 1))
            if fl_off == ex_on:
                return True
        else:
            fl_off = bool(np.abs(w - ws) > wres)
            ex_on = abs(W - Fraction(ws)) <= R
            if fl_off == ex_on:
                return True
    return False

HF_SOURCES = [100.0, 1000.0, 1.0e4, 1.0e5, 2.0 ** 10, 2.0 ** 14, 314.159, 12345.678, 5.0e4]
HF_K = [0.5, 1.0, 1.5, 2.0, 5.0, 10.0, 100.0]

def high_frequency_cases(rng, wres):
    """sources far up the frequency axis, analysed at w_src ± k·w_res and w_src·(1 ± 2^-20):
    an absolute window of w_res must not widen with the magnitude of w_src.  Yields
    (descs, w, mode)."""
    import math
    for ws in HF_SOURCES:
        p2 = 2.0 ** -round(math.log2(ws))                  # reactances of order 1 at w_src
        for kind in ('ac_voltage_source', 'ac_current_source', 'periodic_voltage_source', 'periodic_current_source'):
            n = 1 if not kind.startswith('periodic') else rng.choice([1, 2, 3])
            w0 = ws / n if kind.startswith('periodic') and ws / n * n == ws else ws
            if kind.startswith('periodic'): n = round(ws / w0)
            offs = [0.0] + [s * k * wres for k in HF_K for s in (1, -1)] + [ws * 2.0 ** -20, -ws * 2.0 ** -20]
            for off in offs:
                w = ws + off
                inner = rng.choice([0.0, 2.0, 0.5])
                if kind == 'ac_voltage_source':
                    src = dict(fn=kind, id='S', nodes=['1', '0'], args=dict(V=4.0, R=inner, w=ws, phi=gc.phase(rng)))
                elif kind == 'ac_current_source':
                    src = dict(fn=kind, id='S', nodes=['0', '1'], args=dict(I=2.0, G=inner, w=ws, phi=gc.phase(rng)))
                elif kind == 'periodic_voltage_source':
                    src = dict(fn=kind, id='S', nodes=['1', '0'], args=dict(wavetype=rng.choice(['rect', 'saw', 'tri'] if n % 2 else ['saw']),
                                                                              V=4.0, w=w0, phi=gc.phase(rng), R=inner))
                else:
                    src = dict(fn=kind, id='S', nodes=['0', '1'], args=dict(wavetype=rng.choice(['rect', 'saw', 'tri'] if n % 2 else ['saw']),
                                                                              I=2.0, w=w0, phi=gc.phase(rng), G=inner))
                descs = [dict(fn='ground', id='gnd', nodes=['0'], args={}), src,
                         dict(fn='resistor', id='R1', nodes=['1', '2'], args=dict(R=2.0)),
                         dict(fn=rng.choice(['capacitor', 'inductance']), id='X', nodes=['2', '0'], args=None),
                         dict(fn='resistor', id='R2', nodes=['1', '0'], args=dict(R=4.0))]
                descs[3]['args'] = dict(C=p2) if descs[3]['fn'] == 'capacitor' else dict(L=p2)
                if rng.random() < 0.5:     # a second source oscillating exactly at the analysis frequency
                    descs.append(dict(fn='ac_current_source', id='J', nodes=['0', '2'], args=dict(I=1.0, G=0.25, w=w, phi=0.5)))
                yield descs, w, rng.choice(['peak', 'rms'])
    for kind in ('dc_voltage_source', 'dc_current_source'):    # DC sources: the window around 0
        for off in [0.0] + [k * wres for k in HF_K] + [float(np.nextafter(wres, 1.0)), float(np.nextafter(wres, 0.0))]:
            src = dict(fn=kind, id='S', nodes=['1', '0'], args=dict(V=4.0, R=1.0)) if kind == 'dc_voltage_source' else \
                  dict(fn=kind, id='S', nodes=['0', '1'], args=dict(I=2.0, G=0.5))
            descs = [dict(fn='ground', id='gnd', nodes=['0'], args={}), src,
                     dict(fn='resistor', id='R1', nodes=['1', '2'], args=dict(R=2.0)),
                     dict(fn='capacitor', id='X', nodes=['2', '0'], args=dict(C=64.0)),
                     dict(fn='resistor', id='R2', nodes=['1', '0'], args=dict(R=4.0))]
            yield descs, off, rng.choice(['peak', 'rms'])

def typed(rng, descs):
    """the same circuit with ints, numpy scalars and numpy complex numbers as values"""
    out_ = []
    for d in descs:
        a = {}
        for k, v in d['args'].items():
            if isinstance(v, complex):
                a[k] = np.complex128(v) if rng.random() < 0.7 else v
            elif isinstance(v, float):
                c = rng.random()
                a[k] = int(v) if (v == int(v) and c < 0.4) else (np.float64(v) if c < 0.8 else (np.int64(v) if v == int(v) else np.float32(v) if float(np.float32(v)) == v else v))
            else:
                a[k] = v
        out_.append(dict(d, args=a))
    return out_

def si_scaled(rng):
    """impedance level Z0 and frequency w over decades: R = Z0·r, G = g/Z0, L = Z0·l/w, C = c/(Z0·w), I = a/Z0 —
    MΩ / pF / nH / µA at w up to 1e8; driven by current sources so that the conditioning does not depend on Z0"""
    Z0 = rng.choice([1e6, 1e3, 50.0, 1e-3, 4.7e5])
    w = rng.choice([1e3, 1e6, 1e8, 2 * math.pi * 50, 3.3e7])
    descs = gc.random_circuit(rng, ['resistor', 'resistor', 'capacitor', 'inductance', 'conductance', 'impedance', 'admittance', 'ac_current_source'],
                              exact=False, n_nodes=rng.randint(2, 5), freqs=[w], source_kinds=['ac_current_source'], internal=True)
    for d in descs:
        a = d['args']
        r = float(f'{rng.uniform(0.2, 5):.3g}')
        if d['fn'] == 'resistor': a['R'] = Z0 * r
        elif d['fn'] == 'conductance': a['G'] = r / Z0
        elif d['fn'] == 'capacitor': a['C'] = r / (Z0 * w)
        elif d['fn'] == 'inductance': a['L'] = Z0 * r / w
        elif d['fn'] == 'impedance': a['Z'] = complex(Z0 * r, Z0 * rng.uniform(-2, 2))
        elif d['fn'] == 'admittance': a['Y'] = complex(r / Z0, rng.uniform(-2, 2) / Z0)
        elif d['fn'] == 'ac_current_source': a.update(I=r / Z0, G=rng.choice([0.0, 0.5 / Z0]), w=w)
    return descs, w

ZERO_KEYS = {'resistor': 'R', 'conductance': 'G', 'capacitor': 'C', 'inductance': 'L', 'lamp': 'P', 'resistive_load': 'P',
             'dc_voltage_source': 'V', 'ac_voltage_source': 'V', 'dc_current_source': 'I', 'ac_current_source': 'I'}

def coverage_cases(ctx):
    """streams the random circuits above do not reach: source-free circuits, int / numpy typed values, SI scales,
    zero amplitudes, zero-valued elements inside full circuits, 6–12 node circuits.  Yields (descs, w, mode, origin)."""
    rng = ctx.rng('coverage')
    q = ctx.quick
    for _ in range(8 if q else 80):                                          # no source at all: everything is zero
        descs = gc.random_circuit(rng, EXACT_PASSIVE, exact=True, n_nodes=rng.randint(2, 5), min_sources=0, source_kinds=[])
        for w, mode in ((0.0, 'dc'), (1.0, 'peak'), (2.0, 'rms')):
            yield descs, w, mode, 'source_free'
    for _ in range(10 if q else 100):                                         # ints, numpy floats / ints / complex
        descs = gc.random_circuit(rng, list(EXACT_PASSIVE) + SOURCES + ['complex_voltage_source'], exact=True, n_nodes=rng.randint(2, 4),
                                  freqs=[1.0, 2.0], source_kinds=SOURCES)
        yield typed(rng, descs), rng.choice([0.0, 1.0, 2.0]), rng.choice(['peak', 'rms']), 'typed_values'
    for _ in range(14 if q else 200):                                         # MΩ, pF, nH, µA, w up to 1e8
        descs, w = si_scaled(rng)
        yield descs, w, rng.choice(['peak', 'rms']), 'si_scaled'
    for _ in range(10 if q else 100):                                         # zero amplitudes and zero-valued elements
        descs = gc.random_circuit(rng, list(EXACT_PASSIVE) + SOURCES, exact=True, n_nodes=rng.randint(2, 5), freqs=[1.0, 2.0], source_kinds=SOURCES)
        cand = [d for d in descs if d['fn'] in ZERO_KEYS]
        for d in rng.sample(cand, min(len(cand), rng.randint(1, 2))):
            d['args'][ZERO_KEYS[d['fn']]] = 0.0
        w = rng.choice([0.0, 1.0, 2.0])
        yield descs, w, ('dc' if w == 0 and rng.random() < 0.5 else rng.choice(['peak', 'rms'])), 'zero_values'
    for _ in range(4 if q else 60):                                           # larger circuits
        descs = gc.random_circuit(rng, list(EXACT_PASSIVE) * 2 + SOURCES, exact=rng.random() < 0.5, n_nodes=rng.randint(6, 12),
                                  freqs=[1.0, 2.0, 0.5], source_kinds=SOURCES)
        w = rng.choice([0.0, 1.0, 2.0, 0.5])
        yield descs, w, ('dc' if w == 0 else rng.choice(['peak', 'rms'])), 'large'

def frequencies(rng, descs, wres):
    ws = [0.0]
    src = sorted({d['args']['w'] for d in descs if d['fn'] in ('ac_voltage_source', 'ac_current_source')})
    off = 2.0 ** -11          # inside the default resolution 1e-3 (subtraction exact for dyadic source frequencies)
    out_ = 2.0 ** -9          # outside
    for s in src:
        ws += [s, s + off, s + out_, max(0.0, s - off), max(0.0, s - out_)]
    ws += [rng.choice([0.25, 3.0, 8.0, 0.75]), off, out_]
    # exactly on the boundary of the resolution for sources at frequency 0 (comparison exact), and one ulp beyond
    ws += [wres, float(np.nextafter(wres, 1.0))]
    return list(dict.fromkeys(ws))

def run(ctx, out):
    out.rule = ('connected multigraphs of R / G / Z / Y / C / L / lamp / load with DC and sinusoidal '
                'sources with and without internal R / G, adversarial node labels and ids, optional ground at a random position; '
                'values dyadic/small integers (70 %) or decades; amplitudes of either sign, phases in all quadrants; frequencies '
                '0, every source frequency, dyadic offsets just inside (2^-11) and outside (2^-9) the default resolution, others; '
                'plus a high-frequency sweep: ac / periodic sources at 1e2 … 1e5, 2^10, 2^14 analysed at w_src ± k·w_res, k ∈ {0.5, 1, 1.5, 2, 5, 10, 100}, '
                'and w_src·(1 ± 2^-20), DC sources at k·w_res (gate decided on the exact rationals; cases where binary64 and exact '
                'decision differ — the boundary itself — are skipped as tie_margin); '
                'plus streams: source-free circuits, int / numpy typed values, SI scales (Z0 1e-3 … 1e6, w up to 1e8), zero amplitudes and '
                'zero-valued elements, 6–12 nodes; each quantity class judged relative to its own magnitude; '
                'modes dc / peak / rms; a case is non-trivial when the intended network is well-posed (exact tableau) and the '
                'reported potentials, voltages, currents equal its exact solution; distinct by (kind set, node count, mode, w = 0)')
    for descs, w, mode in CORPUS:
        check_case(ctx, out, descs, w, mode, 'corpus')
    # the resolution window is absolute: sources over decades up to 1e5 analysed at w_src ± k·w_res and w_src·(1 ± 2^-20)
    hf = list(high_frequency_cases(ctx.rng('high_frequency'), default_wres()))
    if ctx.quick:
        hf = ctx.rng('high_frequency_sample').sample(hf, 260)
    for descs, w, mode in hf:
        if ctx.time_left() < 30: out.notes.append('high-frequency sweep cut by budget'); break
        check_case(ctx, out, descs, w, mode, 'high_frequency')
    for descs, w, mode, origin in coverage_cases(ctx):
        if ctx.time_left() < 25: out.notes.append('coverage streams cut by budget'); break
        check_case(ctx, out, descs, w, mode, origin)
    rng = ctx.rng('random')
    n = 160 if ctx.quick else 1500
    for k in range(n):
        if ctx.time_left() < 15: out.notes.append(f'stopped after {k} circuits (budget)'); break
        exact = rng.random() < 0.7
        kinds = list(EXACT_PASSIVE) * 2 + SOURCES
        descs = gc.random_circuit(rng, kinds, exact=exact, freqs=[1.0, 2.0, 0.5, 0.0], n_nodes=rng.randint(2, 4),
                                  source_kinds=SOURCES)
        wres = default_wres()
        ws = frequencies(rng, descs, wres)
        if ctx.quick and len(ws) > 5:
            ws = ws[:2] + rng.sample(ws[2:-2], 2) + ws[-2:]
        for w in ws:
            for mode in (['dc'] if w == 0 else []) + [rng.choice(['peak', 'rms'])] + ([] if ctx.quick else ['peak', 'rms']):
                check_case(ctx, out, descs, w, mode, 'random')

CORPUS = [
    # an open switch (R = inf) in series with a branch: no current flows through it, the rest is solved as if it were absent
    ([dict(fn='ground', id='gnd', nodes=['0'], args={}),
      dict(fn='dc_voltage_source', id='V', nodes=['1', '0'], args=dict(V=6.0, R=1.0)),
      dict(fn='resistor', id='R1', nodes=['1', '0'], args=dict(R=2.0)),
      dict(fn='resistor', id='Sw', nodes=['1', '2'], args=dict(R=math.inf)),
      dict(fn='resistor', id='R2', nodes=['2', '0'], args=dict(R=4.0))], 0.0, 'dc'),
    ([dict(fn='ground', id='gnd', nodes=['0'], args={}),
      dict(fn='ac_current_source', id='I', nodes=['0', '1'], args=dict(I=2.0, G=0.5, w=2.0, phi=0.5)),
      dict(fn='capacitor', id='C', nodes=['1', '0'], args=dict(C=0.25)),
      dict(fn='resistor', id='Sw', nodes=['1', '2'], args=dict(R=math.inf)),
      dict(fn='inductance', id='L', nodes=['2', '0'], args=dict(L=1.0))], 2.0, 'rms'),
    # series RLC driven at its source frequency, peak and RMS
    ([dict(fn='ground', id='gnd', nodes=['0'], args={}),
      dict(fn='ac_voltage_source', id='Vs', nodes=['1', '0'], args=dict(V=4.0, R=0.0, w=2.0, phi=math.pi / 2)),
      dict(fn='resistor', id='R', nodes=['1', '2'], args=dict(R=2.0)),
      dict(fn='inductance', id='L', nodes=['2', '3'], args=dict(L=0.5)),
      dict(fn='capacitor', id='C', nodes=['3', '0'], args=dict(C=0.25))], 2.0, 'peak'),
    ([dict(fn='ground', id='gnd', nodes=['0'], args={}),
      dict(fn='ac_voltage_source', id='Vs', nodes=['1', '0'], args=dict(V=4.0, R=0.0, w=2.0, phi=math.pi / 2)),
      dict(fn='resistor', id='R', nodes=['1', '2'], args=dict(R=2.0)),
      dict(fn='inductance', id='L', nodes=['2', '3'], args=dict(L=0.5)),
      dict(fn='capacitor', id='C', nodes=['3', '0'], args=dict(C=0.25))], 2.0, 'rms'),
    # DC: capacitor open, inductor shorted
    ([dict(fn='dc_voltage_source', id='V', nodes=['a', 'b'], args=dict(V=8.0, R=1.0)),
      dict(fn='inductance', id='L', nodes=['a', 'c'], args=dict(L=2.0)),
      dict(fn='resistor', id='R', nodes=['c', 'b'], args=dict(R=3.0)),
      dict(fn='capacitor', id='C', nodes=['c', 'b'], args=dict(C=1.0))], 0.0, 'dc'),
    # a source at another frequency is a short / an open
    ([dict(fn='ac_voltage_source', id='V1', nodes=['1', '0'], args=dict(V=2.0, R=1.0, w=1.0, phi=0.0)),
      dict(fn='ac_voltage_source', id='V2', nodes=['2', '1'], args=dict(V=3.0, R=0.0, w=4.0, phi=1.0)),
      dict(fn='ac_current_source', id='I3', nodes=['0', '2'], args=dict(I=1.0, G=0.5, w=4.0, phi=0.0)),
      dict(fn='resistor', id='R', nodes=['2', '0'], args=dict(R=2.0))], 1.0, 'peak'),
    # a conductance / an admittance in parallel (dropped before fix ac3e686)
    ([dict(fn='ground', id='gnd', nodes=['0'], args={}),
      dict(fn='dc_current_source', id='I', nodes=['0', '1'], args=dict(I=1.0, G=0.0)),
      dict(fn='conductance', id='G', nodes=['1', '0'], args=dict(G=2.0)),
      dict(fn='resistor', id='R', nodes=['1', '0'], args=dict(R=1.0))], 0.0, 'dc'),
    ([dict(fn='ground', id='gnd', nodes=['0'], args={}),
      dict(fn='ac_current_source', id='I', nodes=['0', '1'], args=dict(I=1.0, G=0.0, w=2.0, phi=0.5)),
      dict(fn='admittance', id='Y', nodes=['1', '0'], args=dict(Y=complex(2.0, -1.0))),
      dict(fn='capacitor', id='C', nodes=['1', '0'], args=dict(C=1.0))], 2.0, 'rms'),
]

def replay(ctx, out, rp):
    if ctx.driver is None and getattr(ctx.build, 'driver_baseline', None) is not None:
        # the regenerated definitions do not build: replay against the last good driver, as the check itself does
        try: ctx.driver = core.Driver(ctx.build.driver_baseline)
        except core.DriverError: pass
    descs = rp.get('descs')
    if descs is None:
        raise SystemExit('replay file carries no component descriptions')
    descs = gc.untag_types(descs)          # numpy-typed values are stored with their type
    check_case(ctx, out, descs, rp.get('w', 0.0), rp.get('mode', 'peak'), 'replay')
    if rp.get('canon') is not None:          # report only the recorded failure
        out.spec_failures = [sf for sf in out.spec_failures if sf['canon'] == rp['canon']]
