"""
C20 — analyses are pure, repeatable functions of the circuit description.

Three ties, all on every run:
  (a) translator: harness/extract_load.py regenerates CC/Gen/Effects.lean (the effect summary of
      every function of the anchored modules); the frame / defaults theorems of
      CC/Properties/C20.lean are re-checked against it by `lake build`;
  (b) dynamic validation of the summary's soundness (trusted base of the theorems): random
      histories of public operations of C01–C12, C16, C17 over a pool of *shared* argument
      objects; a deep snapshot of the whole pool and of every mutable default before and after
      each call; every object that changed must be bound to a parameter the summary lists
      (otherwise the summary is unsound: `disagree`), and any change at all violates the
      property (`spec_fail`, unless a known finding);
  (c) each result is compared with an isolated evaluation on fresh deep copies of the pristine
      objects; loader histories are additionally replayed on the Lean heap machine
      (`c20_history`, CC/Model/Effects.lean) and compared step by step.
"""
from __future__ import annotations
import copy, dataclasses, json, math, os, sys, types
import numpy as np
import core, gen_net
from props import c17

ID = 'C20'
LEAN_MODULE = 'CC.Properties.C20'
LEVEL = 'proof'
THEOREMS = [
    'CC.C20_frame_rows', 'CC.C20_frame', 'CC.C20_frame_exceptions_exact', 'CC.C20_frame_all', 'CC.C20_defaults',
    'CC.C20_no_global_writes', 'CC.C20_no_unknown_callee', 'CC.C20_no_unknown_decorator',
    'CC.C20_history', 'CC.C20_history_frame', 'CC.C20_pure_history', 'CC.C20_loaders_sound', 'CC.C20_loader_histories',
]
# round 5 (lean/CC/Properties/C20More.lean, helper lemmas lean/CC/Proofs/EffectsMore.lean): more corollaries for every sound machine;
# the generated summary read group by group (transformers, nodal analysis, nodal state-space model, multi-frequency solutions,
# support table, formatter absent); the executable models of CC/Model/{Transform,MNA,StateSpace,MultiFreq,Fmt}.lean as machines
LEAN_MODULE_EXTRA = ['CC.Properties.C20More']
THEOREMS += [
    'CC.C20_history_append', 'CC.C20_history_perm', 'CC.C20_history_swap', 'CC.C20_effects_transformers_check',
    'CC.C20_effects_transformers_pure', 'CC.C20_effects_mna_check', 'CC.C20_effects_mna_pure', 'CC.C20_effects_state_check',
    'CC.C20_effects_state_pure', 'CC.C20_effects_multifreq_check', 'CC.C20_effects_multifreq_pure',
    'CC.C20_effects_support_rows', 'CC.C20_effects_support_pure', 'CC.C20_effects_fmt_absent_scope',
    'CC.C20_effects_fmt_absent_support', 'CC.C20_effects_fmt_absent', 'CC.C20_group_history',
    'CC.C20_transformers_any_machine', 'CC.C20_mna_any_machine', 'CC.C20_state_any_machine', 'CC.C20_multifreq_any_machine',
    'CC.C20_transformers_sound', 'CC.C20_transformers_histories', 'CC.C20_transformers_call_removeShort',
    'CC.C20_transformers_call_passive', 'CC.C20_transformers_same_description', 'CC.C20_mna_sound', 'CC.C20_mna_histories',
    'CC.C20_mna_call_voltage', 'CC.C20_mna_same_description', 'CC.C20_state_sound', 'CC.C20_state_histories',
    'CC.C20_state_call_cRowVoltage', 'CC.C20_state_same_description', 'CC.C20_state_builder_keeps_description',
    'CC.C20_multifreq_sound', 'CC.C20_multifreq_histories', 'CC.C20_multifreq_call_series',
    'CC.C20_multifreq_same_description', 'CC.C20_fmt_sound', 'CC.C20_fmt_histories', 'CC.C20_fmt_call_str',
    'CC.C20_fmt_same_description', 'CC.C20_fmt_not_in_summary',
]
OPEN_STATEMENTS = [
    # not Lean statements (nothing in the generated table to state them over) — kept here so that the evidence says what is NOT proved:
    'returned objects are fresh (share no mutable part with an argument): the effect summary has no column for the returned value; identity / snapshot oracle only',
    'formatter code (Utils.py, SimpleCircuit/Display.py) is not in the effect summary (CC.C20_effects_fmt_absent): only the formatter MODEL is shown repeatable',
    'state that is consumed rather than written (a stored generator, seeded change C20-3B) is not a write of the effect analysis: object-level oracle only',
]
ASSUMPTIONS = [
    'the generated effect summary over-approximates what the Python functions write (validated dynamically on every run by deep snapshots over random histories; proved for the loader model: C20_loaders_sound)',
    'callable parameters are resolved to their default / functools.partial binding; callables supplied by the caller are assumed not to write their arguments (listed in CC/Gen/Effects.lean: assumedCallables)',
    'C20_loaders_sound computes the post-state for to_complex / load_network / generate_component / undictify_circuit; for the four dump_load.* '
    'conversions the loader machine returns the cell unchanged by construction (their purity rests on the generated summary and the snapshot oracle); '
    'C20_frame_exceptions_exact is rfl on the hand-written empty list (a registration), the fact about the code is C20_frame_rows / C20_frame_all',
    'interpreter-level state (numpy/scipy caches, hash randomisation) is outside the model',
    'the theorems are about the extracted effect model; what Python does to real objects is observed dynamically only',
    'C20More: Machine.Sound of the transformer / MNA / state-space / multi-frequency / formatter machines holds by construction (their steps are Lean '
    'functions that hand the pool back); the fact about the code is the group statements C20_effects_<group>_pure (decide +kernel over the generated table) '
    'and, through them, C20_<group>_any_machine for every semantics that respects the summary',
    'C20More: the state-space machine takes the two numpy.linalg.inv calls as a function of the description (deterministic library routine); the time-domain '
    'getters are modelled at one instant on the lines (phasor, cos wt, sin wt) the object holds; a missing keep= argument (shared default list) is not an operation '
    'of the transformer machine (the default objects are the subject of C20_defaults)',
    'C20More: group membership is by qualified-name prefix within scopeRows (the rows of the anchor files); the support table is covered by '
    'C20_effects_support_rows (exactly three rows with a non-empty write set: elements.impedance_value/admittance_value [phi], complex_value [X])',
]

# --------------------------------------------------------------------------- canonical deep snapshots

def snap(x, depth=0):
    """canonical, order-preserving, identity-free deep representation"""
    if depth > 40:
        return '<deep>'
    if x is None or isinstance(x, (bool, str, int)):
        return x
    if isinstance(x, (float, np.floating)):
        return ('f', repr(float(x)))
    if isinstance(x, (complex, np.complexfloating)):
        return ('c', repr(float(x.real)), repr(float(x.imag)))
    if isinstance(x, np.integer):
        return int(x)
    if isinstance(x, np.bool_):
        return bool(x)
    if isinstance(x, np.ndarray):
        if x.dtype == object:
            return ('arr', x.shape, [snap(v, depth + 1) for v in x.ravel().tolist()])
        return ('arr', x.shape, str(x.dtype), [snap(v, depth + 1) for v in x.ravel().tolist()])
    if isinstance(x, (list, tuple)):
        return (type(x).__name__, [snap(v, depth + 1) for v in x])
    if isinstance(x, dict):
        return ('dict', [(snap(k, depth + 1), snap(v, depth + 1)) for k, v in x.items()])
    if isinstance(x, (set, frozenset)):
        return ('set', sorted(repr(snap(v, depth + 1)) for v in x))
    if isinstance(x, BaseException):
        return ('exc', type(x).__name__)
    if dataclasses.is_dataclass(x) and not isinstance(x, type):
        d = [(f.name, snap(getattr(x, f.name, None), depth + 1)) for f in dataclasses.fields(x)]
        extra = [(k, snap(v, depth + 1)) for k, v in sorted(getattr(x, '__dict__', {}).items())
                 if k not in {f.name for f in dataclasses.fields(x)}]
        return (type(x).__name__, d, extra)
    if callable(x):
        return ('callable', getattr(x, '__qualname__', type(x).__name__))
    return ('obj', type(x).__name__, repr(x)[:80])

def numeric_close(a, b, tol=1e-9):
    """same structure, numbers within tol (used only to classify float noise, never to accept)"""
    if type(a) != type(b):
        return False
    if isinstance(a, tuple) and a and a[0] == 'f':
        return core.close(float(a[1]), float(b[1]), 0.0, tol) or (a[1] == b[1])
    if isinstance(a, tuple) and a and a[0] == 'c':
        return core.close(complex(float(a[1]), float(a[2])), complex(float(b[1]), float(b[2])), 0.0, tol) or a == b
    if isinstance(a, (tuple, list)):
        return len(a) == len(b) and all(numeric_close(x, y, tol) for x, y in zip(a, b))
    return a == b

def mutable_ids(x, acc=None, depth=0):
    """ids of the mutable containers reachable from x (two pool objects that share one are aliases:
    a write through one is visible through the other)"""
    acc = set() if acc is None else acc
    if depth > 40 or x is None or isinstance(x, (bool, int, float, complex, str, bytes)):
        return acc
    if isinstance(x, (list, dict, set, np.ndarray)):
        if id(x) in acc:
            return acc
        acc.add(id(x))
    if isinstance(x, dict):
        for v in x.values(): mutable_ids(v, acc, depth + 1)
    elif isinstance(x, (list, tuple, set, frozenset)):
        for v in x: mutable_ids(v, acc, depth + 1)
    elif dataclasses.is_dataclass(x) and not isinstance(x, type):
        for f in dataclasses.fields(x): mutable_ids(getattr(x, f.name, None), acc, depth + 1)
    return acc

def outcome(f):
    try:
        return ('ok', f())
    except Exception as e:            # noqa: BLE001 — the exception class is the observable outcome
        return ('err', type(e).__name__)

# --------------------------------------------------------------------------- pool

WAVES = ['rect', 'tri', 'saw', 'sin', 'cos']

def gen_circuit(rng):
    from CircuitCalculator.Circuit import components as ccp
    from CircuitCalculator.Circuit.circuit import Circuit
    n = rng.randint(2, 4)
    nodes = [str(i) for i in range(n)]
    idf = rng.choice(gen_net.ID_POOLS)
    comps, k = [], 0
    def nid(kind):
        nonlocal k
        k += 1
        return idf(kind, k)
    w0 = rng.choice([1.0, 2.0, 0.5, 10.0])
    src = rng.choice(['dc_v', 'ac_v', 'per_v', 'dc_i', 'ac_i', 'dc_v'])
    R = lambda: float(rng.choice([1, 2, 4, 0.5, 10, 100]))
    if src == 'dc_v': comps.append(ccp.dc_voltage_source(nid('V'), ('1', '0'), V=R(), R=rng.choice([0, 0, 1.0])))
    elif src == 'ac_v': comps.append(ccp.ac_voltage_source(nid('V'), ('1', '0'), V=R(), R=rng.choice([0, 2.0]), w=w0, phi=rng.choice([0, 0.5, -1.0])))
    elif src == 'per_v': comps.append(ccp.periodic_voltage_source(nid('V'), ('1', '0'), wavetype=rng.choice(WAVES), V=R(), w=w0, phi=rng.choice([0, 0.25])))
    elif src == 'dc_i': comps.append(ccp.dc_current_source(nid('I'), ('0', '1'), I=R(), G=rng.choice([0, 0.5])))
    else: comps.append(ccp.ac_current_source(nid('I'), ('0', '1'), I=R(), G=rng.choice([0, 0.25]), w=w0, phi=rng.choice([0, 1.0])))
    passive = ['resistor', 'resistor', 'capacitor', 'inductance', 'impedance', 'conductance', 'lamp']
    for i in range(1, n):
        a, b = nodes[i], nodes[(i + 1) % n] if i + 1 < n else '0'
        for pair in ((a, b), (a, '0')):
            if pair[0] == pair[1] or rng.random() < 0.25:
                continue
            kind = rng.choice(passive)
            if kind == 'resistor': comps.append(ccp.resistor(nid('R'), pair, R()))
            elif kind == 'capacitor': comps.append(ccp.capacitor(nid('C'), pair, R() * 1e-2))
            elif kind == 'inductance': comps.append(ccp.inductance(nid('L'), pair, R() * 1e-1))
            elif kind == 'impedance': comps.append(ccp.impedance(nid('Z'), pair, complex(R(), rng.choice([0, 1.0, -2.0]))))
            elif kind == 'conductance': comps.append(ccp.conductance(nid('G'), pair, R()))
            else: comps.append(ccp.lamp(nid('H'), pair, P=R(), V_ref=R()))
    if not any(c.nodes == ('1', '0') or c.nodes == ('1',) for c in comps[1:]):
        comps.append(ccp.resistor(nid('R'), ('1', '0'), R()))
    if rng.random() < 0.5:
        comps.append(ccp.ground(nodes=('0',)))
    rng.shuffle(comps)
    return Circuit(comps)

class Pool:
    """shared argument objects of one history, with pristine deep copies and taint tracking"""
    def __init__(self):
        self.obj, self.pristine, self.kind, self.taint = {}, {}, {}, {}
    def add(self, key, kind, value):
        self.obj[key] = value
        self.pristine[key] = copy.deepcopy(value)
        self.kind[key] = kind
        return key
    def keys(self, kind):
        return [k for k, v in self.kind.items() if v == kind]
    def snapshot(self):
        return {k: snap(v) for k, v in self.obj.items()}

def make_pool(rng):
    p = Pool()
    from CircuitCalculator.Network.network import Network
    tries = 0
    while len(p.keys('network')) < 3 and tries < 30:
        tries += 1
        desc = gen_net.random_desc(rng, exact=True, n_nodes=rng.randint(2, 5), n_extra=rng.randint(0, 3),
                                   degenerate=0.15 if rng.random() < 0.4 else 0.0)
        try:
            p.add(f'net{len(p.keys("network"))}', 'network', gen_net.to_impl(desc))
        except Exception:
            continue
    for i in range(2):
        p.add(f'circ{i}', 'circuit', gen_circuit(rng))
    nets = [p.obj[k] for k in p.keys('network')]
    elems = [b.element for n in nets for b in n.branches]
    for i in range(2):
        p.add(f'keep{i}', 'keep', rng.sample(elems, min(len(elems), rng.randint(0, 3))))
    for i in range(2):
        net = rng.choice(nets)
        ids = [b.id for b in net.branches]
        rng.shuffle(ids)
        kc = rng.randint(0, min(2, len(ids)))
        kl = rng.randint(0, min(1, len(ids) - kc))
        p.add(f'cval{i}', 'cvals', {x: float(rng.choice([1e-3, 2e-3, 0.5])) for x in ids[:kc]})
        p.add(f'lval{i}', 'lvals', {x: float(rng.choice([1e-2, 0.25])) for x in ids[kc:kc + kl]})
    kinds = [k for k in c17.INTENDED if k != 'admittance']
    for i in range(3):
        p.add(f'desc{i}', 'desc', c17.gen_description(rng, kinds if rng.random() < 0.8 else list(c17.INTENDED)))
    for i in range(2):
        p.add(f'z{i}', 'znote', c17.cx_notation(rng, 'polar' if i == 0 else None)[0])
    for i in range(2):
        p.add(f'tree{i}', 'tree', c17.gen_tree(rng, cx=True, cxlike=True, scalars_in_lists=rng.random() < 0.3))
    ckinds = list(c17.INTENDED_C)
    for i in range(2):
        n = rng.randint(1, 3)
        ids = rng.sample(c17.IDS, n)
        p.add(f'cdesc{i}', 'cdesc', {'components': [c17.gen_component(rng, rng.choice(ckinds), ids[j], rng.sample(c17.LABELS, 2), 'real')[0]
                                                    for j in range(n)]})
    p.add('wlist', 'wlist', rng.sample([0, 1.0, 2.0, 0.5], rng.randint(1, 3)))
    p.add('warr', 'warr', np.array([0.0, 1.0, 10.0][:rng.randint(1, 3)]))
    p.add('tinF', 'tin', np.linspace(0.02, 0.07, 6))
    p.add('tinI', 'tin', np.arange(1, 6))
    p.add('idsA', 'ids', [])
    p.add('idsB', 'ids', [])
    return p

# --------------------------------------------------------------------------- operations

Q = dict(
    NT='Network.transformers.', NL='Network.loaders.', NA='Network.NodalAnalysis.node_analysis.',
    BP='Network.NodalAnalysis.bias_point_analysis.', SS='Network.NodalAnalysis.state_space_model.',
    DL='dump_load.', CDL='Circuit.dump_load.', CC='Circuit.circuit.', CI='Circuit.impedance.',
    CS='Circuit.solution.', CSS='Circuit.state_space_model.')

def _labels(net):
    return sorted({b.node1 for b in net.branches} | {b.node2 for b in net.branches})

def _solution_report(sol, ids, nodes):
    rep = {}
    for n in nodes:
        rep['p:' + str(n)] = outcome(lambda: sol.get_potential(n))
    for i in ids:
        rep['v:' + i] = outcome(lambda: sol.get_voltage(i))
        rep['i:' + i] = outcome(lambda: sol.get_current(i))
        rep['P:' + i] = outcome(lambda: sol.get_power(i))
    return rep

def _eval_td(rep, t):
    out = {}
    for k, (kind, v) in rep.items():
        out[k] = (kind, v(t) if kind == 'ok' and callable(v) else v)
    return out

def build_ops():
    """name -> (qualified functions exercised, argument kinds {param: pool kind}, runner(args, lit) -> result,
               literal generator(rng, args) -> dict)"""
    from CircuitCalculator.Network import transformers as trf, loaders as L
    from CircuitCalculator.Network.NodalAnalysis import node_analysis as na, bias_point_analysis as bp, state_space_model as ssm, label_mapping as lm
    from CircuitCalculator import dump_load as DL
    from CircuitCalculator.Circuit import dump_load as CDL, circuit as cc, impedance as ci, solution as cs, state_space_model as css
    ops = {}
    def op(name, quals, argkinds, run, lit=None):
        ops[name] = (quals, argkinds, run, lit or (lambda rng, a: {}))
    N = {'network': 'network'}
    lit_nodes = lambda rng, a: dict(n1=rng.choice(_labels(a['network']) or ['0']), n2=rng.choice(_labels(a['network']) or ['0']))
    lit_id = lambda rng, a: dict(id=rng.choice([b.id for b in a['network'].branches] or ['?']))
    # ---- C01/C03/C05
    op('solve', [Q['BP'] + 'nodal_analysis_bias_point_solver'], N,
       lambda a, l: _solution_report(bp.nodal_analysis_bias_point_solver(a['network']), [b.id for b in a['network'].branches], _labels(a['network'])))
    op('mna', [Q['NA'] + 'nodal_analysis_coefficient_matrix', Q['NA'] + 'nodal_analysis_constants_vector'], N,
       lambda a, l: (na.nodal_analysis_coefficient_matrix(a['network']), na.nodal_analysis_constants_vector(a['network'])))
    op('mappers', [], N, lambda a, l: (lm.alphabetic_node_mapper(a['network']).keys, lm.alphabetic_source_mapper(a['network']).keys))
    # ---- C06
    op('open_circuit_voltage', [Q['BP'] + 'open_circuit_voltage'], N, lambda a, l: bp.open_circuit_voltage(a['network'], l['n1'], l['n2']), lit_nodes)
    op('short_circuit_current', [Q['BP'] + 'short_circuit_current'], N, lambda a, l: bp.short_circuit_current(a['network'], l['n1'], l['n2']), lit_nodes)
    op('open_circuit_impedance', [Q['NA'] + 'open_circuit_impedance'], N, lambda a, l: na.open_circuit_impedance(a['network'], l['n1'], l['n2']), lit_nodes)
    op('element_impedance', [Q['NA'] + 'element_impedance'], N, lambda a, l: na.element_impedance(a['network'], l['id']), lit_id)
    # ---- C04/C16 transformers
    op('switch_ground_node', [Q['NT'] + 'switch_ground_node'], N, lambda a, l: trf.switch_ground_node(a['network'], l['n1']), lit_nodes)
    op('remove_element', [Q['NT'] + 'remove_element'], N, lambda a, l: trf.remove_element(a['network'], l['id']), lit_id)
    op('remove_open_circuit_elements', [Q['NT'] + 'remove_open_circuit_elements'], N, lambda a, l: trf.remove_open_circuit_elements(a['network']))
    NK = {'network': 'network', 'keep': 'keep'}
    for f in ('remove_short_circuit_elements', 'short_circuitify_voltage_sources', 'open_circuitify_current_sources',
              'remove_ideal_current_sources', 'remove_ideal_voltage_sources', 'passive_network'):
        fn = getattr(trf, f)
        op(f, [Q['NT'] + f], NK, lambda a, l, fn=fn: fn(a['network'], keep=a['keep']))
        op(f + '_default', [Q['NT'] + f], N, lambda a, l, fn=fn: fn(a['network']))
    # ---- C10
    NCL = {'network': 'network', 'c_values': 'cvals', 'l_values': 'lvals'}
    op('state_space_matrices', [Q['SS'] + 'state_space_matrices'], NCL,
       lambda a, l: ssm.state_space_matrices(a['network'], c_values=a['c_values'], l_values=a['l_values']))
    op('state_space_matrices_default', [Q['SS'] + 'state_space_matrices'], N, lambda a, l: ssm.state_space_matrices(a['network']))
    def run_nssm(a, l):
        m = ssm.nodal_state_space_model(a['network'], c_values=a['c_values'], l_values=a['l_values'])
        ids = [b.id for b in a['network'].branches]
        return dict(A=m.A, B=m.B, C=m.C, D=m.D, sources=outcome(lambda: m.sources),
                    rows={i: (outcome(lambda: m.c_row_voltage(i)), outcome(lambda: m.c_row_current(i)),
                              outcome(lambda: m.d_row_voltage(i)), outcome(lambda: m.d_row_current(i))) for i in ids},
                    pots={n: (outcome(lambda: m.c_row_for_potential(n)), outcome(lambda: m.d_row_for_potential(n))) for n in _labels(a['network'])})
    op('nodal_state_space_model', [Q['SS'] + 'nodal_state_space_model'], NCL, run_nssm)
    # ---- C02/C07/C09 circuits
    C = {'circuit': 'circuit'}
    lit_w = lambda rng, a: dict(w=rng.choice([0, 0.0, 1.0, 2.0, 0.5, 10.0, 3.0]), peak=rng.random() < 0.5, w_max=rng.choice([0, 5.0, 25.0]))
    op('transform_circuit', [Q['CC'] + 'transform_circuit'], C, lambda a, l: cc.transform_circuit(a['circuit'], l['w']), lit_w)
    op('transform', [Q['CC'] + 'transform'], {'circuit': 'circuit', 'w': 'wlist'}, lambda a, l: cc.transform(a['circuit'], w=a['w']))
    op('transform_default', [Q['CC'] + 'transform'], C, lambda a, l: cc.transform(a['circuit']))
    op('frequency_components', [Q['CC'] + 'frequency_components'], C, lambda a, l: cc.frequency_components(a['circuit'], l['w_max']), lit_w)
    op('ground_node', [], C, lambda a, l: (a['circuit'].ground_node, [c.id for c in a['circuit'].components]))
    def ids_nodes(c):
        ids = [x.id for x in c.components if x.type != 'ground']
        nodes = sorted({n for x in c.components for n in x.nodes})
        return ids, nodes
    op('DCSolution', [Q['CS'] + 'DCSolution.__post_init__', Q['CS'] + 'DCSolution.get_voltage'], C,
       lambda a, l: _solution_report(cs.DCSolution(a['circuit']), *ids_nodes(a['circuit'])))
    op('ComplexSolution', [Q['CS'] + 'ComplexSolution.__post_init__'], C,
       lambda a, l: _solution_report(cs.ComplexSolution(a['circuit'], w=l['w'], peak_values=l['peak']), *ids_nodes(a['circuit'])), lit_w)
    tgrid = np.array([0.0, 0.1, 0.37, 1.0])
    op('TimeDomainSolution', [Q['CS'] + 'TimeDomainSolution.__post_init__'], C,
       lambda a, l: _eval_td(_solution_report(cs.TimeDomainSolution(a['circuit'], w_max=l['w_max']), *ids_nodes(a['circuit'])), tgrid), lit_w)
    op('FrequencyDomainSolution', [Q['CS'] + 'FrequencyDomainSolution.__post_init__'], C,
       lambda a, l: _solution_report(cs.FrequencyDomainSolution(a['circuit'], w_max=l['w_max']), *ids_nodes(a['circuit'])), lit_w)
    def run_transient(a, l):
        c = a['circuit']
        srcs = {x.id: (lambda t, v=float(x.value.get('V', x.value.get('I', 1.0))): v * np.ones(np.size(t))) for x in c.components if 'w' in x.value}
        sol = cs.TransientSolution(c, tin=a['tin'], input=srcs)
        return _solution_report(sol, *ids_nodes(c))
    op('TransientSolution', [Q['CS'] + 'TransientSolution.__post_init__'], {'circuit': 'circuit', 'tin': 'tin'}, run_transient)
    lit_cn = lambda rng, a: dict(n1=rng.choice(ids_nodes(a['circuit'])[1]), n2=rng.choice(ids_nodes(a['circuit'])[1]),
                                 id=rng.choice(ids_nodes(a['circuit'])[0] or ['?']))
    CW = {'circuit': 'circuit', 'w': 'warr'}
    op('circuit_open_circuit_impedance', [Q['CI'] + 'open_circuit_impedance'], CW, lambda a, l: ci.open_circuit_impedance(a['circuit'], l['n1'], l['n2'], w=a['w']), lit_cn)
    op('circuit_open_circuit_impedance_default', [Q['CI'] + 'open_circuit_impedance'], C, lambda a, l: ci.open_circuit_impedance(a['circuit'], l['n1'], l['n2']), lit_cn)
    op('circuit_element_impedance', [Q['CI'] + 'element_impedance'], CW, lambda a, l: ci.element_impedance(a['circuit'], l['id'], w=a['w']), lit_cn)
    op('circuit_element_impedance_default', [Q['CI'] + 'element_impedance'], C, lambda a, l: ci.element_impedance(a['circuit'], l['id']), lit_cn)
    op('open_circuit_dc_resistance', [Q['CI'] + 'open_circuit_dc_resistance'], C, lambda a, l: ci.open_circuit_dc_resistance(a['circuit'], l['n1'], l['n2']), lit_cn)
    def run_css(a, l):
        m = css.state_space_model(a['circuit'], potential_nodes=a['potential_nodes'], voltage_ids=a['voltage_ids'], current_ids=a['current_ids'])
        return dict(A=m.A, B=m.B, C=m.C, D=m.D)
    op('circuit_state_space_model', [Q['CSS'] + 'state_space_model'],
       {'circuit': 'circuit', 'potential_nodes': 'ids', 'voltage_ids': 'ids', 'current_ids': 'ids'}, run_css)
    def run_css_default(a, l):
        m = css.state_space_model(a['circuit'])
        return dict(A=m.A, B=m.B, C=m.C, D=m.D)
    op('circuit_state_space_model_default', [Q['CSS'] + 'state_space_model'], C, run_css_default)
    # ---- C17 loaders
    op('load_network', [Q['NL'] + 'load_network'], {'network_dict': 'desc'}, lambda a, l: L.load_network(a['network_dict']))
    op('to_complex', [Q['NL'] + 'to_complex'], {'z': 'znote'}, lambda a, l: L.to_complex(a['z'], l['deg']), lambda rng, a: dict(deg=rng.random() < 0.5))
    for f in ('dictify_complex_values', 'undictify_complex_values', 'dictify_all_complex_values', 'undictify_all_complex_values'):
        fn = getattr(DL, f)
        op(f, [Q['DL'] + f], {'data': 'tree'}, lambda a, l, fn=fn: fn(a['data']))
    op('serialize', [Q['DL'] + 'serialize'], {'data': 'tree'}, lambda a, l: DL.serialize(a['data'], l['fmt']), lambda rng, a: dict(fmt=rng.choice(['json', 'yaml', 'yml', 'xml'])))
    op('deserialize', [Q['DL'] + 'deserialize'], {}, lambda a, l: DL.deserialize(l['s'], l['fmt']),
       lambda rng, a: dict(s=rng.choice(['{"a": {"real": 1, "imag": 2}, "l": [{"z": {"abs": 1, "phase": 0.5}}]}', '{"a": 1}', '{"n": [1]}']), fmt='json'))
    op('generate_component', [Q['CDL'] + 'generate_component'], {'component': 'cdesc'},
       lambda a, l: CDL.generate_component(a['component']['components'][l['k'] % len(a['component']['components'])]), lambda rng, a: dict(k=rng.randrange(4)))
    op('undictify_circuit', [Q['CDL'] + 'undictify_circuit'], {'circuit': 'cdesc'}, lambda a, l: CDL.undictify_circuit(a['circuit']))
    op('circuit_serialize', [Q['CDL'] + 'serialize', Q['CDL'] + 'dictify_circuit'], C, lambda a, l: CDL.serialize(a['circuit'], 'json'))
    return ops

# --------------------------------------------------------------------------- defaults and module tables

def collect_defaults():
    """every mutable default argument object of the modules in scope: (function, parameter, object)"""
    import inspect, importlib
    mods = ['CircuitCalculator.Network.transformers', 'CircuitCalculator.Network.loaders', 'CircuitCalculator.Network.network',
            'CircuitCalculator.Network.elements', 'CircuitCalculator.Network.NodalAnalysis.state_space_model',
            'CircuitCalculator.Network.NodalAnalysis.solution', 'CircuitCalculator.Network.NodalAnalysis.bias_point_analysis',
            'CircuitCalculator.Network.NodalAnalysis.node_analysis', 'CircuitCalculator.Network.NodalAnalysis.label_mapping',
            'CircuitCalculator.dump_load', 'CircuitCalculator.Circuit.dump_load', 'CircuitCalculator.Circuit.solution',
            'CircuitCalculator.Circuit.circuit', 'CircuitCalculator.Circuit.impedance', 'CircuitCalculator.Circuit.state_space_model',
            'CircuitCalculator.Circuit.transformers', 'CircuitCalculator.Circuit.components']
    out, tables = [], []
    for mn in mods:
        m = importlib.import_module(mn)
        short = mn.replace('CircuitCalculator.', '')
        for name, f in vars(m).items():
            fs = [(name, f)] if isinstance(f, types.FunctionType) and f.__module__ == mn else \
                 [(f'{name}.{k}', v) for k, v in vars(f).items() if isinstance(v, types.FunctionType)] if isinstance(f, type) and f.__module__ == mn else []
            for qn, fn in fs:
                try:
                    sig = inspect.signature(fn)
                except (TypeError, ValueError):
                    continue
                for p in sig.parameters.values():
                    if isinstance(p.default, (list, dict, set, np.ndarray)):
                        out.append((f'{short}.{qn}', p.name, p.default))
            if isinstance(f, (dict, list)) and not name.startswith('__'):
                tables.append((f'{short}.{name}', f))
    return out, tables

def snap_tables(tables):
    return {n: (sorted(map(str, t.keys())) if isinstance(t, dict) else len(t), [id(v) for v in (t.values() if isinstance(t, dict) else t)]) for n, t in tables}

# --------------------------------------------------------------------------- one history

# the conversions of dump_load.py (they used to work in place and return their argument)
IN_PLACE = {'dictify_complex_values', 'undictify_complex_values', 'dictify_all_complex_values', 'undictify_all_complex_values'}

def do_step(ctx, out, pool, ops, effects, defaults, tables, name, keys, lit, hist_no, step, trace):
    """one operation on shared pool objects: snapshots, write-set check, isolated evaluation; returns the in-history outcome"""
    quals, argkinds, run, litgen = ops[name]
    args = {p: pool.obj[k] for p, k in keys.items()}
    out.evaluations += 1
    out.count('op:' + name)
    trace.append((name, dict(keys), {k: (v if isinstance(v, (int, float, str, bool)) else str(v)) for k, v in lit.items()}))
    before = pool.snapshot()
    d_before = [snap(o) for _, _, o in defaults]
    t_before = snap_tables(tables)
    res_h = outcome(lambda: run(args, lit))
    res_h_s = snap(res_h)
    after = pool.snapshot()
    d_after = [snap(o) for _, _, o in defaults]
    t_after = snap_tables(tables)
    returned_arg = None
    if name in IN_PLACE and res_h[0] == 'ok':
        returned_arg = res_h[1] is args['data']
    # ---- what changed
    changed = [k for k in before if before[k] != after[k]]
    predicted = set()
    for q in quals:
        ws = effects.get(q)
        if ws is None:
            predicted |= set(keys.values())
        else:
            predicted |= {keys[p] for p in ws if p in keys}
            if 'self' in ws and q.endswith('__post_init__'):
                predicted |= set(keys.values())          # a constructor that writes through `self` may write any of its arguments
    if any(k not in predicted for k in changed) and predicted:
        reach = set().union(*[mutable_ids(pool.obj[p]) for p in predicted])
        predicted |= {k for k in changed if mutable_ids(pool.obj[k]) & reach}      # aliases of a written argument
    for k in changed:
        param = next((p for p, kk in keys.items() if kk == k), None)
        if k not in predicted:
            out.disagree('effects', dict(history=hist_no, step=step, op=name, object=k),
                         dict(changed=k, param=param), dict(predicted=sorted(predicted), functions=quals),
                         note='the generated effect summary does not cover a write that happened')
        canon = dict(op=name, symptom='argument_mutated', param=param or 'not-an-argument', kind=pool.kind[k])
        if name == 'to_complex': canon['degree'] = bool(lit.get('deg'))
        out.spec_fail(canon, f'{name} changed the {pool.kind[k]} object passed as {param!r}',
                      dict(history=hist_no, step=step, trace=trace[-6:]), impl=dict(before=str(before[k])[:300], after=str(after[k])[:300]),
                      spec='no operation mutates the objects passed to it')
        pool.taint.setdefault(k, name)
    for (fq, pn, _), b, a_ in zip(defaults, d_before, d_after):
        if b != a_:
            out.spec_fail(dict(op=name, symptom='default_mutated', function=fq, param=pn),
                          f'{name} changed the mutable default {pn!r} of {fq}', dict(history=hist_no, step=step, trace=trace[-6:]),
                          impl=dict(before=str(b), after=str(a_)))
    if t_before != t_after:
        diff = sorted(n for n in t_before if t_before[n] != t_after[n])
        out.spec_fail(dict(op=name, symptom='module_table_mutated', table=','.join(diff)), f'{name} changed a module-level table',
                      dict(history=hist_no, step=step, trace=trace[-6:]))
    # ---- isolated evaluation on fresh deep copies of the pristine objects
    iso_args = {p: copy.deepcopy(pool.pristine[k]) for p, k in keys.items()}
    res_i = outcome(lambda: run(iso_args, lit))
    res_i_s = snap(res_i)
    out.traces_validated += 1
    if res_h_s != res_i_s:
        tainted = sorted({pool.taint[k] for k in keys.values() if k in pool.taint})
        if not tainted and numeric_close(res_h_s, res_i_s):
            out.skip('float_noise_between_identical_calls')
        else:
            loaders = {'load_network', 'to_complex', 'dictify_complex_values', 'undictify_complex_values',
                       'dictify_all_complex_values', 'undictify_all_complex_values'}
            cls = 'none' if not tainted else 'loader' if set(tainted) <= loaders else 'other'
            out.spec_fail(dict(op=name, symptom='history_dependent', tainted_by=','.join(tainted) or 'none', taint_class=cls),
                          f'{name} gives a different result inside the history than in isolation' +
                          (f' (argument earlier changed by {", ".join(tainted)})' if tainted else ''),
                          dict(history=hist_no, step=step, trace=trace[-8:]), impl=dict(in_history=str(res_h_s)[:400], isolated=str(res_i_s)[:400]))
    else:
        out.nontrivial((name, res_h[0], tuple(sorted(pool.kind[k] for k in keys.values()))))
    if returned_arg is True and isinstance(args['data'], (dict, list)):
        out.disagree('returns_new_object', dict(history=hist_no, step=step, op=name), 'returned its argument', 'the model says: a new container')
    return res_h

def run_history(ctx, out, ops, effects, defaults, tables, rng, n_ops, hist_no):
    pool = make_pool(rng)
    names = list(ops)
    weights = [3 if n in ('load_network', 'to_complex', 'undictify_all_complex_values', 'passive_network', 'remove_short_circuit_elements',
                          'state_space_matrices', 'transform', 'circuit_state_space_model', 'solve') else
               0.6 if n == 'TransientSolution' else 1 for n in names]
    last = None
    trace = []
    for step in range(n_ops):
        if ctx.time_left() < 8:
            return False
        name = last if (last and rng.random() < 0.15) else rng.choices(names, weights)[0]
        last = name
        quals, argkinds, run, litgen = ops[name]
        keys = {}
        ok = True
        for param, kind in argkinds.items():
            ks = pool.keys(kind)
            if not ks: ok = False; break
            keys[param] = rng.choice(ks)
        if not ok:
            continue
        args = {p: pool.obj[k] for p, k in keys.items()}
        try:
            lit = litgen(rng, args)
        except Exception:
            continue
        if name == 'circuit_state_space_model':
            c = args['circuit']
            for p, src in (('potential_nodes', sorted({n for x in c.components for n in x.nodes})),
                           ('voltage_ids', [x.id for x in c.components if x.type != 'ground']),
                           ('current_ids', [x.id for x in c.components if x.type != 'ground'])):
                pass        # the shared id lists may name unknown ids: the exception is a result like any other
        res_h = do_step(ctx, out, pool, ops, effects, defaults, tables, name, keys, lit, hist_no, step, trace)
        # ---- keep the history going: results join the pool, tainted objects are sometimes restored
        if res_h[0] == 'ok' and type(res_h[1]).__name__ == 'Network' and len(pool.keys('network')) < 6 and rng.random() < 0.4:
            pool.add(f'net{len(pool.keys("network"))}r', 'network', res_h[1])
        for k in list(pool.taint):
            if rng.random() < 0.4:
                pool.obj[k] = copy.deepcopy(pool.pristine[k]); del pool.taint[k]
    return True

# --------------------------------------------------------------------------- corpus: the former failing histories

def corpus_pool():
    """the minimal inputs of the findings fixed by b501fa0 / cd8d9e4 / 2481879 (they must pass now and are
    reported again if a fix is reverted)"""
    p = Pool()
    p.add('desc0', 'desc', [{'type': 'resistor', 'id': 'R1', 'N1': '1', 'N2': '0', 'R': 10},
                            {'type': 'admittance', 'id': 'Y1', 'N1': '1', 'N2': '0', 'Y': {'abs': 2, 'phase': 0.5}}])
    p.add('z0', 'znote', {'abs': 2, 'phase': 30})
    p.add('tree0', 'tree', {'z': {'real': 1, 'imag': 2}, 'l': [{'w': {'abs': 1, 'phase': 0.5}}, 3, 'n'], 'c': complex(1, 2), 'nodes': ['0', '1']})
    return p

CORPUS_HISTORY = [('load_network', {'network_dict': 'desc0'}, {}), ('load_network', {'network_dict': 'desc0'}, {}),
                  ('to_complex', {'z': 'z0'}, {'deg': True}), ('to_complex', {'z': 'z0'}, {'deg': True}),
                  ('undictify_complex_values', {'data': 'tree0'}, {}), ('undictify_all_complex_values', {'data': 'tree0'}, {}),
                  ('dictify_complex_values', {'data': 'tree0'}, {}), ('dictify_all_complex_values', {'data': 'tree0'}, {}),
                  ('serialize', {'data': 'tree0'}, {'fmt': 'json'}), ('serialize', {'data': 'tree0'}, {'fmt': 'yaml'}),
                  ('undictify_all_complex_values', {'data': 'tree0'}, {}), ('load_network', {'network_dict': 'desc0'}, {})]

def run_corpus(ctx, out, ops, effects, defaults, tables):
    pool = corpus_pool()
    trace = []
    first = {}
    for step, (name, keys, lit) in enumerate(CORPUS_HISTORY):
        res = do_step(ctx, out, pool, ops, effects, defaults, tables, name, keys, lit, 'corpus', step, trace)
        key = (name, json.dumps(keys, sort_keys=True), json.dumps(lit, sort_keys=True))
        s_ = snap(res)
        if key in first and first[key] != s_:
            out.spec_fail(dict(op=name, symptom='repeat_differs'), f'{name} repeated on the same object gives a different result',
                          dict(history='corpus', step=step, trace=trace[-6:]), impl=dict(first=str(first[key])[:300], now=str(s_)[:300]))
        first.setdefault(key, s_)
        if res[0] == 'err':
            out.spec_fail(dict(op=name, symptom='corpus_step_raises', exc=res[1], step=step), f'corpus step {step} ({name}) raises {res[1]}',
                          dict(history='corpus', step=step, trace=trace[-6:]))
    out.count('corpus_history')

# --------------------------------------------------------------------------- loader histories on the Lean heap machine

LOADER_OPS = [('Network.loaders.to_complex', 'z'), ('Network.loaders.load_network', 'network_dict'),
              ('Circuit.dump_load.generate_component', 'component'), ('Circuit.dump_load.undictify_circuit', 'circuit'),
              ('dump_load.dictify_complex_values', 'data'), ('dump_load.dictify_all_complex_values', 'data'),
              ('dump_load.undictify_complex_values', 'data'), ('dump_load.undictify_all_complex_values', 'data')]

def loader_history(ctx, out, rng, n_ops):
    from CircuitCalculator.Network import loaders as L
    from CircuitCalculator import dump_load as DL
    from CircuitCalculator.Circuit import dump_load as CDL
    fns = {'Network.loaders.to_complex': lambda v, deg: L.to_complex(v, deg), 'Network.loaders.load_network': lambda v, deg: L.load_network(v),
           'Circuit.dump_load.generate_component': lambda v, deg: CDL.generate_component(v),
           'Circuit.dump_load.undictify_circuit': lambda v, deg: CDL.undictify_circuit(v),
           'dump_load.dictify_complex_values': lambda v, deg: DL.dictify_complex_values(v),
           'dump_load.dictify_all_complex_values': lambda v, deg: DL.dictify_all_complex_values(v),
           'dump_load.undictify_complex_values': lambda v, deg: DL.undictify_complex_values(v),
           'dump_load.undictify_all_complex_values': lambda v, deg: DL.undictify_all_complex_values(v)}
    kinds = [k for k in c17.INTENDED]
    heap = [c17.gen_description(rng, kinds, n=rng.randint(1, 3)), c17.cx_notation(rng, 'polar')[0], c17.cx_notation(rng)[0],
            c17.gen_tree(rng, cx=True, cxlike=True), c17.gen_tree(rng, cx=False, cxlike=True, scalars_in_lists=True),
            {'components': [c17.gen_component(rng, rng.choice(list(c17.INTENDED_C)), 'K%d' % j, ['0', '1'], 'real')[0] for j in range(2)]},
            c17.gen_component(rng, rng.choice(list(c17.INTENDED_C)), 'Q', ['a', '0'], rng.choice(['real', 'cart']))[0]]
    prefer = {0: [1], 1: [0], 2: [0], 3: [4, 5, 6, 7], 4: [4, 5, 6, 7], 5: [3], 6: [2]}
    wire0 = [c17.enc(v) for v in heap]
    plan = []
    for _ in range(n_ops):
        cell = rng.randrange(len(heap))
        k = rng.choice(prefer[cell]) if rng.random() < 0.8 else rng.randrange(len(LOADER_OPS))
        plan.append(dict(fn=LOADER_OPS[k][0], param=LOADER_OPS[k][1], cell=cell, deg=rng.random() < 0.5))
    m = ctx.driver.call('c20_history', heap=wire0, ops=plan, trig=c17.trig_for(*heap, depth=n_ops + 1))
    for step, (o, ms) in enumerate(zip(plan, m)):
        out.evaluations += 1
        v = heap[o['cell']]
        kind, val = c17.attempt(fns[o['fn']], v, o['deg'])
        wire = [c17.enc(x) for x in heap]
        mo = ms['out']
        if mo['kind'] == 'cx':
            same_out = c17.res_same(mo['res'], kind, core.qc(val) if kind == 'ok' else val,
                                    lambda a, b: core.close(core.cfloat(a), core.cfloat(b), 0.0, 1e-12))
        elif mo['kind'] == 'net':
            same_out = c17.res_same(mo['res'], kind, c17.network_wire(val) if kind == 'ok' else val, c17.branches_same)
        elif mo['kind'] == 'comp':
            same_out = c17.res_same(mo['res'], kind, c17.component_wire(val) if kind == 'ok' else val, c17.comp_same)
        elif mo['kind'] == 'circ':
            same_out = c17.res_same(mo['res'], kind, c17.circuit_wire(val) if kind == 'ok' else val, c17.circ_same)
        elif mo['kind'] == 'tree':
            same_out = c17.res_same(mo['res'], kind, c17.enc(val) if kind == 'ok' else val, c17.same) and \
                not (kind == 'ok' and isinstance(v, (dict, list)) and val is v)
        else:
            same_out = False
        same_heap = len(ms['heap']) == len(wire) and all(c17.same(a, b) for a, b in zip(ms['heap'], wire))
        changed_cells = [i for i, (a, b) in enumerate(zip(wire0 if step == 0 else prev_wire, wire)) if a != b]
        if not (same_out and same_heap) or any(i not in ms['writes'] for i in changed_cells):
            out.disagree('c20_history', dict(plan=plan[:step + 1], heap0=wire0), dict(out=(kind, str(val)[:200]), heap=wire), ms)
            return
        prev_wire = wire
        out.traces_validated += 1
    out.count('loader_histories')

# --------------------------------------------------------------------------- object-level repeatability

def state_snap(o):
    """deep snapshot of what an analysis object stores (arrays A, B, C, D, stored solutions, mappings)"""
    d = getattr(o, '__dict__', None)
    if d is None:
        return snap(o)
    return [(k, snap(v)) for k, v in sorted(d.items())]

def _eval_result(v, tgrid):
    """a getter's answer as comparable data (time-domain getters return functions: sampled)"""
    if callable(v) and not isinstance(v, type):
        return ('fn', outcome(lambda: v(tgrid)))
    if isinstance(v, tuple) and any(callable(x) for x in v):
        return tuple(_eval_result(x, tgrid) for x in v)
    return v

def repeat_check(ctx, out, label, make, queries, args, rng, case):
    """every getter twice, in different orders, on the SAME object and on a fresh object: all answers equal; what the object
    stores and every argument unchanged"""
    tgrid = np.array([0.0, 0.1, 0.37, 1.0])
    out.evaluations += 1
    out.count('object:' + label)
    args_before = {k: snap(v) for k, v in args.items()}
    k0, o1 = outcome(make)
    if k0 == 'err':
        out.count(f'object_construct_error:{label}:{o1}')
        k0b, o1b = outcome(make)
        if (k0b, o1b if k0b == 'err' else None) != ('err', o1):
            out.spec_fail(dict(op=label, symptom='construction_not_repeatable'), f'{label}: constructing twice gives different outcomes', case)
        return
    def ask(o, order):
        res = {}
        for i in order:
            name, q = queries[i]
            kk, v = outcome(lambda: q(o))
            res[i] = snap((kk, _eval_result(v, tgrid) if kk == 'ok' else v))
        return res
    fwd = list(range(len(queries)))
    st0 = state_snap(o1)
    a1 = ask(o1, fwd)
    st1 = state_snap(o1)
    a2 = ask(o1, fwd[::-1])
    a3 = ask(o1, fwd)
    k0, o2 = outcome(make)
    shuffled = fwd[:]; rng.shuffle(shuffled)
    b = ask(o2, shuffled) if k0 == 'ok' else {}
    out.traces_validated += 1
    def fail(symptom, i, what, x, y):
        out.spec_fail(dict(op=label, symptom=symptom, getter=queries[i][0].split('(')[0] if i is not None else 'none'), f'{label}: {what}', case,
                      impl=dict(query=queries[i][0] if i is not None else None, first=str(x)[:300], other=str(y)[:300]))
    for i in fwd:
        if a1[i] != a3[i]: return fail('repeat_differs', i, f'{queries[i][0]} asked again on the same object answers differently', a1[i], a3[i])
        if a1[i] != a2[i]: return fail('order_dependent', i, f'{queries[i][0]} answers differently when the getters are called in another order', a1[i], a2[i])
        if b and a1[i] != b[i]: return fail('fresh_object_differs', i, f'{queries[i][0]} on a fresh object of the same description answers differently', a1[i], b[i])
    if st0 != st1 or state_snap(o1) != st0:
        changed = [k for (k, v0), (_, v1) in zip(st0, state_snap(o1)) if v0 != v1] if len(st0) == len(state_snap(o1)) else ['<fields>']
        return fail('object_state_changed', None, f'queries changed what the object stores: {changed}', '', '')
    for k, v in args.items():
        if snap(v) != args_before[k]:
            out.spec_fail(dict(op=label, symptom='argument_mutated', param=k, kind=type(v).__name__), f'{label} changed its argument {k!r}', case)
            return
    # FAILING queries (unknown ids; the exception is caught by the caller) interleaved with valid ones on one more object:
    # a failed query leaves what the object stores untouched, and every valid answer is the same before and after it
    failing = [i for i in fwd if a1[i][1][0] == 'err']
    valid = [i for i in fwd if i not in failing]
    if failing and valid:
        k0, o3 = outcome(make)
        if k0 == 'ok':
            v0 = ask(o3, valid)
            for f in failing:
                st = state_snap(o3)
                ask(o3, [f])
                st_after = state_snap(o3)
                if st_after != st:
                    changed = [k for (k, x), (_, y) in zip(st, st_after) if x != y] if len(st) == len(st_after) else ['<fields>']
                    return fail('state_changed_by_failed_query', f, f'the failed query {queries[f][0]} changed what the object stores: {changed}', '', '')
                v1 = ask(o3, valid)
                bad = next((i for i in valid if v0[i] != v1[i]), None)
                if bad is not None:
                    out.spec_fail(dict(op=label, symptom='valid_answer_changed_after_failed_query', getter=queries[bad][0].split('(')[0],
                                       failed=queries[f][0].split('(')[0]),
                                  f'{label}: after the failed query {queries[f][0]} the valid query {queries[bad][0]} answers differently', case,
                                  impl=dict(before=str(v0[bad])[:300], after=str(v1[bad])[:300]))
                    return
            out.count('failed_query_interleaved:' + label, len(failing))
    out.nontrivial(('object', label, len(queries)))

def object_cases(ctx, out, rng, n_circuits):
    from CircuitCalculator.Circuit import solution as cs, circuit as cc
    from CircuitCalculator.Network.NodalAnalysis import state_space_model as ssm, bias_point_analysis as bp
    for ci in range(n_circuits):
        if ctx.time_left() < 10: return
        c = gen_circuit(rng)
        ids = [x.id for x in c.components if x.type != 'ground']
        nodes = sorted({n for x in c.components for n in x.nodes})
        ids_q, nodes_q = ids[:4], nodes[:3]
        case = dict(circuit=[f'{x.type}:{x.id}{tuple(x.nodes)}{x.value}' for x in c.components], seed=ctx.seed, case=ci)
        def sol_queries():
            q = [(f'get_potential({n!r})', lambda o, n=n: o.get_potential(n)) for n in nodes_q]
            for j, i in enumerate(ids_q):
                q += [(f'get_voltage({i!r})', lambda o, i=i: o.get_voltage(i)), (f'get_current({i!r})', lambda o, i=i: o.get_current(i)),
                      (f'get_power({i!r})', lambda o, i=i: o.get_power(i))]
                if j == 0:       # unknown identifiers, in the middle of the valid queries
                    q += [("get_power('__unknown__')", lambda o: o.get_power('__unknown__')), ("get_voltage('__unknown__')", lambda o: o.get_voltage('__unknown__')),
                          ("get_current('__unknown__')", lambda o: o.get_current('__unknown__')), ("get_potential('__unknown__')", lambda o: o.get_potential('__unknown__'))]
            return q
        w = rng.choice([0.0, 1.0, 2.0, 10.0]); w_max = rng.choice([0, 5.0, 25.0])
        args = dict(circuit=c)
        repeat_check(ctx, out, 'DCSolution', lambda: cs.DCSolution(c), sol_queries(), args, rng, case)
        repeat_check(ctx, out, 'ComplexSolution', lambda: cs.ComplexSolution(c, w=w, peak_values=bool(ci % 2)), sol_queries(), args, rng, dict(case, w=w))
        repeat_check(ctx, out, 'TimeDomainSolution', lambda: cs.TimeDomainSolution(c, w_max=w_max), sol_queries()[:10], args, rng, dict(case, w_max=w_max))
        for one_sided in (True, False):
            repeat_check(ctx, out, 'FrequencyDomainSolution' + ('' if one_sided else '_two_sided'),
                         lambda: cs.FrequencyDomainSolution(c, w_max=w_max, one_sided=one_sided), sol_queries(), args, rng, dict(case, w_max=w_max))
        # the caller's time vector in every form a caller may hold it: float ndarray starting at t0 ≠ 0 or at 0, int ndarray, list;
        # the SAME tin object and input dictionary serve the first and the "fresh" solution, and are snapshotted before / after
        tin = [np.linspace(0.01, 0.06, 6), np.linspace(0, 0.05, 6), np.arange(1, 7), [0.5, 0.51, 0.52, 0.53], np.linspace(2.0, 2.05, 6)][ci % 5]
        srcs = {x.id: (lambda t, v=float(x.value.get('V', x.value.get('I', 1.0))): v * np.ones(np.size(t))) for x in c.components if 'w' in x.value}
        repeat_check(ctx, out, 'TransientSolution', lambda: cs.TransientSolution(c, tin=tin, input=srcs), sol_queries()[:10] + [('t', lambda o: o.t)],
                     dict(circuit=c, tin=tin, input=srcs), rng, dict(case, tin=type(tin).__name__ + ':' + str([float(x) for x in np.asarray(tin)[:2]])))
        # the nodal state-space model and the network solution of the circuit's DC network
        knet, net = outcome(lambda: cc.transform_circuit(c, 0))
        if knet == 'ok':
            cvals = {x.id: float(x.value['C']) for x in c.components if x.type == 'capacitor'}
            lvals = {x.id: float(x.value['L']) for x in c.components if x.type == 'inductance'}
            bids = [b.id for b in net.branches][:5]
            labels = _labels(net)[:3]
            rows = [(f'c_row_for_potential({n!r})', lambda o, n=n: o.c_row_for_potential(n)) for n in labels] + \
                   [(f'd_row_for_potential({n!r})', lambda o, n=n: o.d_row_for_potential(n)) for n in labels]
            for i in bids:
                rows += [(f'c_row_voltage({i!r})', lambda o, i=i: o.c_row_voltage(i)), (f'c_row_current({i!r})', lambda o, i=i: o.c_row_current(i)),
                         (f'd_row_voltage({i!r})', lambda o, i=i: o.d_row_voltage(i)), (f'd_row_current({i!r})', lambda o, i=i: o.d_row_current(i))]
            rows.insert(3, ("c_row_current('__unknown__')", lambda o: o.c_row_current('__unknown__')))
            rows.insert(5, ("d_row_voltage('__unknown__')", lambda o: o.d_row_voltage('__unknown__')))
            rows.insert(7, ("c_row_for_potential('__unknown__')", lambda o: o.c_row_for_potential('__unknown__')))
            rows.append(('sources', lambda o: o.sources))
            repeat_check(ctx, out, 'NodalStateSpaceModel', lambda: ssm.nodal_state_space_model(net, c_values=cvals, l_values=lvals), rows,
                         dict(network=net, c_values=cvals, l_values=lvals), rng, case)
            nq = [(f'get_potential({n!r})', lambda o, n=n: o.get_potential(n)) for n in labels]
            nq += [("get_power('__unknown__')", lambda o: o.get_power('__unknown__')), ("get_potential('__unknown__')", lambda o: o.get_potential('__unknown__'))]
            for i in bids:
                nq += [(f'get_voltage({i!r})', lambda o, i=i: o.get_voltage(i)), (f'get_current({i!r})', lambda o, i=i: o.get_current(i)),
                       (f'get_power({i!r})', lambda o, i=i: o.get_power(i))]
            repeat_check(ctx, out, 'NodalAnalysisBiasPointSolution', lambda: bp.nodal_analysis_bias_point_solver(net), nq, dict(network=net), rng, case)

DIAGRAM_DESCRIPTION = dict(unit=5, elements=[
    {'type': 'voltage_source', 'V': 10.0, 'name': 'V1', 'direction': 'up'}, {'type': 'node', 'name': 'a'},
    {'type': 'resistor', 'R': 3.0, 'name': 'R1', 'direction': 'right'}, {'type': 'node', 'name': 'b'},
    {'type': 'resistor', 'R': 2.0, 'name': 'R2', 'direction': 'down', 'reverse': True},
    {'type': 'line', 'direction': 'left'}, {'type': 'ground'}])
DIAGRAM_ANNOTATIONS = dict(voltages=[dict(name='R1'), dict(name='R2', reverse=True)],
                           currents=[dict(name='R1', reverse=True, end=True), dict(name='R2'), dict(name='V1', end=True)],
                           powers=[dict(name='R1')], potentials=[dict(name='a'), dict(name='b', loc='N')])

def diagram_cases(ctx, out, rng):
    """SchematicDiagramSolution.draw_* and create_schematic on the SAME description"""
    import contextlib, io
    try:
        import schemdraw
        schemdraw.use('svg')
        from CircuitCalculator.SimpleSimulation.schematic import create_schematic
        from CircuitCalculator.SimpleCircuit import DiagramSolution as ds, Elements as elm
        from props import c14
    except Exception as e:          # noqa: BLE001
        out.notes.append(f'diagram repeatability skipped: {type(e).__name__}'); return
    def texts_of(sch):
        return [(type(l).__name__, c14.label_text(l), l._userparams.get('reverse')) for l in sch.elements
                if isinstance(l, (elm.VoltageLabel, elm.CurrentLabel, elm.PowerLabel, elm.LabelNode)) and getattr(l, '_userlabels', None)]
    def quiet(f):
        def g(*a, **k):
            with contextlib.redirect_stdout(io.StringIO()):
                return f(*a, **k)
        return g
    for sol_type, params in (('real', {}), ('complex', dict(precision=3)), ('complex', dict(polar=True, deg=True)),
                             ('single_frequency_time_domain', dict(w=0.0))):
        desc = copy.deepcopy(DIAGRAM_DESCRIPTION)
        desc['solution'] = dict(copy.deepcopy(DIAGRAM_ANNOTATIONS), type=sol_type, **params)
        case = dict(description=desc, solution_type=sol_type)
        # create_schematic used as an "object": the same description again and again, and a fresh copy of it
        pristine = copy.deepcopy(desc)
        repeat_check(ctx, out, f'create_schematic[{sol_type}]', lambda: desc,
                     [('create_schematic(description)', lambda d: texts_of(quiet(create_schematic)(d)))], dict(description=desc), rng, case)
        kf, fresh = outcome(lambda: texts_of(quiet(create_schematic)(copy.deepcopy(pristine))))
        ks, same = outcome(lambda: texts_of(quiet(create_schematic)(desc)))
        if (kf, snap(fresh)) != (ks, snap(same)):
            out.spec_fail(dict(op=f'create_schematic[{sol_type}]', symptom='fresh_object_differs', getter='create_schematic'),
                          'a description that was used before gives a different schematic than a fresh copy of it', case,
                          impl=dict(used=str(same)[:300], fresh=str(fresh)[:300]))
        # the solution object of a drawn schematic
        bare = {k: v for k, v in pristine.items() if k != 'solution'}
        ksch, sch = outcome(lambda: quiet(create_schematic)(copy.deepcopy(bare)))
        if ksch == 'err':
            continue
        maker = {'real': lambda: ds.real_solution(sch), 'complex': lambda: ds.complex_solution(sch, **params),
                 'single_frequency_time_domain': lambda: ds.single_frequency_time_domain_steady_state_solution(sch, **params)}[sol_type]
        lab = lambda l: (type(l).__name__, c14.label_text(l), l._userparams.get('reverse'))
        q = []
        for a in DIAGRAM_ANNOTATIONS['voltages']: q.append((f'draw_voltage({a})', lambda o, a=a: lab(o.draw_voltage(**a))))
        for a in DIAGRAM_ANNOTATIONS['currents']: q.append((f'draw_current({a})', lambda o, a=a: lab(o.draw_current(**a))))
        q.insert(1, ("draw_voltage('__unknown__')", lambda o: lab(o.draw_voltage(name='__unknown__'))))
        q.append(("draw_current('__unknown__')", lambda o: lab(o.draw_current(name='__unknown__', reverse=True))))
        for a in DIAGRAM_ANNOTATIONS['powers']: q.append((f'draw_power({a})', lambda o, a=a: lab(o.draw_power(**a))))
        for a in DIAGRAM_ANNOTATIONS['potentials']: q.append((f'draw_potential({a})', lambda o, a=a: lab(o.draw_potential(**a))))
        ann = copy.deepcopy(DIAGRAM_ANNOTATIONS)
        class _NoState:        # the solution object holds the whole drawing: its state snapshot is the labels it produces
            pass
        repeat_check(ctx, out, f'SchematicDiagramSolution[{sol_type}]', quiet(maker), q, dict(annotations=DIAGRAM_ANNOTATIONS), rng, case)
        if snap(ann) != snap(DIAGRAM_ANNOTATIONS):
            out.spec_fail(dict(op=f'SchematicDiagramSolution[{sol_type}]', symptom='argument_mutated', param='annotations', kind='dict'),
                          'draw_* changed the caller\'s annotation dictionaries', case)
    try:
        import matplotlib.pyplot as plt
        plt.close('all')
    except Exception:
        pass

def run_object_repeatability(ctx, out):
    rng = ctx.rng('objects')
    object_cases(ctx, out, rng, 10 if ctx.quick else 150)
    diagram_cases(ctx, out, rng)

# --------------------------------------------------------------------------- file histories (save / load of shared paths)

def file_history(ctx, out, rng, n_ops, tmpdir, hno):
    """a history over three shared file paths: documents are written, loaded (str or pathlib.Path), results edited, paths
    rewritten; every load is compared with the isolated string-level evaluation deserialize(serialize(document)) of what the
    path holds at that moment"""
    from pathlib import Path
    from CircuitCalculator import dump_load as DL
    slots = [dict(path=os.path.join(tmpdir, f'h{hno}_{i}.{fmt}'), fmt=fmt, doc=None) for i, fmt in enumerate(['json', 'yaml', 'json'])]
    results = []
    trace = []
    for step in range(n_ops):
        sl = rng.choice(slots)
        act = rng.choice(['dump', 'load', 'load', 'load_path', 'edit']) if sl['doc'] is not None else 'dump'
        out.evaluations += 1
        out.count('file_op:' + act)
        trace.append((act, os.path.basename(sl['path'])))
        if act == 'dump':
            t = c17.gen_tree(rng, cx=rng.random() < 0.5, cxlike=False, scalars_in_lists=rng.random() < 0.5)
            t['serial'] = step
            before = snap(t)
            r = outcome(lambda: DL.dump(sl['path'] if rng.random() < 0.7 else Path(sl['path']), t))
            if snap(t) != before:
                out.spec_fail(dict(op='dump', symptom='argument_mutated', param='data', kind='tree'), 'dump changed the document it was given',
                              dict(history=f'file{hno}', step=step, trace=trace[-6:]))
            if r[0] == 'ok':
                sl['doc'] = copy.deepcopy(t)
        elif act in ('load', 'load_path'):
            path = sl['path'] if act == 'load' else Path(sl['path'])
            got = outcome(lambda: DL.load(path))
            iso = outcome(lambda: DL.deserialize(DL.serialize(copy.deepcopy(sl['doc']), sl['fmt']), sl['fmt']))
            out.traces_validated += 1
            if snap(got) != snap(iso):
                out.spec_fail(dict(op='load', symptom='history_dependent', tainted_by='earlier use of the same path', taint_class='file'),
                              'load(file) inside a history differs from the isolated reading of what the file holds',
                              dict(history=f'file{hno}', step=step, trace=trace[-8:], document=sl['doc']),
                              impl=dict(in_history=str(got)[:300], isolated=str(iso)[:300]))
                return
            if got[0] == 'ok':
                if any(got[1] is r for r in results) and isinstance(got[1], (dict, list)):
                    out.spec_fail(dict(op='load', symptom='same_object', taint_class='file'), 'two loads returned the very same mutable object',
                                  dict(history=f'file{hno}', step=step, trace=trace[-8:]))
                    return
                results.append(got[1])
            out.nontrivial(('file_history', act, sl['fmt']))
        elif act == 'edit' and results:
            c17.scramble(rng.choice(results))

def run_file_histories(ctx, out, n_hist, n_ops):
    import shutil, tempfile
    tmpdir = tempfile.mkdtemp(prefix='c20_files_')
    try:
        for hno in range(n_hist):
            if ctx.time_left() < 8: break
            file_history(ctx, out, ctx.rng('file_history', hno), n_ops, tmpdir, hno)
        c17.run_file_streams(ctx, out, 1 if ctx.quick else 6, prop='C20')
    finally:
        shutil.rmtree(tmpdir, ignore_errors=True)

# --------------------------------------------------------------------------- run

def load_effects(ctx, out):
    """the summary as compiled into the driver (else regenerated in Python)"""
    if ctx.driver is not None:
        r = ctx.driver.call('c20_effects')
        eff = {f: ws for f, ws in r['effects']}
        return eff, {f: ps for f, ps in r['mutable_defaults']}, r['in_scope'], r['exceptions'], r
    import extract_load
    scope_rows, support_rows, defaults, unknown, assumed, globs = extract_load.effects_table(core.SRC)
    return dict(scope_rows + support_rows), {q: ps for _, q, ps in defaults}, [q for q, _ in scope_rows], [], {}

def run(ctx, out):
    out.rule = ('random histories over a pool of shared objects (3–6 networks, 2 circuits, 2 exemption lists, 2×2 value dictionaries, 3 network '
                'descriptions, 2 complex notations, 2 documents, 2 circuit descriptions, shared frequency lists / id lists); operations drawn from '
                'the public operations of C01–C12, C16, C17 (weights favour loaders, transformers with keep lists, state-space builders); 15 % '
                'immediate repeats; results of transformers join the pool; non-trivial = a step whose in-history result equals the isolated one, '
                'distinct by (operation, ok/exception, kinds of shared arguments)')
    effects, mdefaults, in_scope, exceptions, raw = load_effects(ctx, out)
    ops = build_ops()
    defaults, tables = collect_defaults()
    # the summary's mutable defaults must be the live ones
    live = sorted({(f, p) for f, p, _ in defaults})
    summ = sorted({(f, p) for f, ps in mdefaults.items() for p in ps})
    out.extra['mutable_defaults_live'] = [f'{f}:{p}' for f, p in live]
    missing = [x for x in live if x not in summ and any(x[0].startswith(m) for m in
               ('Network.transformers', 'Network.NodalAnalysis', 'Network.loaders', 'dump_load', 'Circuit.'))]
    if missing:
        out.disagree('mutable_defaults', 'live function objects', missing, summ, note='a live mutable default is not in the generated table')
    # every qualified name the harness looks up must exist in the summary
    for name, (quals, _, _, _) in ops.items():
        for q in quals:
            if q not in effects:
                out.disagree('effects_lookup', name, 'function exists in the code', f'{q} missing from the summary')
    out.extra['summary'] = dict(functions=len(effects), in_scope=len(in_scope), exceptions=exceptions,
                                unknown_calls=raw.get('unknown_calls'), assumed_callables=len(raw.get('assumed_callables', [])))
    n_hist, n_ops = (150, 25) if ctx.quick else (2000, 100)
    run_corpus(ctx, out, ops, effects, defaults, tables)
    done = 0
    for hno in range(n_hist):
        if ctx.time_left() < 12:
            out.notes.append(f'stopped after {hno} histories (budget)')
            break
        rng = ctx.rng('history', hno)
        if not run_history(ctx, out, ops, effects, defaults, tables, rng, n_ops, hno):
            break
        done += 1
    out.extra['histories'] = done
    out.extra['ops_per_history'] = n_ops
    if ctx.driver is not None:
        for hno in range(40 if ctx.quick else 400):
            if ctx.time_left() < 5: break
            loader_history(ctx, out, ctx.rng('loader_history', hno), 12 if ctx.quick else 30)
    run_file_histories(ctx, out, 30 if ctx.quick else 300, 14 if ctx.quick else 40)
    run_object_repeatability(ctx, out)
    out.sample(dict(pool='net0..2, circ0..1, keep0..1, cval/lval, desc0..2, z0..1, tree0..1, cdesc0..1, wlist, warr, idsA/B',
                    operations=sorted(ops)))

def replay(ctx, out, rp):
    """re-run the recorded history (same seed derivation) up to and including the failing step"""
    inp = rp.get('input', {})
    hno = inp.get('history')
    if hno is None and not ('circuit' in inp or 'description' in inp):
        raise SystemExit('replay file carries no history number')
    effects, mdefaults, in_scope, exceptions, raw = load_effects(ctx, out)
    ops = build_ops()
    defaults, tables = collect_defaults()
    n_ops = (25 if rp.get('tier', 'quick') == 'quick' else 100)
    if 'circuit' in inp or 'description' in inp:
        run_object_repeatability(ctx, out)
        return
    if isinstance(hno, str) and hno.startswith('file'):
        run_file_histories(ctx, out, 30, 14)
    elif hno == 'corpus':
        run_corpus(ctx, out, ops, effects, defaults, tables)
    else:
        run_history(ctx, out, ops, effects, defaults, tables, ctx.rng('history', hno), n_ops, hno)
    known = [f for f in core.load_known_findings() if f['property'] == ID and f.get('status') == 'open']
    out.spec_failures = [sf for sf in out.spec_failures if not any(core.matches(f['matcher'], sf['canon']) for f in known)
                         or core.matches(rp.get('canon', {}), sf['canon'])]
