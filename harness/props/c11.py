"""
C11 — derived dynamics are passive and stable.

Oracle on the implementation (decides the property): `P = W·A + Aᵀ·W`, `W = diag(C…, L…)` in
the order of the value dictionaries, evaluated exactly (op `ss_lyap`) on the implementation's
own `A` (exact rationals of its floats); negative semidefiniteness decided exactly up to the
tolerance 1e-9·max|P| (all pivots of `tol·1 − P` positive, elimination over `Rat`).  Support:
eigenvalue real parts (numpy); stored energy ½ΣC v² + ½ΣL i² of the simulated response after a
finite pulse is non-increasing and bounded (`scipy.signal.lsim` trusted).

Also decided exactly: the state matrix is non-singular (a circuit of the domain has no natural
frequency at s = 0).  Unit-scale stream: SI values (R mΩ…GΩ, C pF…F, L nH…H); there the Lyapunov test
runs in energy-normalised states (D = W^-½, every entry of D·P·D is a rate) with a tolerance relative
to the rates that enter P.  Revisit stream: same ids, only L / C values changed, same process.

The model is the one of C10 (CC/Model/StateSpace.lean); its correspondence runs under C10 and
is repeated here on every case for `A` only.
"""
from __future__ import annotations
import numpy as np
import core, gen_net, gen_state as gs
from props import c10

ID = 'C11'
LEAN_MODULE = 'CC.Properties.C11'
LEVEL = 'proof'
THEOREMS = [
    'CC.C11_symm_S',
    'CC.C11_Atilde_symm',
    'CC.C11_lyapunov_form',
    'CC.C11_signed_form',
    'CC.C11_lyapunov',
    'CC.C11_energy_rate',
    'CC.C11_eig',
    'CC.C11_structure',
    'CC.C11_model_lyapunov',
    'CC.C11_model_eig',
    # flow clause (CC.Properties.C11Flow, over ℝ with Mathlib analysis)
    'CC.C11_flow_energy_deriv',
    'CC.C11_flow_antitone',
    'CC.C11_flow_antitone_global',
    'CC.C11_flow_bounded',
    'CC.C11_flow_forced',
    'CC.C11_flow_after_sources',
    'CC.C11_flow_output_bounded',
    'CC.C11_flow_exp',
    'CC.C11_flow_of_model_lyapunov',
    'CC.C11_model_flow',
    'CC.C11_model_flow_nodal',
    'CC.C11_model_bounded',
    'CC.C11_model_output_bounded',
    'CC.C11_model_flow_exp',
    # round 5c: the bound composed with the accessor rows of C10 (CC.Properties.C11Accessors)
    'CC.C11_row_sq_le',
    'CC.C11_model_state_norm_bounded',
    'CC.C11_reported_bounded_after_sources',
    'CC.C11_reported_rest',
]
LEAN_MODULE_EXTRA = ['CC.Properties.C11Flow', 'CC.Properties.C11Accessors']
# TIE10B: the circuit-level wrapper whose dictionaries feed Lambda (seeded change C11-5B edits exactly these lines)
THEOREMS += ['CC.C10_gen_wrapper_values', 'CC.C10_gen_wrapper_model']
LEAN_MODULE_EXTRA += ['CC.Properties.C10Wrap']
OPEN_STATEMENTS = ['not formalised: that the SIMULATED samples follow the flow — the flow clause is proved for exact solutions of ẋ = A x + B u(t) with the model\'s A, B over ℝ (C11_model_flow, C11_model_bounded, C11_model_flow_exp: stored energy antitone and states / outputs bounded on every interval on which all sources are zero); scipy.signal.lsim (zero-order/first-order hold discretisation, numerical exp(A·Δt), the sampling grid and the interpolation of the input between samples in TransientSolution) and binary64 rounding are not modelled, so the sampled-energy clause on the implementation stays oracle only',
                   'composed in round 5c (CC.Properties.C11Accessors): C11_reported_bounded_after_sources — for every node label / branch the c_row_* / d_row_* accessor rows exist, row_c·x(t) + row_d·u(t) is the reported potential / voltage / current (C10_rows_*), and for all t >= t1 (u = 0 on [t1, inf)) its square is <= (sum_j row_c[j]^2)·(2/lam)·E(t1), 0 < lam <= every C, L; C11_reported_rest — energy 0 at t1 (positive C, L) => every reported quantity is exactly 0 for t >= t1. Still outside: the constant is the plain Cauchy–Schwarz one (not the tighter weighted sum_j row_c[j]^2/w_j); the bound is for exact solutions of the ODE over ℝ (lsim, sampling and binary64 not modelled, see the first entry); powers (products of two reported quantities) are not stated separately']
ASSUMPTIONS = [
    'C11_model_lyapunov / C11_model_eig are proved for the executable model (every RLC network without negative conductances, any certificates); the exact definiteness oracle checks the same inequality on the implementation\'s A on every run',
    'scipy.signal.lsim reproduces exp(A·Δt) (sampled-energy clause only); the flow theorems (C11_flow_*, C11_model_flow*) speak about exact solutions of the differential equation over ℝ, not about lsim',
    'C11_model_flow / C11_model_bounded / C11_model_flow_exp instantiate the model at K := ℝ (the model is generic over the field; the driver and the correspondence run it over exact rationals)',
    'binary64 rounding of A enters the exact evaluation of W·A + Aᵀ·W; a tolerance of 1e-9·max|P| absorbs it on the well-conditioned instances generated',
]

EXTRA_CANON = {}      # set by the value-variation stream: same ids, different values, same process

def canon(desc, symptom, **kw):
    return dict(op='passivity', symptom=symptom, **gs.facts(desc), **({'si_units': True} if 'si' in desc else {}),
                **({'custom_index_maps': True} if desc.get('maps') else {}), **EXTRA_CANON, **kw)

def pulse_inputs(desc, sources, tin, k_on, k_off):
    """piecewise-linear pulses with breakpoints on the grid: 0, one-sample ramp up, hold,
    one-sample ramp down, 0"""
    inp = {}
    for s in sources:
        amp = next((c['val'] for c in desc['comps'] if c['id'] == s), 1.0) or 1.0
        prof = np.zeros(len(tin))
        prof[k_on + 1:k_off + 1] = amp
        inp[s] = (lambda prof: (lambda t: np.interp(t, tin, prof)))(prof)     # a genuine function of time on the requested axis
    return inp

def time_grid(A, n=240):
    lam = np.linalg.eigvals(A) if A.size else np.array([1.0])
    big = max(abs(lam)) if len(lam) else 1.0
    h = 2.0 ** np.floor(np.log2(0.5 / max(big, 1e-9)))
    return np.arange(n) * h

def check_case(ctx, out, desc, origin='random'):
    from CircuitCalculator.Circuit.solution import TransientSolution
    drv = ctx.driver
    out.evaluations += 1
    f = gs.facts(desc)
    out.count(f'reactive:{f["n_reactive"]}')
    out.count('names:' + ('interleaved' if f['names_interleave'] else 'blockwise'))
    ok, why = gs.nondegenerate(drv, desc)
    if not ok:
        out.count('degenerate:' + why); return
    out.nontrivial(gs.shape(desc))
    inp = gs.pretty(desc)
    try:
        im = gs.impl_model(desc)
    except Exception as e:
        out.spec_fail(canon(desc, 'raises', exc=gs.gen_tag(e)), f'non-degenerate circuit: state-space model raises {type(e).__name__}',
                      inp, impl=dict(exception=repr(e)), desc=desc); return
    A = np.asarray(im.ssm.A, dtype=float)
    W = np.array(list(im.cvals.values()) + list(im.lvals.values()))
    if not np.all(np.isfinite(A)) or A.shape != (len(W), len(W)):
        out.spec_fail(canon(desc, 'non_finite'), f'state matrix not finite / of shape {A.shape}', inp, desc=desc); return
    si_mode = 'si' in desc
    if not max([c10.cond_of(p) for p in im.inverses] + [1.0]) <= (c10.SI_COND_GUARD if si_mode else 1e6):
        out.skip('si_ill_conditioned' if si_mode else 'ill_conditioned'); return
    if si_mode: out.count('si_cases')
    # a circuit of the domain has no natural frequency at s = 0 (its DC network is well-posed, decided exactly
    # above): the state matrix must be non-singular — decided exactly on the implementation's A
    if A.size:
        if drv is not None:
            r0 = drv.call('ss_transfer', A=gs.qmat(A), B=[[] for _ in range(A.shape[0])], s=[core.q(0), core.q(0)], nu=0, rows=[])
            singular = 'singular' in r0
        else:
            singular = bool(np.any(np.all(A == 0, axis=1))) or np.linalg.matrix_rank(A) < A.shape[0]
        if singular:
            out.spec_fail(canon(desc, 'natural_frequency_at_zero'), 'the state matrix is singular: a natural frequency at s = 0 '
                          '(a state that never decays) although the DC network of the circuit is well-posed', inp,
                          impl=dict(A=A.tolist()), desc=desc); return
    # correspondence on A (the full correspondence runs under C10)
    if drv is not None:
        m = drv.call('ss_model', net=gen_net.impl_to_json(im.network), cvals=gs.dict_items(im.cvals),
                     lvals=gs.dict_items(im.lvals), pots=[], ids=[], spots=[], sids=[])
        if 'A' in m:
            out.traces_validated += 1
            if not gs.mat_agree(A, m['A']):
                out.disagree('ss_model.A', inp, A.tolist(), gs.model_mat(m['A']))
    # exact Lyapunov inequality
    P = np.diag(W) @ A + A.T @ np.diag(W)
    As, Ws = A, W
    if si_mode and P.size:
        # SI units: P mixes conductance-like (capacitor states) and resistance-like (inductor states) entries;
        # in energy-normalised states x' = W^½ x every entry of P' = D·P·D, D = W^-½, is a rate (1/s) and the
        # definiteness is unchanged: D P D = W'A' + A'ᵀW' with A' = D⁻¹ A D, W' = D² W = 1
        dd = 1.0 / np.sqrt(W)
        As = (A * dd.reshape(1, -1)) / dd.reshape(-1, 1)
        Ws = W * dd * dd
        P = np.diag(Ws) @ As + As.T @ np.diag(Ws)
    tol = 1e-9 * max(1.0, float(np.max(np.abs(P))) if P.size else 1.0)
    if si_mode and P.size:
        # relative to the rates that enter P before they cancel (a lossless LC pair gives P = 0 exactly)
        tol = 1e-9 * float(np.max(np.abs(Ws.reshape(-1, 1) * As)))
    if drv is not None:
        r = drv.call('ss_lyap', A=gs.qmat(As) if As.size else [], W=gs.qvec(Ws), tol=core.q(tol))
        nsd, sym = r['nsd'], r['sym']
    else:
        nsd = bool(np.all(np.linalg.eigvalsh((P + P.T) / 2) <= tol)); sym = True
    if not (nsd and sym):
        ev = np.linalg.eigvalsh((P + P.T) / 2)
        out.spec_fail(canon(desc, 'not_passive'), f'W·A + Aᵀ·W is not negative semidefinite: largest eigenvalue {ev[-1]:.6g} '
                      f'(tolerance {tol:.3g})', inp, impl=dict(A=A.tolist(), W=W.tolist()), spec=dict(P=P.tolist()), desc=desc)
        return
    lam = np.linalg.eigvals(A) if A.size else np.array([])
    if len(lam) and max(lam.real) > 1e-9 * max(abs(lam)):
        out.spec_fail(canon(desc, 'unstable_eigenvalue'), f'natural frequency with positive real part: {max(lam.real)}', inp,
                      impl=dict(A=A.tolist(), eig=[complex(x) for x in lam]), desc=desc); return
    out.count('lyapunov_checked')
    # simulated energy after a finite pulse (search only)
    sources = list(im.ssm.sources)
    # the requested window starts at t0 = m·h (exact in binary64): the supplied waveforms return to zero at sample k_off
    # of the REQUESTED axis, and from there on the stored energy must not rise
    tin0 = time_grid(A)
    h_ = float(tin0[1] - tin0[0])
    t0 = h_ * ctx.rng('window', str(inp)).choice([0, 0, 5, 17, 37, 64, 1000])
    tin = t0 + tin0
    out.count('window:' + ('t0=0' if t0 == 0 else 't0>0'))
    k_on, k_off = 3, len(tin) // 4
    try:
        sol = TransientSolution(im.circuit, tin=tin, input=pulse_inputs(desc, sources, tin, k_on, k_off))
        E = np.zeros(len(tin))
        for c in desc['comps']:
            if c['kind'] == 'C': E += 0.5 * c['val'] * sol.get_voltage(c['id'])[1] ** 2
            if c['kind'] == 'L': E += 0.5 * c['val'] * sol.get_current(c['id'])[1] ** 2
    except Exception as e:
        out.spec_fail(canon(desc, 'raises', exc=gs.gen_tag(e)), f'transient simulation raises {type(e).__name__}: {e}', inp, desc=desc); return
    tail = E[k_off + 2:]
    if not np.all(np.isfinite(E)) or (len(tail) > 1 and np.max(np.diff(tail)) > 1e-9 * max(1e-30, np.max(E))):
        k = int(np.argmax(np.diff(tail))) if len(tail) > 1 else 0
        out.spec_fail(canon(desc, 'energy_increases'), f'stored energy grows after the input has returned to zero: '
                      f'E[{k_off + 2 + k}]={tail[k]:.9g} → {tail[k + 1]:.9g} (window starts at t0 = {t0}; the supplied waveforms are zero from '
                      f't = {tin[k_off + 1]} on)', inp, impl=dict(A=A.tolist()), desc=desc); return
    out.count('energy_checked')
    out.sample(inp)

# a real voltage source (internal resistance, w = 0) declared with reversed polarity (phase π) and in quadrature
SOURCE_CORPUS = [
    dict(ground='0', ground_pos=5, comps=[
        dict(kind='V', id='Vs', n1='1', n2='0', val=1.0, src=dict(type='ac', w=0.0, phi=phi, Ri=4.0)),
        dict(kind='R', id='R1', n1='1', n2='2', val=1.0), dict(kind='C', id='C1', n1='2', n2='0', val=0.5),
        dict(kind='L', id='L1', n1='2', n2='3', val=0.25), dict(kind='R', id='R2', n1='3', n2='0', val=0.125)])
    for phi in (3.141592653589793, 2.0943951023931953, -1.5707963267948966)
] + [
    dict(ground='0', ground_pos=0, comps=[
        dict(kind='I', id='Is', n1='0', n2='1', val=2.0, src=dict(type='ac', w=0.0, phi=3.141592653589793, Gi=0.5)),
        dict(kind='C', id='C1', n1='1', n2='0', val=0.5), dict(kind='R', id='R1', n1='1', n2='2', val=2.0),
        dict(kind='L', id='L1', n1='2', n2='0', val=1.0)]),
]

def run(ctx, out):
    out.rule = ('RLC + ideal-source circuits with strictly positive dyadic R, C, L (generator of C10); non-trivial when the circuit is '
                'non-degenerate (decided exactly); distinct by (node count, kind multiset, names-interleave, inductor-order)')
    for desc in c10.CORPUS:
        if not gs.facts(desc)['zero_valued_current_source']:
            check_case(ctx, out, desc, 'corpus')
    for desc in c10.SI_CORPUS:
        check_case(ctx, out, desc, 'si_corpus')
    for desc in SOURCE_CORPUS:
        check_case(ctx, out, desc, 'source_corpus')
    for desc in c10.MAP_CORPUS:
        check_case(ctx, out, desc, 'map_corpus')
    rng = ctx.rng('random')
    n_random = 150 if ctx.quick else 2500
    reserve = 8 if ctx.quick else 60
    for k in range(n_random):
        if ctx.time_left() < reserve: out.notes.append(f'stopped after {k} random cases (budget)'); break
        safe = rng.random() < 0.4
        for _ in range(40):
            desc = gs.random_desc(rng, safe=safe)
            ok, why = gs.nondegenerate(ctx.driver, desc)
            if ok: break
            out.count('rejected_degenerate:' + why)
        check_case(ctx, out, desc)
        # index-map stream (non-default, order-consistent maps for the three public mapper keywords) and corners of the
        # domain (no source, 3–4 sources, no resistor — lossless LC —, up to nine nodes, V = 0)
        if rng.random() < (0.3 if ctx.quick else 1.0):
            check_case(ctx, out, gs.with_maps(rng, desc), 'index_maps'); out.count('index_map_cases')
        if rng.random() < (0.35 if ctx.quick else 1.0):
            di = gs.with_int_values(rng, desc)
            if gs.nondegenerate(ctx.driver, di)[0]:
                check_case(ctx, out, di, 'int_values'); out.count('int_value_cases')
        if rng.random() < (0.25 if ctx.quick else 1.0):
            for _ in range(40):
                dw = gs.wide_desc(rng)
                if gs.nondegenerate(ctx.driver, dw)[0]: break
            check_case(ctx, out, dw, 'corner'); out.count('corner:' + dw['corner'])
        # source-kind stream: every source kind the state-space builder accepts — ac voltage sources (w = 0 and
        # w ≠ 0), periodic voltage sources, ac current sources, with internal resistance / conductance and nominal
        # phases in all quadrants: the unforced dynamics cannot depend on what a source is driven with
        if rng.random() < (0.5 if ctx.quick else 1.0):
            check_case(ctx, out, gs.with_source_kinds(rng, desc, lossy=True), 'source_kinds')
            out.count('source_kind_cases')
        # unit-scale stream: the same circuit in realistic SI units
        if rng.random() < (0.3 if ctx.quick else 1.0):
            gs.run_sequence(out, EXTRA_CANON, [desc, gs.si_desc(rng, desc, exact=True), gs.si_desc(rng, desc, exact=False)],
                            lambda d: check_case(ctx, out, d, 'si'))
        # revisit stream: same circuit and ids, ONLY the L / C values differ, same process, both orders
        if rng.random() < (0.3 if ctx.quick else 1.0):
            d2 = gs.vary_values(rng, desc, kinds=('C', 'L'))
            first, second = (desc, d2) if rng.random() < 0.5 else (d2, desc)
            gs.run_sequence(out, EXTRA_CANON, [first, second, first], lambda d: check_case(ctx, out, d, 'revisit'))
            out.count('revisit_sequences')
        # value-variation stream: the same description (ids, nodes, order) with other R, L, C values in
        # the same process, then the first one again — state leaking between analyses would show here
        if rng.random() < (0.3 if ctx.quick else 1.0):
            gs.run_sequence(out, EXTRA_CANON, [desc, gs.vary_values(rng, desc), desc], lambda d: check_case(ctx, out, d, 'varied'))
            out.count('value_variation_sequences')
        if gs.facts(desc)['n_reactive'] > 1 and rng.random() < (0.4 if ctx.quick else 1.0):
            check_case(ctx, out, gs.permute_reactive(rng, desc, keep_inductors_sorted=safe), 'permuted')

def replay(ctx, out, rp):
    if rp.get('sequence'):
        gs.run_sequence(out, EXTRA_CANON, rp['sequence'], lambda d: check_case(ctx, out, d, 'replay'))
        return
    desc = rp.get('desc')
    if desc is None:
        raise SystemExit('replay file carries no circuit description')
    check_case(ctx, out, desc, 'replay')
