"""
C13 — schematic drawings are read as the netlist they depict.

Correspondence (model CC/Model/Draw.lean ↔ SimpleCircuit/DiagramParser.py, DiagramTranslator.py,
CircuitComponentTranslators.py, Circuit/circuit.py): real `Schematic` objects are built by
executing generated drawing programs with schemdraw; every element is read the way the parser
does (class, name, reversal flag, attribute values, raw start/end anchors) and sent to the
model together with the observed set iteration orders; compared: `all_nodes`, every
`_get_equal_electrical_potential_nodes`, `unique_nodes`, `unique_node_mapping`,
`node_label_mapping`, `ground_label`, and the translated `Circuit`.

Oracle on the implementation: the intended netlist is known by construction of the drawing
program (union–find over grid points, gen_draw.intended); metamorphic runs: 4 rotations,
translations, units, wire subdivision, shuffled insertion order must give the same netlist
up to node renaming and the same DC / complex solution.  History stream: a drawing is translated,
further symbols (a wire merging two nodes, a label, a ground, a component) are added to the SAME
Schematic object and it is translated again, 2–3 times; every translation must be the intended
netlist of the drawing as it stands and agree with a fresh drawing built in one go.
"""
from __future__ import annotations
import math, copy
import core, gen_draw as gd

ID = 'C13'
LEAN_MODULE = 'CC.Properties.C13'
LEVEL = 'proof'
THEOREMS = [
    'CC.C13_closure', 'CC.C13_closure_terminates', 'CC.C13_unique_rep', 'CC.C13_same_label_iff', 'CC.C13_named',
    'CC.C13_polarity', 'CC.C13_netlist', 'CC.C13_realising_unique',
    'CC.C13_geometry', 'CC.C13_wire_split', 'CC.C13_order', 'CC.C13_tables',
]
OPEN_STATEMENTS = [
    'transformed drawing ⇒ same circuit up to a renaming of nodes ⇒ same solution: NOW THEOREMS about the model\'s '
    'circuit_translator (CC/Properties/C13Invariance.lean: C13_moved, C13_split, C13_perm and *_same_solution, for any two set '
    'iteration orders). What they still ASSUME, as explicit hypotheses: (a) MappedBy / RoundCommutes — the rounded terminals of '
    'the transformed drawing are the images, under a map g injective on the terminals (InjOnTerms), of the rounded terminals of '
    'the original, i.e. round_node commutes with the float rotation / translation / rescaling that schemdraw applies: a fact '
    'about float geometry, not proved (C13_rigid_maps_injective only proves that translations, quarter turns and non-zero '
    'rescalings of exact rational points are injective) — judged per case by the metamorphic oracle streams; (b) C13_DrawingWF '
    '(no node name on two different electrical nodes); (c) the split point is no terminal of any symbol. Limits of what is proved: '
    'C13_perm gives the component list up to a permutation and the reference node only when a ground component exists (without '
    'one it depends on the order: counterexample example in the file), and when the original translation raises, the permuted one '
    'raises possibly another error; "same solution" is stated for every node-blind reading `elem` of components as branch records '
    '(the library\'s own reading, the transformer table of group Circuit, is not instantiated) and for circuits with at least one '
    'component; that the renaming fixes the names given by node symbols is not proved (C13_named gives it per symbol)',
    'per-kind translation against the independent Spec of the symbols (CC/Spec/DrawSymbols.lean): NOW THEOREMS '
    '(CC/Properties/C13Symbols.lean: C13_symbols, C13_symbols_translate, C13_symbols_cover — every named class of the generated '
    'table, all admissible user parameter values, both reversal flags: construct ∘ translate = the Spec component). Still open / '
    'not covered: (a) THREE DISAGREEMENTS between the generated table and the Spec, proved as theorems about the model and '
    'excluded from C13_symbols by C13_Judged — Admittance has no translator (C13_sym_admittance_untranslated, known observation); '
    'RealVoltageSource / RealCurrentSource with reverse=True swap the terminals AND negate the amplitude, i.e. are electrically '
    'not reversed (C13_sym_real_reversed, _ne; outside the quantifier text of C13, noted before); Rect/Triangle/Sawtooth '
    'Voltage/CurrentSource accept sin=True and ignore it, no −π/2 (C13_sym_periodic_sin_ignored, _ne; NEW, confirmed on the real '
    'code; the oracle never generates sin for these kinds); (b) the float evaluation of phi*pi/180 (model exact over ℚ, π a '
    'rational parameter; compared with 1e-12 by the correspondence); (c) values outside SymSpec.Admissible (constructors raise: '
    'correspondence only); (d) `name` passed positionally (open finding, oracle); (e) that the model interpreters + generated '
    'tables ARE the Python translators / constructors: by generation + correspondence, as before',
    'reference node: NOW THEOREMS (CC/Properties/C13Ground.lean: C13_ground, C13_ground_name, C13_two_grounds, C13_no_ground, '
    'C13_no_ground_differ). Still assumed: C13_DrawingWF; C13_ground speaks about Circuit.ground_node only IF circuit_translator '
    'returns (success of the other symbols is not claimed); with two ground symbols the precise error of circuit_translator is '
    'MultipleGroundNodes only when every symbol translates (else the first failing symbol raises first); without a ground '
    'symbol Circuit.ground_node (first terminal of the first component) and parser.ground_label (first unique node in set order) '
    'are different things and can disagree (C13_no_ground_differ) — outside the quantifier ("one ground"), observation',
]
# the parser model *is* DiagramParser.py: every method, translated statement by statement
# (harness/extract_drawparser.py → CC/Gen/DrawParser.lean), equals the hand-written model function
LEAN_MODULE_EXTRA = ['CC.Properties.C13Gen', 'CC.Properties.C13Invariance', 'CC.Properties.C13Ground', 'CC.Properties.C13Symbols']
# round 5b: reference node (C13Ground) and per-kind translation against the independent Spec CC/Spec/DrawSymbols.lean (C13Symbols)
THEOREMS += [
    'CC.C13_isGround_iff', 'CC.C13_ground', 'CC.C13_ground_name', 'CC.C13_two_grounds', 'CC.C13_no_ground', 'CC.C13_no_ground_differ',
    'CC.C13_symbols', 'CC.C13_symbols_translate', 'CC.C13_symbols_cover', 'CC.C13_closedSwitchOhms', 'CC.C13_sym_ground_default',
    'CC.C13_sym_admittance_untranslated', 'CC.C13_sym_real_reversed', 'CC.C13_sym_real_reversed_ne',
    'CC.C13_sym_periodic_sin_ignored', 'CC.C13_sym_periodic_sin_ne',
]
# round 5: the metamorphic statements lifted from `Joined` to the translated circuit and composed with C03
THEOREMS += [
    'CC.C13_moved', 'CC.C13_rigid_maps_injective', 'CC.C13_moved_raw', 'CC.C13_split', 'CC.C13_perm', 'CC.C13_perm_ok_iff',
    'CC.C13_circuitEqs_rename_on', 'CC.C13_netOf_rename', 'CC.C13_netOf_labels',
    'CC.C13_moved_same_solution', 'CC.C13_split_same_solution', 'CC.C13_perm_same_solution',
]
THEOREMS += [
    'CC.C13_gen_elements', 'CC.C13_gen_all_nodes', 'CC.C13_gen_sweep', 'CC.C13_gen_equal_potential',
    'CC.C13_gen_unique_nodes', 'CC.C13_gen_unique_node_mapping', 'CC.C13_gen_node_label_mapping',
    'CC.C13_gen_get_node_index', 'CC.C13_gen_ground', 'CC.C13_gen_ground_label', 'CC.C13_gen_get_element',
]
ASSUMPTIONS = [
    'schemdraw placement (element → absanchors) is a parameter: the model receives the anchors the real objects carry; '
    'the oracle additionally checks that they are the points the drawing program named',
    'CPython round(x, 2) is round-half-even of the exact binary64 value to two decimals; the model keeps k/100 exactly '
    '(cases within 1e-7 of a tie are counted as skipped_tie_margin)',
    'Python set iteration order is a parameter `ord` of the model; theorems hold for every order, the correspondence '
    'feeds the observed orders',
    'hand-written model CC/Model/Draw.lean is tied to the code by this correspondence; translator bodies, the class → '
    'translator map, component constructors and class facts are regenerated from the AST (CC/Gen/DrawTables.lean)',
    'math.pi enters as its exact binary64 value; phi*pi/180 is compared with 1e-12 relative tolerance',
]

EXC = {'MultipleGroundNodes': 'MultipleGroundNodes', 'AmbiguousComponentID': 'AmbiguousIDs', 'UnknownTranslator': 'UnknownKind',
       'KeyError': 'KeyError', 'IndexError': 'KeyError', 'ValueError': 'ValueError', 'TypeError': 'TypeError',
       'AttributeError': 'AttributeError', 'UnknownElement': 'KeyError', 'ZeroDivisionError': 'ZeroDivisionError'}

def tag(e):
    return EXC.get(type(e).__name__, type(e).__name__)

PI_Q = core.q(math.pi)

# --------------------------------------------------------------------------- implementation side

def impl_parse(d):
    from CircuitCalculator.SimpleCircuit.DiagramParser import SchematicDiagramParser
    from CircuitCalculator.SimpleCircuit.DiagramTranslator import circuit_translator
    p = SchematicDiagramParser(d)
    r = {}
    r['all'] = list(p.all_nodes)
    r['uniq'] = list(p.unique_nodes)
    r['classes'] = {gd.ptkey(pt): {gd.ptkey(x) for x in p._get_equal_electrical_potential_nodes(pt)} for pt in r['all']}
    r['umap'] = {gd.ptkey(k): gd.ptkey(v) for k, v in p.unique_node_mapping.items()}
    try:
        r['labels'] = {gd.ptkey(k): v for k, v in p.node_label_mapping.items()}
    except Exception as e:
        r['labels'] = ('err', tag(e))
    try:
        r['ground_label'] = p.ground_label
    except Exception as e:
        r['ground_label'] = ('err', tag(e))
    try:
        r['circuit'] = circuit_translator(d)
    except Exception as e:
        r['circuit'] = ('err', tag(e), repr(e)[:120])
    return r

def circuits_equal(c, m):
    """real Circuit vs the model's JSON"""
    if len(c.components) != len(m['components']) or c.ground_node != m['ground_node']:
        return False
    for a, b in zip(c.components, m['components']):
        if a.type != b['type'] or a.id != b['id'] or list(a.nodes) != list(b['nodes']):
            return False
        mv = {k: gd.dec_val(v) for k, v in b['value']}
        if list(a.value.keys()) != [k for k, _ in b['value']]:
            return False
        for k, v in a.value.items():
            if not gd.values_close(v, mv[k]):
                return False
    return True

def show_circuit(c):
    if isinstance(c, tuple):
        return c
    return dict(components=[(x.type, x.id, x.nodes, x.value) for x in c.components], ground_node=c.ground_node)

def correspond(ctx, out, d, desc):
    """model vs implementation on one real drawing; returns the implementation's results"""
    r = impl_parse(d)
    drv = ctx.driver
    if drv is None:
        return r
    syms = gd.read_syms(d)
    m = drv.call('draw_parse', syms=syms, pi=PI_Q, ord_all=[gd.enc_pt(p) for p in r['all']],
                 ord_uniq=[gd.enc_pt(p) for p in r['uniq']])
    out.traces_validated += 1
    bad = []
    if {gd.jkey(p) for p in m['all']} != {gd.ptkey(p) for p in r['all']} or len(m['all']) != len(r['all']):
        bad.append('all_nodes')
    if not m['ord_all_used']:
        bad.append('all_nodes(order)')
    mcl = {gd.jkey(p): {gd.jkey(x) for x in cl} for p, cl in m['classes']}
    if mcl != r['classes']:
        bad.append('equal_potential')
    if {gd.jkey(p) for p in m['uniq']} != {gd.ptkey(p) for p in r['uniq']} or len(m['uniq']) != len(r['uniq']):
        bad.append('unique_nodes')
    elif not m['ord_uniq_used']:
        bad.append('unique_nodes(order)')
    if {gd.jkey(a): gd.jkey(b) for a, b in m['umap']} != r['umap']:
        bad.append('unique_node_mapping')
    if 'err' in m['labels']:
        if r['labels'] != ('err', m['labels']['err']):
            bad.append('node_label_mapping')
    elif isinstance(r['labels'], tuple) or {gd.jkey(p): l for p, l in m['labels']['ok']} != r['labels']:
        bad.append('node_label_mapping')
    if 'err' in m['ground_label']:
        if r['ground_label'] != ('err', m['ground_label']['err']):
            bad.append('ground_label')
    elif r['ground_label'] != m['ground_label']['ok']:
        bad.append('ground_label')
    if 'err' in m['circuit']:
        if not (isinstance(r['circuit'], tuple) and r['circuit'][1] == m['circuit']['err']):
            bad.append('circuit_translator')
    elif isinstance(r['circuit'], tuple) or not circuits_equal(r['circuit'], m['circuit']['ok']):
        bad.append('circuit_translator')
    # get_element: every name of the drawing and one that does not occur
    from CircuitCalculator.SimpleCircuit.DiagramParser import SchematicDiagramParser
    p = SchematicDiagramParser(d)
    names = sorted({s.get('name', '') for s in syms}) + ['no such element']
    ge = drv.call('draw_get_element', syms=syms, names=names)
    for nm, mres in zip(names, ge):
        try:
            e = p.get_element(nm)
            ires = (gd.class_name(e), e.name, gd.ptkey(e.absanchors['start']))
        except Exception as ex:
            ires = ('err', tag(ex))
        mm = ('err', mres['err']) if 'err' in mres else (mres['ok']['cls'], mres['ok']['name'], gd.jkey(mres['ok']['start']))
        if ires != mm:
            out.disagree('draw_get_element', desc, str(ires), mres, name=nm)
    for b in bad:
        out.disagree('draw_parse.' + b, desc,
                     dict(labels=str(r['labels']), ground=str(r['ground_label']), circuit=str(show_circuit(r['circuit'])),
                          uniq=str(r['uniq'])),
                     dict(labels=m['labels'], ground=m['ground_label'], circuit=m['circuit'], uniq=m['uniq']))
    return r

# --------------------------------------------------------------------------- oracle

def geometry_ok(program, geom, placed):
    for s, e in zip(program, placed):
        for key, g in (('start', s['a']), ('end', s.get('b', s['a']))):
            x, y = gd.to_xy(geom, g)
            p = e.absanchors[key]
            if abs(p[0] - x) > 1e-6 or abs(p[1] - y) > 1e-6:
                return (s, key, (p[0], p[1]), (x, y))
    return None

def canon_of(symptom, w, program, **kw):
    c = dict(op='translate', symptom=symptom)
    if w is not None:
        c.update(kind=w.get('kind'), rev=bool(w.get('rev')), deg=bool(w.get('deg')), sin=bool(w.get('sin')))
        if any(s_.get('positional') and s_.get('name') == w.get('id') for s_ in program):
            c.update(positional_name=True)
    c.update(kw)
    return c

class _TieOut:
    """the Outcome with `spec_fail` marking the canonical form `rounding_tie`"""
    def __init__(self, out, fail):
        object.__setattr__(self, '_o', out); object.__setattr__(self, '_f', fail)
    def spec_fail(self, *a, **k):
        return self._f(*a, **k)
    def __getattr__(self, n):
        return getattr(self._o, n)
    def __setattr__(self, n, v):
        setattr(self._o, n, v)

def check_case(ctx, out, program, geom, origin, solve=False):
    """correspondence + intended-netlist oracle on one (program, geometry); returns the circuit or None"""
    out.evaluations += 1
    desc = gd.pretty(program, geom)
    try:
        d, placed = gd.build(program, geom)
    except Exception as e:
        # a supported placement of a supported symbol raises (it does not mis-translate)
        lin = next((s for s in program if s['kind'] in gd.LINEAR), None)
        dirn = gd.direction_of(lin['a'], lin['b'], geom.get('rot', 0)) if lin else None
        out.spec_fail(dict(op='place', symptom='raises', exc=tag(e), kind=lin['kind'] if lin else None, direction=dirn),
                      f'placing the symbols raises {type(e).__name__}: {e}', desc, program=program, geom=geom)
        return None
    # coordinates on a tie of round(x, 2) are judged like all others (the model rounds the same floats exactly);
    # failures there carry `rounding_tie` in their canonical form
    on_tie = gd.tie_distance(d) < 1e-7
    if on_tie:
        out.count('on_rounding_tie')
        _sf = out.spec_fail
        def _tie_fail(canon, *a, **k):
            return _sf(dict(canon, rounding_tie=True), *a, **k)
        out = _TieOut(out, _tie_fail)
    for s in program:
        out.count('kind:' + s['kind'])
    out.count('origin:' + origin)
    out.count(f'rot:{geom.get("rot", 0)}')
    r = correspond(ctx, out, d, desc)
    valid = gd.valid_program(program)
    if not valid:
        out.count('malformed')
        spec = gd.intended(program)
        if len(spec['grounds']) > 1 and not isinstance(r['circuit'], tuple):
            out.spec_fail(dict(op='translate', symptom='two_grounds_accepted'), 'a drawing with two ground symbols is translated',
                          desc, impl=str(show_circuit(r['circuit'])), program=program, geom=geom)
        return None
    g = geometry_ok(program, geom, placed)
    if g is not None:
        out.spec_fail(dict(op='place', symptom='anchor_off_grid', kind=g[0]['kind'], anchor=g[1]),
                      f'{g[0]["kind"]} anchor {g[1]} at {g[2]}, drawn at {g[3]}', desc, program=program, geom=geom)
        return None
    spec = gd.intended(program)
    out.nontrivial((tuple(sorted({s['kind'] for s in program})), len(set(spec['cls'].values())),
                    sum(1 for s in program if s['kind'] == 'wire') > 0, geom.get('rot', 0)))
    c = r['circuit']
    if isinstance(c, tuple):
        # which symbol makes it fail? (first component whose translator raises on its own)
        culprit = None
        for s in program:
            if s['kind'] in gd.TWO_TERMINAL:
                try:
                    from CircuitCalculator.SimpleCircuit.DiagramTranslator import circuit_translator
                    dd, _ = gd.build([s], geom)
                    circuit_translator(dd)
                except Exception:
                    culprit = s; break
        w = None
        if culprit is not None:
            w = dict(kind=culprit['kind'], rev=bool(culprit.get('rev')), deg=bool(culprit.get('vals', {}).get('deg')),
                     sin=bool(culprit.get('vals', {}).get('sin')))
        out.spec_fail(canon_of('raises', w, program, exc=c[1]), f'valid drawing is not translated: {c[2]}', desc,
                      impl=dict(exception=c[2]), program=program, geom=geom)
        return None
    diff = gd.compare_with_intended(c, spec)
    if diff is not None:
        out.spec_fail(canon_of(diff[0], diff[2], program), f'translated circuit is not the drawn netlist: {diff[1]}', desc,
                      impl=show_circuit(c), spec=dict(components=[(w['type'], w['id'], str(w['terms']), w['value']) for w in spec['comps']]),
                      program=program, geom=geom)
        return None
    # parser-level statements on the implementation: names, ground label, partition
    labels = r['labels']
    if not isinstance(labels, tuple):
        # node name of every terminal, looked up under the parser's own rounding of the anchor the symbol carries
        terms = []                                   # (grid point, node name)
        for s_, e_ in zip(program, placed):
            for key_, gp in (('start', tuple(s_['a'])), ('end', tuple(s_.get('b', s_['a'])))):
                pa = e_.absanchors[key_]
                rep = r["umap"].get(gd.ptkey(gd._elm().round_node(pa)))
                lab = labels.get(rep) if rep is not None else None
                if lab is None:
                    out.spec_fail(dict(op='parse', symptom='terminal_without_node'), f'terminal at grid point {gp} has no node name', desc,
                                  program=program, geom=geom); return None
                terms.append((gp, lab))
        by_grid = {}
        for gp, lab in terms:
            by_grid.setdefault(gp, lab)
        for gp, lab in terms:
            for gq, lab2 in terms:
                same = spec['cls'][gp] == spec['cls'][gq]
                if same != (lab == lab2):
                    out.spec_fail(dict(op='parse', symptom='partition'),
                                  f'{gp} and {gq}: joined={same} but node names {lab!r}, {lab2!r}', desc,
                                  program=program, geom=geom); return None
        # terminal ORDER of every component: (start, end), listed (end, start) when the symbol is reversed
        for k_, w in zip(c.components, spec['comps']):
            want = [by_grid[p_] for p_ in w['pts']]
            if list(k_.nodes) != want:
                out.spec_fail(canon_of('terminal_order', w, program),
                              f'{k_.id}: terminals listed {tuple(k_.nodes)}, drawn {tuple(want)} (start→end, reversed: end→start)', desc,
                              impl=show_circuit(c), program=program, geom=geom); return None
        for t, ns in spec['names'].items():
            gp = next(p for p, cl in spec['cls'].items() if cl == t)
            if by_grid[gp] not in ns:
                out.spec_fail(dict(op='parse', symptom='name'), f'node {ns!r} is called {by_grid[gp]!r}', desc,
                              program=program, geom=geom); return None
        if spec['grounds'] and not isinstance(r['ground_label'], tuple):
            gp = next(p for p, cl in spec['cls'].items() if cl == spec['grounds'][0])
            if r['ground_label'] != by_grid[gp]:
                out.spec_fail(dict(op='parse', symptom='reference'), 'ground_label is not the node of the ground symbol', desc,
                              program=program, geom=geom); return None
    out.sample(desc)
    return c

def solve_dc(c):
    from CircuitCalculator.Circuit.solution import DCSolution
    s = DCSolution(circuit=c)
    ids = [x.id for x in c.components if x.type != 'ground']
    return ({i: complex(s.get_voltage(i)) for i in ids}, {i: complex(s.get_current(i)) for i in ids},
            lambda n: complex(s.get_potential(n)))

def solve_complex(c, w):
    from CircuitCalculator.Circuit.solution import ComplexSolution
    s = ComplexSolution(circuit=c, w=w)
    ids = [x.id for x in c.components if x.type != 'ground']
    return ({i: complex(s.get_voltage(i)) for i in ids}, {i: complex(s.get_current(i)) for i in ids},
            lambda n: complex(s.get_potential(n)))

def node_of(c, spec_comp_terms, comps):
    """class ↦ node name in circuit c"""
    m = {}
    for k, w in zip(c.components, comps):
        nodes = list(k.nodes)
        for n, t in zip(nodes, w['terms']):
            m.setdefault(t, n)
    return m

def metamorphic(ctx, out, rng, program, origin, ac=False):
    """base drawing and its variants: every variant must be the same netlist (each is compared
    with the intended netlist, and their solutions with the base solution)"""
    base_geom = dict(gd.IDENT, unit=float(rng.choice([2, 3, 5, 7])))
    c0 = check_case(ctx, out, program, base_geom, origin)
    if c0 is None:
        return
    sol0 = None
    w = 0.0
    import gen_circ
    if ac:
        ws = [s['vals']['w'] for s in program if s['kind'] in gd.TWO_TERMINAL and 'w' in s.get('vals', {})]
        w = ws[0] if ws else 1.0
    # solutions are compared only for networks that are well-posed at the analysed frequency (decided exactly
    # by the spec tableau of the driver): for a shorted source, a floating part … the solver's answer is
    # not determined by the netlist and may depend on the order of the symbols
    spec_base = gd.intended(program)
    degenerate = (not spec_base['grounds']                      # no ground symbol: the reference node follows the symbol order
                  or any(len(k_['terms']) == 2 and k_['terms'][0] == k_['terms'][1] for k_ in spec_base['comps']))   # shorted symbol (self-loop branch)
    if ctx.driver is None or degenerate or not gen_circ.wellposed_at(ctx.driver, c0, w):
        out.count('solution_compare_skipped:' + ('no_driver' if ctx.driver is None else 'degenerate' if degenerate else 'ill_posed'))
    else:
        try:
            sol0 = solve_complex(c0, w) if ac else solve_dc(c0)
            if not all(math.isfinite(abs(z)) for z in list(sol0[0].values()) + list(sol0[1].values())):
                sol0 = None
        except Exception:
            out.count('base_not_solvable')
    spec0 = gd.intended(program)
    variants = []
    for k in range(1, 4):
        variants.append((f'rot{k}', program, dict(base_geom, rot=k)))
    variants.append(('translate', program, dict(base_geom, dx=rng.choice([0.5, -3.0, 12.34, 0.1, 1000.0]), dy=rng.choice([0.25, 7.0, -0.9, 0.02]))))
    variants.append(('unit', program, dict(base_geom, unit=float(rng.choice([2, 4, 6, 8, 10, 2.5, 9.9])))))
    variants.append(('general', program, gd.random_geometry(rng)))
    variants.append(('subdivide', gd.subdivide_wires(rng, program), dict(base_geom, unit=base_geom['unit'] / 3)))
    variants.append(('shuffle', gd.shuffled(rng, program), base_geom))
    for name, prog, geom in variants:
        if ctx.time_left() < 5:
            return
        c = check_case(ctx, out, prog, geom, 'meta:' + name)
        out.count('metamorphic:' + name)
        if c is None:
            if not gd.valid_program(prog):
                continue
            # the variant failed on its own: already reported by check_case (or skipped for a tie)
            continue
        if sol0 is None:
            continue
        try:
            sol = solve_complex(c, w) if ac else solve_dc(c)
        except Exception as e:
            out.spec_fail(dict(op='metamorphic', variant=name, symptom='solve_raises'), f'{name}: variant does not solve: {type(e).__name__}',
                          gd.pretty(prog, geom), program=prog, geom=geom)
            continue
        scale = max([abs(z) for z in sol0[0].values()] + [abs(z) for z in sol0[1].values()] + [1.0])
        badq = [i for i in sol0[0] if not core.close(sol0[0][i], sol[0].get(i, math.nan), scale, 1e-7) or
                not core.close(sol0[1][i], sol[1].get(i, math.nan), scale, 1e-7)]
        if not badq:
            spec = gd.intended(prog)
            n0 = node_of(c0, None, spec0['comps']); n1 = node_of(c, None, spec['comps'])
            # classes correspond through the component order (shuffle permutes components: match by id)
            by_id0 = {k.id: k for k in c0.components}; by_id1 = {k.id: k for k in c.components}
            for i in by_id0:
                for a, b in zip(by_id0[i].nodes, by_id1[i].nodes):
                    try:
                        if not core.close(sol0[2](a), sol[2](b), scale, 1e-7):
                            badq.append('potential:' + i)
                    except Exception:
                        badq.append('potential_raises:' + i)
        if badq:
            out.spec_fail(dict(op='metamorphic', variant=name, symptom='solution_differs'),
                          f'{name}: solution differs from the base drawing at {badq[:4]}', gd.pretty(prog, geom),
                          impl=dict(base=str(sol0[0]), variant=str(sol[0])), program=prog, geom=geom, base=program)
        else:
            out.count('solutions_compared')


# --------------------------------------------------------------------------- history stream: re-translation of a grown drawing

ADDED = {'wire': 'wire', 'node': 'label', 'lnode': 'label', 'gnd': 'ground'}

def random_extension(rng, program, counter):
    """one or two further symbols for an existing drawing: a wire that merges two nodes, a node label,
    a ground, another component — such that the extended program stays a valid drawing"""
    spec = gd.intended(program)
    pts = list(spec['cls'])
    named = set(spec['names'])
    used_names = {n for ns in spec['names'].values() for n in ns}
    for _ in range(20):
        c = rng.random()
        if c < 0.4 and len(set(spec['cls'].values())) > 1:
            a = rng.choice(pts); others = [p for p in pts if spec['cls'][p] != spec['cls'][a]]
            if not others: continue
            b = rng.choice(others)
            if spec['cls'][a] in named and spec['cls'][b] in named: continue      # would put two names on one node
            ext = [dict(kind='wire', a=a, b=b, place='endpoints')]
        elif c < 0.6:
            free = [p for p in pts if spec['cls'][p] not in named]
            name = rng.choice([n for n in ['A', 'B', 'K', '7', 'x9', '1', '2'] if n not in used_names] or [f'n{counter}'])
            if not free: continue
            ext = [dict(kind=rng.choice(['node', 'lnode']), name=name, a=rng.choice(free))]
        elif c < 0.75:
            free = [p for p in pts if spec['cls'][p] not in named]
            if spec['grounds'] or not free or '0' in used_names: continue
            ext = [dict(kind='gnd', a=rng.choice(free))]
        else:
            a = rng.choice(pts); b = rng.choice(pts + [(a[0] + 1, a[1] + 7)])
            if a == b: continue
            k = rng.choice(['R', 'G', 'C', 'V', 'I'])
            ext = [dict(kind=k, name=f'x{counter}{k}', vals=gd.random_vals(rng, k), rev=rng.random() < 0.4, a=a, b=b, place='endpoints')]
        if gd.valid_program(program + ext):
            return ext
    return None

def history_case(ctx, out, program, extensions, geom, origin):
    """translate a drawing, add symbols to the SAME Schematic object, translate again: every
    translation must be the intended netlist of the drawing as it stands (and agree, up to node
    renaming, with the translation of a fresh drawing built in one go)"""
    from CircuitCalculator.SimpleCircuit.DiagramTranslator import circuit_translator
    from props import c15
    out.evaluations += 1
    out.count('origin:' + origin)
    base = [dict(s, place='endpoints') if 'b' in s else dict(s) for s in program]
    d, _ = gd.build(base, geom)
    if gd.tie_distance(d) < 1e-7:
        out.skip('tie_margin'); return
    try:
        c = circuit_translator(d)
    except Exception:
        out.count('history_base_untranslatable'); return
    if gd.compare_with_intended(c, gd.intended(base)) is not None:
        out.count('history_base_off'); return          # reported by the plain stream
    prog = list(base)
    for step_no, ext in enumerate(extensions, 1):
        ext = [dict(s, place='endpoints') if 'b' in s else dict(s) for s in ext]
        gd.build(ext, geom, schematic=d)                 # the same Schematic object grows
        prog = prog + ext
        added = ADDED.get(ext[0]['kind'], 'component')
        out.count('history_added:' + added)
        desc = dict(base=gd.pretty(base, geom), extensions_so_far=[gd.pretty(e)['steps'] for e in extensions[:step_no]])
        payload = dict(program=base, extensions=extensions, geom=geom)
        canon = dict(op='retranslate', symptom='stale_after_extension', added=added)
        try:
            c_again = circuit_translator(d)
        except Exception as e:
            out.spec_fail(dict(canon, symptom='raises_after_extension', exc=tag(e)), f'step {step_no}: re-translation raises {type(e).__name__}: {e}',
                          desc, **payload); return
        fresh, _ = gd.build(prog, geom)
        try:
            c_fresh = circuit_translator(fresh)
        except Exception:
            out.count('history_fresh_untranslatable'); return
        diff = gd.compare_with_intended(c_again, gd.intended(prog))
        diff2 = c15.same_circuit(c_fresh, c_again)
        if diff is not None or diff2 is not None:
            what = diff[1] if diff is not None else diff2[2]
            out.spec_fail(canon, f'step {step_no} (added {added}): the re-translated drawing is not the drawing as it stands: {what}', desc,
                          impl=dict(retranslated=show_circuit(c_again), fresh=show_circuit(c_fresh)), **payload)
            return
        out.nontrivial(('history', added, step_no))
    out.sample(dict(history=gd.pretty(base, geom), extensions=[gd.pretty(e)['steps'] for e in extensions]))

# open Wheatstone bridge, then a wire joining the two mid points, then a label and a ground
BRIDGE = [dict(kind='V', name='Vs', vals={'V': 10.0}, rev=False, a=(0, 0), b=(0, 2)),
          dict(kind='R', name='R1', vals={'R': 1.0}, a=(0, 2), b=(1, 1)), dict(kind='R', name='R2', vals={'R': 2.0}, a=(1, 1), b=(0, 0)),
          dict(kind='R', name='R3', vals={'R': 3.0}, a=(0, 2), b=(3, 1)), dict(kind='R', name='R4', vals={'R': 4.0}, a=(3, 1), b=(0, 0))]
BRIDGE_EXT = [[dict(kind='wire', a=(1, 1), b=(3, 1))], [dict(kind='lnode', name='mid', a=(3, 1))], [dict(kind='gnd', a=(0, 0))],
              [dict(kind='R', name='R5', vals={'R': 5.0}, a=(0, 2), b=(0, 0))]]

TIE_LOOP = [dict(kind='V', name='Vs', vals={'V': 10.0}, rev=False, a=(0, 0), b=(0, 1), place='dir'),
            dict(kind='R', name='R1', vals={'R': 5.0}, a=(0, 1), b=(1, 1), place='chain'),
            dict(kind='R', name='R2', vals={'R': 5.0}, a=(1, 1), b=(1, 0), place='chain'),
            dict(kind='wire', a=(1, 0), b=(0, 0), place='chain'), dict(kind='gnd', a=(0, 0))]
# a node label on the ground node (one node, two names), labels added before and after the ground
LABEL_ON_GROUND = [TIE_LOOP[:4] + [dict(kind='gnd', a=(0, 0)), dict(kind='lnode', name='A', a=(1, 0))],
                   TIE_LOOP[:4] + [dict(kind='node', name='B', a=(0, 0)), dict(kind='gnd', a=(1, 0))]]

def audit_streams(ctx, out, rng):
    """inputs the other streams leave out: coordinates on rounding ties, linear sources in every direction,
    names passed positionally, a label on the ground node"""
    # 1. rounding ties: translations / units that put coinciding terminals on a tie of round(x, 2)
    for geom in (dict(rot=0, unit=3.0, dx=0.005, dy=0.0), dict(rot=0, unit=3.0, dx=0.125, dy=0.125), dict(rot=1, unit=2.125, dx=0.0, dy=0.0)):
        check_case(ctx, out, TIE_LOOP, geom, 'tie_corpus')
    for i in range(10 if ctx.quick else 150):
        if ctx.time_left() < 40: break
        prog = gd.ladder_program(rng) if rng.random() < 0.6 else gd.random_program(rng)
        if gd.valid_program(prog):
            check_case(ctx, out, prog, gd.tie_geometry(rng), 'tie')
    # 2. linear (lossy) DC sources, placed by each of the four direction methods
    for i in range(8 if ctx.quick else 60):
        if ctx.time_left() < 35: break
        prog, geom = gd.linear_source_program(rng)
        if i < 4: geom = dict(geom, rot=i)
        check_case(ctx, out, prog, geom, 'linear_source')
    # 3. `name` passed by position (a supported call of the constructors that list it positionally)
    for i, k in enumerate(sorted(gd.POSITIONAL)):
        if ctx.time_left() < 30: break
        if not ctx.quick or i % 3 == ctx.seed % 3:
            prog = [dict(kind=k, name=f'{k}1', vals=gd.random_vals(rng, k), rev=False, positional=True, a=(0, 0), b=(0, 1)),
                    dict(kind='R', name='R1', vals={'R': 2.0}, a=(0, 1), b=(1, 1)), dict(kind='wire', a=(1, 1), b=(0, 0)), dict(kind='gnd', a=(0, 0))]
            check_case(ctx, out, prog, dict(gd.IDENT, unit=3.0), 'positional_name')
    # 4. a label on the ground node
    for prog in LABEL_ON_GROUND:
        check_case(ctx, out, prog, dict(gd.IDENT, unit=3.0), 'label_on_ground')

def history_stream(ctx, out, rng, n):
    history_case(ctx, out, BRIDGE, BRIDGE_EXT, dict(gd.IDENT, unit=3.0), 'history_corpus')
    for i in range(n):
        if ctx.time_left() < 10: out.notes.append(f'history stream stopped after {i} programs (budget)'); break
        c = rng.random()
        prog = gd.ladder_program(rng) if c < 0.5 else gd.random_program(rng, labels=rng.random() < 0.5)
        if rng.random() < 0.5:
            prog = [s for s in prog if s['kind'] != 'gnd']
        if not gd.valid_program(prog) or not any(s['kind'] in gd.TWO_TERMINAL for s in prog):
            continue
        exts = []; cur = [dict(s, place='endpoints') if 'b' in s else dict(s) for s in prog]
        for j in range(rng.randint(2, 3)):
            e = random_extension(rng, cur, f'{i}_{j}')
            if e is None: break
            exts.append(e); cur = cur + e
        if exts:
            history_case(ctx, out, prog, exts, gd.random_geometry(rng), 'history')

# --------------------------------------------------------------------------- corpus / malformed / run

CORPUS = [
    # the drawing of tests/SimpleCircuit/test_network_building.py
    [dict(kind='I', name='I1', vals={'I': 1.0}, rev=False, a=(0, 0), b=(0, 1), place='dir'),
     dict(kind='R', name='R1', vals={'R': 10.0}, a=(0, 1), b=(1, 1), place='chain'),
     dict(kind='R', name='R2', vals={'R': 20.0}, a=(1, 1), b=(1, 0), place='chain'),
     dict(kind='R', name='R3', vals={'R': 30.0}, a=(1, 1), b=(2, 1), place='dir'),
     dict(kind='wire', a=(2, 1), b=(2, 0), place='chain'), dict(kind='wire', a=(2, 0), b=(1, 0), place='chain'),
     dict(kind='wire', a=(1, 0), b=(0, 0), place='chain')],
    # non-reversed complex current source (reads element.V)
    [dict(kind='Ic', name='Iq', vals={'I': complex(1, 2)}, rev=False, a=(0, 0), b=(0, 1), place='dir'),
     dict(kind='R', name='R1', vals={'R': 2.0}, a=(0, 1), b=(0, 0), place='endpoints'), dict(kind='gnd', a=(0, 0))],
    # sine source given in degrees
    [dict(kind='Vac', name='Vs', vals={'V': 2.0, 'w': 10.0, 'phi': 30.0, 'deg': True, 'sin': True}, rev=False, a=(0, 0), b=(0, 1), place='dir'),
     dict(kind='R', name='R1', vals={'R': 2.0}, a=(0, 1), b=(0, 0), place='endpoints'), dict(kind='gnd', a=(0, 0))],
    # sine-referenced AC current source given in degrees
    [dict(kind='Iac', name='Is', vals={'I': 2.0, 'w': 100.0, 'phi': 30.0, 'deg': True, 'sin': True}, rev=False, a=(0, 0), b=(0, 1), place='dir'),
     dict(kind='R', name='R1', vals={'R': 2.0}, a=(0, 1), b=(0, 0), place='endpoints'), dict(kind='gnd', a=(0, 0))],
    # reversed passives of every kind and a labelled line ("measurable short") between two different nodes
    [dict(kind='V', name='V1', vals={'V': 10.0}, rev=False, a=(0, 0), b=(0, 2)),
     dict(kind='R', name='R1', vals={'R': 2.0}, rev=True, a=(0, 2), b=(1, 2)), dict(kind='C', name='C1', vals={'C': 1e-6}, rev=True, a=(1, 2), b=(1, 0)),
     dict(kind='sc', name='S', vals={}, rev=False, a=(1, 2), b=(2, 2)), dict(kind='L', name='L1', vals={'L': 1e-3}, rev=True, a=(2, 2), b=(2, 0)),
     dict(kind='G', name='G1', vals={'G': 0.5}, rev=True, a=(2, 2), b=(3, 2)), dict(kind='Z', name='Z1', vals={'Z': complex(1, 2)}, rev=True, a=(3, 2), b=(3, 0)),
     dict(kind='lamp', name='H1', vals={'V_ref': 12.0, 'P_ref': 6.0}, rev=True, a=(3, 2), b=(4, 2)),
     dict(kind='switch', name='K1', vals={'state': 'CLOSED'}, rev=True, a=(4, 2), b=(4, 0)),
     dict(kind='wire', a=(4, 0), b=(3, 0)), dict(kind='wire', a=(3, 0), b=(2, 0)), dict(kind='wire', a=(2, 0), b=(1, 0)),
     dict(kind='wire', a=(1, 0), b=(0, 0)), dict(kind='gnd', a=(0, 0))],
    # numerals that collide with a named node
    [dict(kind='R', name='R1', vals={'R': 1.0}, a=(0, 0), b=(1, 0)), dict(kind='R', name='R2', vals={'R': 1.0}, a=(1, 0), b=(2, 0)),
     dict(kind='R', name='R3', vals={'R': 1.0}, a=(2, 0), b=(3, 0)), dict(kind='node', name='2', a=(3, 0)), dict(kind='lnode', name='3', a=(0, 0))],
]

def malformed_programs(rng):
    base = gd.random_program(rng, n_elems=rng.randint(1, 3))
    used = [s['a'] for s in base] + [s['b'] for s in base if 'b' in s]
    out = []
    out.append(base + [dict(kind='gnd', a=rng.choice(used)), dict(kind='gnd', a=rng.choice(used), name='g2')])
    out.append(base + [dict(kind='node', name='A', a=rng.choice(used)), dict(kind='lnode', name='B', a=rng.choice(used)),
                       dict(kind='node', name='A', a=rng.choice(used))])
    dup = [dict(s) for s in base]
    named = [s for s in dup if s['kind'] in gd.TWO_TERMINAL]
    if len(named) >= 2:
        named[1]['name'] = named[0]['name']
        out.append(dup)
    out.append([dict(kind='node', name='X', a=(5, 5))] + base)         # a label off any terminal
    out.append([dict(kind='wire', a=(0, 0), b=(1, 0))])                # wires only
    out.append([dict(kind='gnd', a=(0, 0))])
    return out

def run(ctx, out):
    out.rule = ('drawing programs over an integer grid (R/G/Z/C/L/lamp/switch/labelled wire/DC, AC, complex, rect/tri/saw sources, '
                'both reversal flags, wires with junctions and chains, node labels, ≤ 1 ground; placement by end points, direction+'
                'length, chaining, tox/toy) × geometry (rotation, translation, unit); a case is non-trivial when it is a valid '
                'drawing; distinct by (kind set, number of electrical nodes, has wires, rotation)')
    rng = ctx.rng('c13')
    for prog in CORPUS:
        for k in range(4):
            check_case(ctx, out, prog, dict(gd.IDENT, rot=k, unit=7.0), 'corpus')
    n_random = 130 if ctx.quick else 1600
    for i in range(n_random):
        if ctx.time_left() < 25: out.notes.append(f'random stream stopped after {i} cases (budget)'); break
        prog = gd.random_program(rng)
        check_case(ctx, out, prog, gd.random_geometry(rng), 'random')
    n_mal = 6 if ctx.quick else 80
    for i in range(n_mal):
        if ctx.time_left() < 20: break
        for prog in malformed_programs(rng):
            check_case(ctx, out, prog, gd.random_geometry(rng), 'malformed')
    audit_streams(ctx, out, ctx.rng('c13', 'audit'))
    history_stream(ctx, out, ctx.rng('c13', 'history'), 10 if ctx.quick else 150)
    n_meta = 11 if ctx.quick else 150
    for i in range(n_meta):
        if ctx.time_left() < 12: out.notes.append(f'metamorphic stream stopped after {i} programs (budget)'); break
        c = rng.random()
        if c < 0.45:
            metamorphic(ctx, out, rng, gd.ladder_program(rng), 'ladder')
        elif c < 0.7:
            metamorphic(ctx, out, rng, gd.ladder_program(rng, ac=True), 'ladder_ac', ac=True)
        else:
            prog = gd.random_program(rng)
            if gd.valid_program(prog):
                metamorphic(ctx, out, rng, prog, 'random')

def replay(ctx, out, rp):
    prog = rp.get('program'); geom = rp.get('geom')
    if prog is None:
        raise SystemExit('replay file carries no drawing program')
    for s in prog + [t for e in rp.get('extensions') or [] for t in e]:
        for k in ('a', 'b'):
            if k in s: s[k] = tuple(s[k])
    if rp.get('extensions'):
        history_case(ctx, out, prog, rp['extensions'], geom, 'replay'); return
    if rp.get('canon', {}).get('op') == 'metamorphic' and rp.get('base'):
        base = rp['base']
        for s in base:
            for k in ('a', 'b'):
                if k in s: s[k] = tuple(s[k])
        ac = any('w' in s.get('vals', {}) for s in base if s['kind'] in gd.TWO_TERMINAL)
        for trial in range(3):           # the variants are drawn from the seeded generator
            metamorphic(ctx, out, ctx.rng('c13', 'replay', trial), base, 'replay', ac=ac)
        return
    check_case(ctx, out, prog, geom, 'replay')
