"""
C08 — Fourier series of the built-in periodic waveforms are the true coefficients.

Correspondence (model = CC/Gen/Fourier.lean, regenerated from the Python AST, evaluated by the
driver at exact rationals with π := exact value of binary64 np.pi and cos/sin supplied by numpy
for exactly the arguments the model asks for):
  * class inventory, `fourier_series_mapping`, `periodic_functions`, wavetype strings (exact);
  * `periodic_function(name)` for the six names and unknown names (exact, incl. error kind);
  * `fourier_series(cls(T, A, φ, off)).amplitude/phase/a/b/c(n)` for n ∈ [−400, 400];
  * `time_function(t)` at points away from the jumps.
Oracle (implementation only, always run): composite-Simpson quadrature of the implementation's
*own* time function (split at the jumps) against its own reported amplitude/phase pair and
`c(n)`; `c(−n) = conj c(n)`; a/b/c consistency; negative-index laws; Bessel/Parseval bound;
lookup-by-name returns the waveform of that name; every wave class has a Fourier series.
"""
from __future__ import annotations
import math
from fractions import Fraction
import numpy as np
import core

ID = 'C08'
LEAN_MODULE = 'CC.Properties.C08'
LEVEL = 'proof'
THEOREMS = [
    'CC.C08_abc', 'CC.C08_conj', 'CC.C08_neg_index', 'CC.C08_lookup', 'CC.C08_mapping_total',
    'CC.C08_const', 'CC.C08_cos', 'CC.C08_sin', 'CC.C08_rect', 'CC.C08_saw', 'CC.C08_tri',
    'CC.C08_c_true', 'CC.C08_all', 'CC.C08_parseval', 'CC.C08_mean_square',
]
OPEN_STATEMENTS = []
ASSUMPTIONS = [
    'binary64 evaluation of the closed forms agrees with exact field arithmetic within 1e-12 relative (checked on every run by the correspondence, not proved)',
    'np.cos / np.sin / np.exp (libm) are parameters of the algebraic theorems and Real.cos / Real.sin / Complex.exp in the analytic ones',
    "Python float % / np.mod is x − y·⌊x/y⌋ (CC.Fourier.fmodR over ℝ, CC.Fourier.fmodQ in the driver); np.vectorize(f) and np.ones(t.shape) are read pointwise",
    'np.pi is Real.pi in the analytic theorems; the driver uses the exact rational value of the binary64 constant',
    'the translator harness/extract_fourier.py (Python AST → CC/Gen/Fourier.lean) is trusted to preserve meaning on its small grammar; the correspondence cross-checks it on every run',
]

PIQ = Fraction(*float(np.pi).as_integer_ratio())
EPS = 2.220446049250313e-16
WAVETYPES = ['const', 'cos', 'sin', 'rect', 'tri', 'saw']

def pfmod():
    from CircuitCalculator.SignalProcessing import periodic_functions as pf
    return pf

def etag(e: BaseException) -> str:
    return type(e).__name__

# --------------------------------------------------------------------------- helpers

def fr(x) -> Fraction:
    return Fraction(*float(x).as_integer_ratio())

def trig_rows(needs):
    rows = []
    for a in sorted(set(needs)):
        x = float(a)
        rows.append([core.q(a), core.q(float(np.cos(x))), core.q(float(np.sin(x)))])
    return rows

def collect_needs(obj, acc):
    if isinstance(obj, dict):
        if 'need' in obj:
            acc.update(Fraction(s) for s in obj['need'])
        for v in obj.values():
            collect_needs(v, acc)
    elif isinstance(obj, list):
        for v in obj:
            collect_needs(v, acc)

def val(cell):
    """model cell {"ok": r} → float, else None"""
    if isinstance(cell, dict) and 'ok' in cell:
        return float(Fraction(cell['ok']))
    return None

def case_args(case):
    return dict(cls=case['cls'], period=core.q(case['period']), amplitude=core.q(case['amplitude']),
                phase=core.q(case['phase']), offset=core.q(case['offset']), pi=core.q(PIQ))

def model_call(drv, op, case, **kw):
    """two-pass call: first pass learns which cos/sin arguments the model needs"""
    base = case_args(case)
    r = drv.call(op, **base, **kw)
    needs = set(); collect_needs(r, needs)
    if needs:
        r = drv.call(op, **base, trig=trig_rows(needs), **kw)
    return r

def make_impl(case):
    pf = pfmod()
    cls = getattr(pf, case['cls'])
    first = case.get('retune_from')
    if first:
        # the same waveform OBJECT, used once with other parameters and then re-tuned in place (the dataclasses are
        # mutable): its time function and its reported harmonics must both follow (seeded change C08-5A, a cached
        # time_function pinned to the first phase)
        w = cls(first['period'], first['amplitude'], first['phase'], first['offset'])
        import numpy as _np
        f0 = w.time_function; f0(_np.array([0.0, 0.25 * first["period"]])); pf.fourier_series(w).amplitude(1)
        w.period, w.amplitude, w.phase, w.offset = case['period'], case['amplitude'], case['phase'], case['offset']
        return w, pf.fourier_series(w)
    w = cls(case['period'], case['amplitude'], case['phase'], case['offset'])
    return w, pf.fourier_series(w)

def n_class(n):
    return 'zero' if n == 0 else ('odd' if n % 2 else 'even')

def canon_of(case, n, symptom, quantity):
    return dict(op='coefficient', wave=case['wavetype'], symptom=symptom, quantity=quantity, order=n_class(n),
                negative_order=n < 0, negative_amplitude=case['amplitude'] < 0, zero_amplitude=case['amplitude'] == 0,
                zero_phase=case['phase'] == 0, zero_offset=case['offset'] == 0, revisit=bool(case.get('prelude')))

def pretty(case):
    return f"{case['cls']}(period={case['period']!r}, amplitude={case['amplitude']!r}, phase={case['phase']!r}, offset={case['offset']!r})"

# --------------------------------------------------------------------------- correspondence: coefficients

def corr_coefficients(ctx, out, case, ns):
    drv = ctx.driver
    impl_err = None
    try:
        w, h = make_impl(case)
    except Exception as e:
        impl_err = etag(e)
    m = model_call(drv, 'fourier', case, ns=list(ns))
    if impl_err or 'err' in m:
        if m.get('err') != impl_err:
            out.disagree('fourier_series', pretty(case), impl_err or type(h).__name__, m)
        return
    if m['harm'] != type(h).__name__:
        out.disagree('fourier_series.class', pretty(case), type(h).__name__, m['harm'])
        return
    A = abs(case['amplitude']); off = abs(case['offset'])
    for row in m['rows']:
        n = row['n']
        out.evaluations += 1
        try:
            impl = dict(amplitude=float(h.amplitude(n)), phase=float(h.phase(n)), a=float(h.a(n)), b=float(h.b(n)))
            c = complex(h.c(n)); impl['c_re'] = c.real; impl['c_im'] = c.imag
        except Exception as e:
            out.disagree('coefficients', dict(case=pretty(case), n=n), etag(e), row)
            continue
        ph = abs(impl['phase'])
        scale = abs(impl['amplitude'])
        trig_tol = scale * 8 * float(np.spacing(ph + 1.0))
        bad = {}
        for k, v in impl.items():
            mv = val(row[k])
            tol = 1e-12 * (1.0 + abs(v)) if k in ('amplitude', 'phase') else 1e-12 * (1.0 + scale) + trig_tol
            if mv is None or not math.isfinite(v) or abs(mv - v) > tol:
                bad[k] = dict(impl=v, model=row[k])
        if bad:
            out.disagree('coefficients', dict(case=pretty(case), n=n), {k: b['impl'] for k, b in bad.items()},
                         {k: b['model'] for k, b in bad.items()})
        else:
            out.traces_validated += 1
        out.nontrivial((case['wavetype'], n_class(n), n < 0, case['amplitude'] < 0,
                        min(int(abs(case['phase']) / (2 * math.pi)), 3), case['offset'] == 0))
        out.count('order:' + n_class(n))
    out.count('wave:' + case['wavetype'])

# --------------------------------------------------------------------------- correspondence: time function

def jump_free(f, t, case):
    """decided on the implementation itself: no jump of the time function within ±ε of t"""
    T = case['period']; A = abs(case['amplitude'])
    mag = abs(t) + abs(case['phase']) / (2 * math.pi) * T + T
    eps = 1e-7 * mag
    lo = float(f(np.array(t - eps))); hi = float(f(np.array(t + eps)))
    return abs(hi - lo) <= A * (16 * eps / T) + 1e-9 * A

def corr_time(ctx, out, case, ts):
    drv = ctx.driver
    try:
        w = getattr(pfmod(), case['cls'])(case['period'], case['amplitude'], case['phase'], case['offset'])
        f = w.time_function
    except Exception as e:
        out.disagree('time_function', pretty(case), etag(e), 'model defines the time function')
        return
    keep = []
    for t in ts:
        if case['cls'] in ('RectFunction', 'TriFunction', 'SawFunction') and not jump_free(f, t, case):
            out.skip('time_function:tie_margin'); continue
        keep.append(t)
    if not keep:
        return
    m = model_call(drv, 'fourier_time', case, ts=[core.q(t) for t in keep])
    T = case['period']; A = abs(case['amplitude'])
    for t, cell in zip(keep, m['values']):
        out.evaluations += 1
        v = float(f(np.array(t)))
        mv = val(cell)
        tol = 1e-12 * (A + abs(case['offset']) + 1e-300) + A * 64 * EPS * (1 + abs(t) / T + abs(case['phase']))
        if mv is None or abs(mv - v) > tol:
            out.disagree('time_function', dict(case=pretty(case), t=t), v, cell)
        else:
            out.traces_validated += 1
    out.count('time_function:' + case['wavetype'], len(keep))

# --------------------------------------------------------------------------- oracle (implementation only)

def breakpoints(case):
    """points of [0, T] where the implementation's time function may jump or kink:
    (t + t0) mod T ∈ {0, T/2}; located with the implementation's own t0 formula"""
    T = case['period']
    if case['cls'] not in ('RectFunction', 'TriFunction', 'SawFunction'):
        return [0.0, T]
    t0 = case['phase'] / 2 / np.pi * T
    pts = {0.0, T}
    for k in (0, 1):
        p = (-t0 + k * T / 2) % T
        if 0 < p < T:
            pts.add(p)
    pts = sorted(pts)
    out = [pts[0]]
    for p in pts[1:]:
        if p - out[-1] > 1e-7 * T:
            out.append(p)
    out[-1] = T
    return out

def sample_function(f, case, panels):
    """Simpson nodes and weights on [0, T], split at the break points (segments shrunk by δ so
    that no node sits on a jump)"""
    T = case['period']
    bp = breakpoints(case)
    ts = []; ws = []
    delta = 1e-10 * T
    for a, b in zip(bp[:-1], bp[1:]):
        a2 = a + delta; b2 = b - delta
        P = max(2, int(math.ceil(panels * (b - a) / T / 2)) * 2)
        x = np.linspace(a2, b2, P + 1)
        wgt = np.ones(P + 1); wgt[1:-1:2] = 4; wgt[2:-1:2] = 2
        ws.append(wgt * (b2 - a2) / P / 3)
        ts.append(x)
    t = np.concatenate(ts); wv = np.concatenate(ws)
    y = np.asarray(f(t), dtype=float)
    if y.shape != t.shape:
        y = np.broadcast_to(y, t.shape)
    return t, wv, y

def oracle_coefficients(ctx, out, case, ns):
    """the implementation's reported coefficients against quadrature of its own time function"""
    try:
        w, h = make_impl(case)
        f = w.time_function
    except Exception as e:
        out.spec_fail(dict(op='coefficient', wave=case['wavetype'], symptom='raises', exc=etag(e)),
                      f'no Fourier series for wave type {case["wavetype"]!r}: {etag(e)}', pretty(case),
                      impl=dict(exception=repr(e)), case=case)
        return
    T = case['period']; A = abs(case['amplitude']); off = abs(case['offset'])
    nmax = max([abs(n) for n in ns] + [1])
    panels = max(4096, 120 * nmax)
    t, wv, y = sample_function(f, case, panels)
    scale = A + off
    tol = 2e-6 * scale + 1e-300
    for n in sorted(ns, key=lambda k: (abs(k), k < 0)):
        out.evaluations += 1
        try:
            amp = float(h.amplitude(n)); ph = float(h.phase(n)); cn = complex(h.c(n))
            a = float(h.a(n)); b = float(h.b(n))
            amp_m = float(h.amplitude(-n)); ph_m = float(h.phase(-n)); c_m = complex(h.c(-n))
        except Exception as e:
            out.spec_fail(dict(canon_of(case, n, 'raises', 'any'), exc=etag(e)), f'coefficient of order {n} raises {etag(e)}',
                          pretty(case), impl=dict(exception=repr(e)), case=case, n=n)
            continue
        vals = [amp, ph, a, b, cn.real, cn.imag]
        if not all(math.isfinite(v) for v in vals):
            out.spec_fail(canon_of(case, n, 'non_finite', 'any'), f'non-finite coefficient of order {n}', pretty(case),
                          impl=dict(amplitude=amp, phase=ph, a=a, b=b, c=str(cn)), case=case, n=n)
            continue
        true = complex(np.sum(wv * y * np.exp(-2j * np.pi * n * t / T)) / T)
        if n == 0:
            claimed = complex(amp, 0.0)
        elif n > 0:
            claimed = amp / 2 * np.exp(1j * ph)
        else:
            claimed = None          # the property speaks about the pair for n ≥ 0 and about c(n) for n ≠ 0
        if claimed is not None and abs(true - claimed) > tol:
            out.spec_fail(canon_of(case, n, 'not_true_coefficient', 'amplitude_phase'),
                          f'amplitude/phase of order {n} is not the Fourier coefficient of the time function',
                          pretty(case), impl=dict(amplitude=amp, phase=ph, claimed=str(claimed)),
                          spec=dict(quadrature=str(true), tol=tol), case=case, n=n)
        if n != 0 and abs(true - cn) > tol:
            out.spec_fail(canon_of(case, n, 'not_true_coefficient', 'c'),
                          f'c({n}) is not the complex Fourier coefficient of the time function',
                          pretty(case), impl=dict(c=str(cn)), spec=dict(quadrature=str(true), tol=tol), case=case, n=n)
        rtol = 1e-12 * (1 + abs(amp))
        if abs(a - amp * math.cos(ph)) > rtol or abs(b + amp * math.sin(ph)) > rtol \
                or (n >= 1 and abs(cn - (a - 1j * b) / 2) > rtol):
            out.spec_fail(canon_of(case, n, 'abc_inconsistent', 'abc'), f'a/b/c({n}) inconsistent with amplitude/phase',
                          pretty(case), impl=dict(amplitude=amp, phase=ph, a=a, b=b, c=str(cn)), case=case, n=n)
        if abs(c_m - cn.conjugate()) > rtol:
            out.spec_fail(canon_of(case, n, 'conj', 'c'), f'c({-n}) ≠ conj c({n})', pretty(case),
                          impl=dict(c_n=str(cn), c_minus_n=str(c_m)), case=case, n=n)
        if abs(amp_m - amp) > rtol or abs(ph_m + ph) > 1e-12 * (1 + abs(ph)):
            out.spec_fail(canon_of(case, n, 'neg_index', 'amplitude_phase'),
                          f'amplitude/phase({-n}) ≠ (amplitude, −phase)({n})', pretty(case),
                          impl=dict(amplitude=(amp, amp_m), phase=(ph, ph_m)), case=case, n=n)
    # reconstruction in the mean square: ‖f − (a₀ + Σ_{n≤M} aₙ cos(nω₀t + φₙ))‖² ≤ tail bound
    M = 48
    try:
        S = np.full(t.shape, float(h.amplitude(0)))
        for k in range(1, M + 1):
            S = S + float(h.amplitude(k)) * np.cos(2 * np.pi * k * t / T + float(h.phase(k)))
        err = float(np.sum(wv * (y - S) ** 2) / T)
        out.evaluations += 1
        if not (err <= (A * A) / M + 1e-6 * (scale ** 2) + 1e-300):
            out.spec_fail(dict(op='coefficient', wave=case['wavetype'], symptom='reconstruction',
                               negative_amplitude=case['amplitude'] < 0, zero_amplitude=case['amplitude'] == 0,
                               zero_offset=case['offset'] == 0, revisit=bool(case.get('prelude'))),
                          'the amplitude/phase reconstruction does not converge to the time function in the mean square',
                          pretty(case), impl=dict(mean_square_error=err, terms=M), spec=dict(bound=(A * A) / M), case=case, n=0)
    except Exception as e:
        out.spec_fail(dict(op='coefficient', wave=case['wavetype'], symptom='raises', exc=etag(e)),
                      f'reconstruction raises {etag(e)}', pretty(case), impl=dict(exception=repr(e)), case=case, n=0)
    # Bessel / Parseval: Σ_{n≤N} |c_n|² ≤ mean square ≤ Σ_{n≤N} + tail bound
    N = 400
    try:
        ms = float(np.sum(wv * y * y) / T)
        amps = np.array([float(h.amplitude(k)) for k in range(N + 1)])
        partial = amps[0] ** 2 + float(np.sum(amps[1:] ** 2) / 2)
        out.evaluations += 1
        if partial > ms + 1e-6 * (scale ** 2) or partial < ms - (A * A) / N - 1e-6 * (scale ** 2):
            out.spec_fail(dict(op='coefficient', wave=case['wavetype'], symptom='parseval',
                               negative_amplitude=case['amplitude'] < 0, zero_amplitude=case['amplitude'] == 0,
                               zero_offset=case['offset'] == 0, revisit=bool(case.get('prelude'))),
                          'Parseval/Bessel: Σ|amplitude|² does not match the mean square of the time function',
                          pretty(case), impl=dict(partial_sum=partial), spec=dict(mean_square=ms), case=case, n=0)
    except Exception as e:
        out.spec_fail(dict(op='coefficient', wave=case['wavetype'], symptom='raises', exc=etag(e)),
                      f'Parseval check raises {etag(e)}', pretty(case), impl=dict(exception=repr(e)), case=case, n=0)

# --------------------------------------------------------------------------- oracle: the time function does not depend on the dtype of t

DTYPE_INSTANTS = list(range(-3, 12))

def oracle_time_dtypes(ctx, out, case):
    """`time_function(t)` on int64 / int32 / float32 arrays, 0-d arrays, numpy and Python scalars must give the values of the
    float64 evaluation at the same instants (a waveform is a function of time, not of the container the instants come in)"""
    try:
        w = getattr(pfmod(), case['cls'])(case['period'], case['amplitude'], case['phase'], case['offset'])
        f = w.time_function
        t64 = np.array(DTYPE_INSTANTS, dtype=np.float64)
        ref = np.asarray(f(t64), dtype=float)
        if ref.shape != t64.shape:
            ref = np.broadcast_to(ref, t64.shape)
    except Exception as e:
        out.spec_fail(dict(op='time_function', wave=case['wavetype'], symptom='raises', exc=etag(e), dtype='float64', kind='array'),
                      f'time_function raises {etag(e)} on a float64 array', pretty(case), impl=dict(exception=repr(e)), case=case, probe='dtype')
        return
    A = abs(case['amplitude']); scale = A + abs(case['offset']) + 1e-300
    T = case['period']
    jumpy = case['cls'] in ('RectFunction', 'TriFunction', 'SawFunction')
    def far_from_jump(tv):
        if not jumpy: return True
        u = ((tv + case['phase'] / 2 / math.pi * T) % T) / T
        return min(abs(u), abs(u - 0.5), abs(u - 1.0)) > 1e-3
    def report(kind, dtype, tv, got, want, tol):
        out.spec_fail(dict(op='time_function', wave=case['wavetype'], symptom='dtype_dependent', dtype=dtype, kind=kind,
                           negative_amplitude=case['amplitude'] < 0, zero_offset=case['offset'] == 0),
                      f'time_function({kind} of {dtype}) differs from its value on float64 at the same instant',
                      pretty(case), impl=dict(t=tv, value=got), spec=dict(float64_value=want, tol=tol), case=case, probe='dtype')
    # arrays
    for dt, rel in (('int64', 1e-12), ('int32', 1e-12), ('float32', 2e-5)):
        out.evaluations += 1
        try:
            y = np.asarray(f(np.array(DTYPE_INSTANTS, dtype=dt)), dtype=float)
            if y.shape != t64.shape:
                y = np.broadcast_to(y, t64.shape)
        except Exception as e:
            out.spec_fail(dict(op='time_function', wave=case['wavetype'], symptom='raises', exc=etag(e), dtype=dt, kind='array'),
                          f'time_function raises {etag(e)} on an array of {dt}', pretty(case), impl=dict(exception=repr(e)), case=case, probe='dtype')
            continue
        tol = rel * scale * (1 + (abs(case['phase']) + 2 * math.pi * 12 / T if dt == 'float32' else 0))
        for tv, got, want in zip(DTYPE_INSTANTS, y, ref):
            if dt == 'float32' and not far_from_jump(tv):
                out.skip('time_function:float32_tie_margin'); continue
            if not (abs(got - want) <= tol):
                report('array', dt, tv, float(got), float(want), tol); break
        else:
            out.count('dtype:' + dt)
    # 0-d arrays and scalars
    probes = [('0d', 'float64', lambda v: np.array(float(v))), ('0d', 'int64', lambda v: np.array(int(v))),
              ('scalar', 'np.float64', lambda v: np.float64(v)), ('scalar', 'np.int64', lambda v: np.int64(v)),
              ('scalar', 'np.float32', lambda v: np.float32(v)),
              ('scalar', 'python float', lambda v: float(v)), ('scalar', 'python int', lambda v: int(v))]
    for kind, dt, mk in probes:
        for tv in (3, -2, 7):
            out.evaluations += 1
            want = float(ref[DTYPE_INSTANTS.index(tv)])
            try:
                got = np.asarray(f(mk(tv)), dtype=float)
            except (AttributeError, TypeError) as e:
                # a class that does not accept this container at all (ConstantFunction needs `.shape`): not a wrong value
                out.skip(f'time_function:{case["wavetype"]}:{dt}:unsupported({etag(e)})'); break
            except Exception as e:
                out.spec_fail(dict(op='time_function', wave=case['wavetype'], symptom='raises', exc=etag(e), dtype=dt, kind=kind),
                              f'time_function raises {etag(e)} on a {kind} of {dt}', pretty(case), impl=dict(exception=repr(e)), case=case, probe='dtype')
                break
            if got.size != 1:
                report(kind, dt, tv, got.tolist(), want, 0.0); break
            rel = 2e-5 * (1 + abs(case['phase']) + 2 * math.pi * 12 / T) if dt == 'np.float32' else 1e-12
            if dt == 'np.float32' and not far_from_jump(tv):
                continue
            if not (abs(float(got.reshape(())) - want) <= rel * scale):
                report(kind, dt, tv, float(got.reshape(())), want, rel * scale); break
        else:
            out.count('dtype:' + dt.replace(' ', '_'))


def oracle_lookup(ctx, out):
    pf = pfmod()
    for wt in WAVETYPES:
        out.evaluations += 1
        try:
            cls = pf.periodic_function(wt)
            obj = cls(1.0, 1.0, 0.0, 0.0)
            got = obj.wavetype
            pf.fourier_series(obj)
        except Exception as e:
            out.spec_fail(dict(op='lookup', wavetype=wt, symptom='raises', exc=etag(e)),
                          f'wave type {wt!r}: lookup or fourier_series raises {etag(e)}', wt, impl=dict(exception=repr(e)),
                          lookup=wt)
            continue
        if got != wt:
            out.spec_fail(dict(op='lookup', wavetype=wt, symptom='wrong_waveform'),
                          f'periodic_function({wt!r}) returns a waveform of type {got!r}', wt, impl=dict(cls=cls.__name__),
                          lookup=wt)
    for name in ['', 'Rect', 'rect ', 'COS', 'square', 'constant', 'sine']:
        out.evaluations += 1
        try:
            cls = pf.periodic_function(name)
            out.spec_fail(dict(op='lookup', wavetype='<unknown>', symptom='accepted'),
                          f'unknown wave type {name!r} is accepted', name, impl=dict(cls=cls.__name__), lookup=name)
        except pf.UnknownWavetype:
            pass
        except Exception as e:
            out.spec_fail(dict(op='lookup', wavetype='<unknown>', symptom='raises', exc=etag(e)),
                          f'unknown wave type {name!r}: {etag(e)} instead of UnknownWavetype', name,
                          impl=dict(exception=repr(e)), lookup=name)

def corr_tables(ctx, out, rng):
    drv = ctx.driver
    pf = pfmod()
    m = drv.call('fourier_tables')
    impl = dict(
        mapping=[[k.__name__, v.__name__] for k, v in pf.fourier_series_mapping.items()],
        periodic_functions=[c.__name__ for c in pf.periodic_functions],
        waves=[[w[0], getattr(pf, w[0]).wavetype] for w in m['waves'] if hasattr(pf, w[0])])
    out.evaluations += 1
    if impl['mapping'] != m['mapping'] or impl['periodic_functions'] != m['periodic_functions'] or impl['waves'] != m['waves']:
        out.disagree('fourier_tables', None, impl, m)
    else:
        out.traces_validated += 1
    names = WAVETYPES + ['', 'Rect', 'rect ', ' rect', 'COS', 'square', 'const\n', 'sinus', 'tri,saw']
    alphabet = 'constrievaw RCS_'
    for _ in range(30):
        names.append(''.join(rng.choice(alphabet) for _ in range(rng.randint(0, 6))))
    for name in names:
        out.evaluations += 1
        try:
            iv = dict(ok=pf.periodic_function(name).__name__)
        except Exception as e:
            iv = dict(err=etag(e))
        mv = drv.call('fourier_lookup', wavetype=name)
        if iv != mv:
            out.disagree('periodic_function', name, iv, mv)
        else:
            out.traces_validated += 1
        out.count('lookup:' + ('known' if 'ok' in iv else 'unknown'))

# --------------------------------------------------------------------------- generation

CLS = {'const': 'ConstantFunction', 'cos': 'CosFunction', 'sin': 'SinFunction', 'rect': 'RectFunction',
       'tri': 'TriFunction', 'saw': 'SawFunction'}

def decade(rng, lo, hi):
    return float(f'{10 ** rng.uniform(lo, hi):.6g}')

def random_case(rng, wt):
    T = rng.choice([1.0, 2.0, 0.5, 0.02, 2 * math.pi, decade(rng, -3, 3), decade(rng, -1, 1)])
    A = rng.choice([1.0, -1.0, 2.5, decade(rng, -3, 4), -decade(rng, -3, 4), decade(rng, -1, 1)])
    ph = rng.choice([0.0, math.pi / 2, -math.pi / 3, 1.0, rng.uniform(-math.pi, math.pi), rng.uniform(-200.0, 200.0),
                     2 * math.pi * rng.randint(-20, 20) + rng.uniform(-1, 1), rng.uniform(-7.0, 7.0)])
    off = rng.choice([0.0, 0.0, 1.0, -0.75, decade(rng, -3, 3), -decade(rng, -3, 3)])
    return dict(wavetype=wt, cls=CLS[wt], period=T, amplitude=A, phase=ph, offset=off)

CORPUS = [
    dict(wavetype='rect', cls='RectFunction', period=2.0, amplitude=-3.0, phase=0.5, offset=1.0),
    dict(wavetype='saw', cls='SawFunction', period=0.02, amplitude=1.5, phase=-40.0, offset=-2.0),
    dict(wavetype='tri', cls='TriFunction', period=2 * math.pi, amplitude=-0.25, phase=13.0, offset=0.0),
    dict(wavetype='sin', cls='SinFunction', period=1.0, amplitude=-2.0, phase=100.0, offset=0.5),
    dict(wavetype='cos', cls='CosFunction', period=3.0, amplitude=1e3, phase=-1.0, offset=-1e-2),
    dict(wavetype='const', cls='ConstantFunction', period=1.0, amplitude=-4.0, phase=0.3, offset=2.0),
    dict(wavetype='const', cls='ConstantFunction', period=4.0, amplitude=2.5, phase=0.0, offset=0.0),
    dict(wavetype='const', cls='ConstantFunction', period=4.0, amplitude=-0.75, phase=0.0, offset=0.0),
    dict(wavetype='rect', cls='RectFunction', period=7.5, amplitude=2.5, phase=0.7, offset=-0.75),
    dict(wavetype='tri', cls='TriFunction', period=7.5, amplitude=-0.75, phase=-2.0, offset=1.25),
    dict(wavetype='saw', cls='SawFunction', period=3.0, amplitude=2.5, phase=0.7, offset=1.25),
]

GRID_AMPLITUDES = [1.0, -1.0, 0.0, 1e-9, -1e-9]
GRID_OFFSETS = [0.0, 1.0, -1.0, 1e6]
GRID_PERIODS = [1.0, 1e-6, 1e6, 0.02]

def grid_cases(quick):
    """boundary values, visited so that the same (type, amplitude, phase) comes back with another offset later in the
    same process (state kept between calls — caches, mutated defaults — shows up as a stale coefficient object)"""
    phases = [0.0, math.pi / 2, -math.pi / 2, math.pi, 2 * math.pi * 100 + math.pi / 2]
    if not quick:
        phases += [2 * math.pi, -3 * math.pi / 2, 2 * math.pi * 1000, 1.0]
    seen = {}
    for off in GRID_OFFSETS:
        for wt in WAVETYPES:
            for ia, A in enumerate(GRID_AMPLITUDES):
                for ip, ph in enumerate(phases):
                    T = GRID_PERIODS[(ia + ip) % len(GRID_PERIODS)]
                    key = (wt, A, ph)
                    case = dict(wavetype=wt, cls=CLS[wt], period=T, amplitude=A, phase=ph, offset=off,
                                prelude=list(seen.get(key, [])))
                    yield case
                    seen.setdefault(key, []).append({k: v for k, v in case.items() if k != 'prelude'})

def pick_ns(rng, k, nmax):
    base = [0, 1, -1, 2, -2, 3, -3, 4, 5, nmax, -nmax, nmax - 1, -(nmax - 1)]
    return sorted(set(base + [rng.randint(-nmax, nmax) for _ in range(k)]))

def pick_ts(rng, case, k):
    T = case['period']
    ts = [0.125 * T, -0.3 * T, 0.7 * T]
    for _ in range(k):
        ts.append(rng.choice([rng.uniform(-3, 3) * T, rng.randint(-64, 64) / 32.0 * T + T / 7, rng.uniform(0, 1) * T]))
    return [float(t) for t in ts]

def check_case(ctx, out, case, ns_corr, ns_oracle, ts):
    if ctx.driver is not None:
        corr_coefficients(ctx, out, case, ns_corr)
        corr_time(ctx, out, case, ts)
    oracle_coefficients(ctx, out, case, ns_oracle)
    oracle_time_dtypes(ctx, out, case)

def run(ctx, out):
    out.rule = ('six wave types × periods / amplitudes over decades (either sign) × phases over many turns × offsets; '
                'orders n ∈ [−400, 400]; a case is non-trivial per (wave, order zero/odd/even, sign of n, sign of amplitude, '
                'turns of phase (0,1,2,≥3), zero offset) — distinct keys counted')
    rng = ctx.rng('cases')
    if ctx.driver is not None:
        corr_tables(ctx, out, ctx.rng('lookup'))
    oracle_lookup(ctx, out)
    per_wave = 14 if ctx.quick else 150
    cases = list(CORPUS)
    for wt in WAVETYPES:
        for _ in range(per_wave):
            cases.append(random_case(rng, wt))
    for case in CORPUS:                      # readable counterexamples first
        oracle_time_dtypes(ctx, out, case)
    # boundary grid with revisits (implementation-side oracle only; evaluated first, in one fixed order)
    n_grid = 0
    for case in grid_cases(ctx.quick):
        if ctx.time_left() < 40:
            out.notes.append(f'grid stopped after {n_grid} cases (budget)'); break
        oracle_coefficients(ctx, out, case, [0, 1, 2, 3, -1])
        oracle_time_dtypes(ctx, out, case)
        out.count('grid:' + case['wavetype'])
        out.count('grid:revisit' if case['prelude'] else 'grid:first')
        out.nontrivial(('grid', case['wavetype'], case['amplitude'], case['offset'] == 0, bool(case['prelude'])))
        n_grid += 1
    out.extra['grid_cases'] = n_grid
    # objects re-tuned in place (implementation-side oracle; the exact model has no objects)
    rngr = ctx.rng('retune')
    for wt in WAVETYPES:
        for _ in range(3 if ctx.quick else 40):
            if ctx.time_left() < 30: break
            a, b = random_case(rngr, wt), random_case(rngr, wt)
            keep = rngr.choice(['phase', 'period', 'all', 'amplitude'])
            first = {k: (a[k] if keep in (k, 'all') else b[k]) for k in ('period', 'amplitude', 'phase', 'offset')}
            case = dict(b, retune_from=first)
            oracle_coefficients(ctx, out, case, [0, 1, 2, 3, -1, 5])
            out.count('retuned:' + wt); out.nontrivial(('retuned', wt, keep))
    for i, case in enumerate(cases):
        if ctx.time_left() < 15:
            out.notes.append(f'stopped after {i} of {len(cases)} cases (budget)'); break
        if ctx.quick:
            ns_corr = pick_ns(rng, 60, 400)
            ns_or = [n for n in pick_ns(rng, 6, 40) if abs(n) <= 40]
        else:
            ns_corr = list(range(-400, 401)) if i % 4 == 0 else pick_ns(rng, 120, 400)
            ns_or = pick_ns(rng, 10, 400 if i % 5 == 0 else 60)
            ns_or = [n for n in ns_or if abs(n) <= (400 if i % 5 == 0 else 60)]
        check_case(ctx, out, case, ns_corr, ns_or, pick_ts(rng, case, 6 if ctx.quick else 20))
        out.sample(dict(case=pretty(case), orders=ns_or[:6]))

def replay(ctx, out, rp):
    if rp.get('lookup') is not None and rp.get('case') is None:
        oracle_lookup(ctx, out)
        if ctx.driver is not None:
            corr_tables(ctx, out, ctx.rng('lookup'))
        return
    case = rp.get('case')
    if case is None:
        raise SystemExit('replay file carries no waveform case')
    if rp.get('probe') == 'dtype':
        oracle_time_dtypes(ctx, out, case)
        return
    for earlier in case.get('prelude') or []:
        try:
            make_impl(earlier)          # bring the process into the state the failing call was made in
        except Exception:
            pass
    n = rp.get('n', 0)
    ns = sorted({0, 1, n, -n})
    check_case(ctx, out, case, ns, ns, [0.125 * case['period']])
