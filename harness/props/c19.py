"""
C19 — malformed circuits are rejected, not reinterpreted.

Fault enumeration on the real code: every fault class injected at every position of valid
descriptions (thorough: all positions of lists up to length 5; quick: random positions of
lists up to length 12), the boundary value exactly 0, unknown identifiers against all five
solution classes, the loaders (load_network, generate_component, undictify_circuit),
periodic_function and the declarative front end create_schematic.

Oracle    "a malformed description raises; an accepted one is stored unaltered; the input is
          not modified" — evaluated on the implementation.
Correspondence  the model (driver ops cc_network, cc_circuit, cc_construct, cc_generate,
          cc_undictify, cc_load, cc_periodic_function, cc_solution) on the same inputs:
          same exception class / same stored value.
"""
from __future__ import annotations
import copy, itertools, math
import numpy as np
import core, gen_circuit as gc, gen_net

ID = 'C19'
LEAN_MODULE = 'CC.Properties.C19'
LEVEL = 'proof'
THEOREMS = [
    'CC.C19_dup_id_network', 'CC.C19_dup_id', 'CC.C19_dup_id_positions', 'CC.C19_dup_id_exception',
    'CC.C19_floating_ground', 'CC.C19_floating_ground_circuit', 'CC.C19_multi_ground', 'CC.C19_multi_ground_exception', 'CC.C19_mk_accepts',
    'CC.C19_negative_table', 'CC.C19_guards_are_sign_guards', 'CC.C19_rated_voltage_positive', 'CC.C19_fundamental_positive', 'CC.C19_only_rated_voltage_strict',
    'CC.C19_negative', 'CC.C19_negative_first', 'CC.C19_zero_passes_guards', 'CC.C19_zero_accepted',
    'CC.C19_any_bad_entry_rejects', 'CC.C19_first_bad_entry', 'CC.C19_unknown_kind', 'CC.C19_missing_field',
    'CC.C19_missing_value_key', 'CC.bindParams_missing', 'CC.bindParams_lookup',
    'CC.C19_unknown_wave', 'CC.C19_unknown_wave_generated', 'CC.C19_wave_checked', 'CC.C19_unknown_wave_construct',
    'CC.C19_unknown_query', 'CC.C19_unknown_query_potential', 'CC.C19_unknown_query_wrappers', 'CC.C19_unknown_query_guarded',
    'CC.C19_stored_unaltered', 'CC.C19_param_stored',
    # round 5 (CC/Properties/C19More.lean, helpers CC/Proofs/C19Load.lean)
    'CC.C19_load_reject_first', 'CC.C19_load_reject_mem', 'CC.C19_load_unknown_type', 'CC.C19_load_unknown_type_anywhere',
    'CC.C19_load_type_not_string', 'CC.C19_load_missing_key', 'CC.C19_load_missing_key_anywhere', 'CC.C19_load_missing_value_key',
    'CC.C19_load_not_a_dict', 'CC.C19_load_floating', 'CC.C19_load_dup_id', 'CC.C19_load_dup_id_positions',
    'CC.C19_transient_unknown_voltage', 'CC.C19_transient_unknown_potential', 'CC.C19_transient_unknown_current',
    'CC.C19_transient_unknown_built', 'CC.C19_unknown_query_all_rows',
    'CC.C19_wave_tables_agree', 'CC.C19_unknown_wave_linked',
]
LEAN_MODULE_EXTRA = ['CC.Properties.C19More']
# translator tie of the TransientSolution getters (harness/extract_solution.py -> Gen.Sol.transientTable; reading: CC/Model/TransientGetters.lean)
THEOREMS += ['CC.C19_transient_table_shape', 'CC.C19_transient_getters_call_rows', 'CC.C19_transient_accessors_bound',
             'CC.C19_transient_unknown_getter', 'CC.C19_transient_unknown_getter_built']
LEAN_MODULE_EXTRA = list(LEAN_MODULE_EXTRA) + ['CC.Properties.C19Transient']
OPEN_STATEMENTS = ['no Lean statement (oracle only): create_schematic fault classes; for TransientSolution: what __post_init__ stores in _ssm / _x / _u beyond the constructor call the translator records (Gen.Sol.transientSsm) — the getters themselves ARE extracted (Gen.Sol.transientTable) and C19_transient_unknown_getter proves that every getter raises for an unknown id, for every model object and arbitrary _x, _u; the evaluator of the generated expression trees and the binding of the accessor names to the generated functions (transientGetter, ssmAccessor in CC/Model/TransientGetters.lean) are hand-written readings of the table; numpy shape errors are not modelled; unknown ids against the series the Time/FrequencyDomainSolution getters compute after their guard',
                   'load_network fault classes (C19_load_*) are theorems about the model loadNetwork of CC/Model/Load.lean on the GENERATED tables of CC/Gen/LoadTables.lean; the model body is hand-written and tied to the code by the cc_load correspondence. C19_load_missing_value_key states rejection, not the exception class (KeyError->FileExistsError, TypeError or FileFormatError depending on the table row). A description that is a dict or a str (iterated by keys / characters) is covered by C19_load_not_a_dict only through its .arr form — the .obj / .str branches of loadNetwork have no fault theorem',
                   'conjuncts 3-4 of C19_unknown_query_guarded and C19_unknown_query_all_rows are about the hand-written copies requireComponent / requireNode (the _require_* bodies are compared verbatim by the translator); C19_unknown_wave is about the hand-written periodicFunction, which C19_unknown_wave_linked proves equivalent, for every name and on the generated table, to the generated lookup Gen.Fourier.periodicFunction']
ASSUMPTIONS = [
    'Python keyword binding (missing / unexpected keyword ⇒ TypeError) and comparison of a str or complex with a number (⇒ TypeError) are modelled as such',
    'the series computed by the time- and frequency-domain getters and create_schematic are not modelled (which row accessor each TransientSolution getter calls is extracted: Gen.Sol.transientTable, C19_transient_getters_call_rows): those fault classes are checked on the implementation only; load_network is modelled by CC/Model/Load.lean (hand-written body over generated tables, correspondence cc_load)',
    'the hand-written model (Circuit.mk?, generateComponent, elmLoad, periodicFunction) is tied to the code by the correspondence only; constructor guards and tables are regenerated from the source',
]

NAMED = ['R', 'G', 'C', 'L', 'w', 'P', 'V_ref']

def attempt(f):
    try:
        return ('ok', f())
    except Exception as e:
        return ('err', e)

def expect_raises(out, canon, what, inp, res, **kw):
    """oracle: the fault must be rejected"""
    if res[0] == 'ok':
        out.spec_fail(dict(canon, symptom='accepted'), what + ' is accepted', inp, impl=repr(res[1])[:300], **kw)
        return False
    return True

def agree_err(out, op, inp, res, m):
    """correspondence on the outcome class"""
    it = gc.tag(res[1]) if res[0] == 'err' else 'ok'
    mt = m.get('err', 'ok')
    if it != mt:
        out.disagree(op, inp, it, mt)
        return False
    return True

# --------------------------------------------------------------------------- A. Network(...)

def check_networks(ctx, out):
    from CircuitCalculator.Network.network import Network, Branch
    drv = ctx.driver
    rng = ctx.rng('network')
    n_cases = 60 if ctx.quick else 800
    for _ in range(n_cases):
        desc = gen_net.random_desc(rng, exact=True, n_nodes=rng.randint(2, 5))
        branches = desc['branches']
        n = len(branches)
        if not ctx.quick and n > 5:
            branches = branches[:5]; n = 5
        def build(bl, zero):
            return Network([Branch(d['n1'], d['n2'], gen_net.make_element(d)) for d in bl], zero)
        labels = {d['n1'] for d in branches} | {d['n2'] for d in branches}
        zero = desc['zero'] if desc['zero'] in labels else sorted(labels)[0]
        base = attempt(lambda: build(branches, zero))
        out.evaluations += 1
        if base[0] != 'ok':
            out.spec_fail(dict(op='Network', fault='none', symptom='rejected'), 'a valid network is rejected', gen_net.pretty(desc), impl=repr(base[1]))
            continue
        if [b.id for b in base[1].branches] != [d['id'] for d in branches] or base[1].node_zero_label != zero:
            out.spec_fail(dict(op='Network', fault='none', symptom='altered'), 'an accepted network is not stored as given', gen_net.pretty(desc))
        pairs = list(itertools.combinations(range(n), 2))
        if ctx.quick: pairs = rng.sample(pairs, min(3, len(pairs)))
        for i, j in pairs:                                     # duplicate id at positions (i, j)
            bl = copy.deepcopy(branches); bl[j]['id'] = bl[i]['id']
            res = attempt(lambda: build(bl, zero))
            out.evaluations += 1; out.count('fault:network_dup_id')
            inp = dict(branches=[f"{d['id']}({d['n1']},{d['n2']})" for d in bl], zero=zero, positions=[i, j])
            if expect_raises(out, dict(op='Network', fault='dup_id'), 'a network with duplicate branch ids', inp, res):
                out.nontrivial(('network_dup', n, i, j))
            if drv is not None:
                jn = dict(branches=[gen_net.branch_json(Branch(d['n1'], d['n2'], gen_net.make_element(d))) for d in bl], zero=zero)
                agree_err(out, 'cc_network', inp, res, drv.call('cc_network', net=jn)); out.traces_validated += 1
        for z in ['__nowhere__', '', zero + ' ']:               # reference node that touches no element
            if z in labels: continue
            res = attempt(lambda: build(branches, z))
            out.evaluations += 1; out.count('fault:network_floating_ground')
            inp = dict(branches=[f"{d['id']}({d['n1']},{d['n2']})" for d in branches], zero=z)
            if expect_raises(out, dict(op='Network', fault='floating_ground'), 'a network whose reference node touches no element', inp, res):
                out.nontrivial(('network_float', n, z))
            if drv is not None:
                jn = dict(branches=[gen_net.branch_json(Branch(d['n1'], d['n2'], gen_net.make_element(d))) for d in branches], zero=z)
                agree_err(out, 'cc_network', inp, res, drv.call('cc_network', net=jn)); out.traces_validated += 1

# --------------------------------------------------------------------------- B. Circuit(...)

KINDS_B = ['resistor', 'capacitor', 'inductance', 'impedance', 'lamp', 'dc_voltage_source', 'ac_voltage_source',
           'dc_current_source', 'ac_current_source', 'short_circuit', 'conductance', 'periodic_voltage_source']
SOLUTION_CLASSES = ['DCSolution', 'ComplexSolution', 'TimeDomainSolution', 'FrequencyDomainSolution', 'TransientSolution']

def make_solution(cls, C, w_max=4.0):
    from CircuitCalculator.Circuit import solution as sol
    if cls == 'DCSolution': return sol.DCSolution(C)
    if cls == 'ComplexSolution': return sol.ComplexSolution(C, w=1.0)
    if cls == 'TimeDomainSolution': return sol.TimeDomainSolution(C, w_max=w_max)
    if cls == 'FrequencyDomainSolution': return sol.FrequencyDomainSolution(C, w_max=w_max)
    if cls == 'TransientSolution':
        srcs = {c.id: (lambda t: np.ones(np.shape(t))) for c in C.components if 'source' in c.type}
        return sol.TransientSolution(C, tin=np.linspace(0, 1, 5), input=srcs)
    raise ValueError(cls)

def check_circuits(ctx, out):
    from CircuitCalculator.Circuit import circuit as cc
    drv = ctx.driver
    rng = ctx.rng('circuit')
    n_cases = 60 if ctx.quick else 1500
    for _ in range(n_cases):
        if ctx.time_left() < 30: out.notes.append('circuit faults cut by budget'); break
        descs = gc.random_circuit(rng, KINDS_B, exact=True, n_nodes=rng.randint(2, 4) if not ctx.quick else rng.randint(2, 6),
                                  ground=rng.random() < 0.5, freqs=[1.0, 2.0])
        if not ctx.quick and len(descs) > 5:
            continue
        comps = [gc.build(d) for d in descs]
        n = len(comps)
        inp0 = gc.pretty(descs)
        base = attempt(lambda: cc.Circuit(list(comps)))
        out.evaluations += 1
        if base[0] != 'ok':
            out.spec_fail(dict(op='Circuit', fault='none', symptom='rejected'), 'a valid circuit is rejected', inp0, impl=repr(base[1])); continue
        if base[1].components != comps:
            out.spec_fail(dict(op='Circuit', fault='none', symptom='altered'), 'an accepted circuit is not stored as given', inp0)
        if drv is not None:
            m = drv.call('cc_circuit', components=[gc.comp_json(c) for c in comps])
            if agree_err(out, 'cc_circuit', inp0, base, m) and m['ok']['ground'] != base[1].ground_node:
                out.disagree('cc_circuit.ground', inp0, base[1].ground_node, m['ok']['ground'])
            out.traces_validated += 1
        import dataclasses
        pairs = list(itertools.combinations(range(n), 2))
        if ctx.quick: pairs = rng.sample(pairs, min(4, len(pairs)))
        for i, j in pairs:                                     # duplicate id
            cl = list(comps); cl[j] = dataclasses.replace(cl[j], id=cl[i].id)
            res = attempt(lambda: cc.Circuit(cl))
            out.evaluations += 1; out.count('fault:circuit_dup_id')
            inp = dict(components=inp0, positions=[i, j])
            if expect_raises(out, dict(op='Circuit', fault='dup_id'), 'a circuit with duplicate component ids', inp, res):
                out.nontrivial(('circuit_dup', n, i, j))
            if drv is not None:
                agree_err(out, 'cc_circuit', inp, res, drv.call('cc_circuit', components=[gc.comp_json(c) for c in cl])); out.traces_validated += 1
        from CircuitCalculator.Circuit import components as ccp
        no_ground = [c for c in comps if c.type != 'ground']
        m_ = len(no_ground)
        slots = list(itertools.combinations_with_replacement(range(m_ + 1), 2))
        if ctx.quick: slots = rng.sample(slots, min(4, len(slots)))
        for i, j in slots:                                     # two grounds at insertion slots i ≤ j
            cl = list(no_ground)
            cl.insert(j, ccp.ground(id='gB', nodes=(no_ground[0].nodes[0],)))
            cl.insert(i, ccp.ground(id='gA', nodes=(no_ground[-1].nodes[-1],)))
            res = attempt(lambda: cc.Circuit(cl))
            out.evaluations += 1; out.count('fault:multi_ground')
            inp = dict(components=[f'{c.id}:{c.type}' for c in cl])
            if expect_raises(out, dict(op='Circuit', fault='multi_ground'), 'a circuit with two grounds', inp, res):
                out.nontrivial(('multi_ground', m_, i, j))
            if drv is not None:
                agree_err(out, 'cc_circuit', inp, res, drv.call('cc_circuit', components=[gc.comp_json(c) for c in cl])); out.traces_validated += 1
        # ground at a node no component touches: must be rejected at construction or by every analysis
        pos = rng.randrange(m_ + 1)
        cl = list(no_ground); cl.insert(pos, ccp.ground(id='gF', nodes=('__nowhere__',)))
        res = attempt(lambda: cc.Circuit(cl))
        out.evaluations += 1; out.count('fault:circuit_floating_ground')
        if res[0] == 'ok':
            out.count('floating_ground_accepted_by_Circuit_constructor')
            for cls in SOLUTION_CLASSES:
                r2 = attempt(lambda: make_solution(cls, res[1]))
                out.evaluations += 1
                if expect_raises(out, dict(op='solution_of_floating_ground', cls=cls, fault='floating_ground'),
                                 f'{cls} of a circuit whose ground touches no component', dict(components=[f'{c.id}:{c.type}' for c in cl]), r2):
                    out.nontrivial(('circuit_float', cls))

FAMILIES = ['sources', 'passive', 'complex_only']

def check_analysis_faults(ctx, out):
    """faults that `Circuit(...)` itself does not see — a ground on a node no component touches, a component of a
    type no translator knows (built directly) — must be rejected by EVERY solution class, also when the circuit
    has no frequency component at all (passive only, complex sources only)"""
    from CircuitCalculator.Circuit import circuit as cc, components as ccp
    rng = ctx.rng('analysis_faults')
    for family in FAMILIES:
        for rep in range(2 if ctx.quick else 12):
            descs, w_max = query_circuit(rng, family)
            comps = [gc.build(d) for d in descs if d['fn'] != 'ground']
            for fault in ('floating_ground', 'unknown_type'):
                for pos in ({0, len(comps) // 2, len(comps)} if ctx.quick else range(len(comps) + 1)):
                    cl = list(comps)
                    if fault == 'floating_ground':
                        cl.insert(pos, ccp.ground(id='gF', nodes=('__nowhere__',)))
                    else:
                        cl.insert(pos, ccp.Component(type=rng.choice(['nope', '', 'Resistor']), id='X', nodes=(comps[0].nodes[0], comps[0].nodes[-1]), value={}))
                        cl.append(ccp.ground(id='gnd', nodes=(comps[0].nodes[0],)))
                    res = attempt(lambda: cc.Circuit(cl))
                    out.evaluations += 1; out.count(f'fault:analysis_{fault}:{family}')
                    inp = dict(components=[f'{c.id}:{c.type}({",".join(c.nodes)})' for c in cl], family=family, position=pos)
                    if res[0] != 'ok':
                        out.nontrivial(('analysis_fault_rejected_at_construction', fault)); continue
                    for cls in SOLUTION_CLASSES:
                        r2 = attempt(lambda: make_solution(cls, res[1], w_max))
                        out.evaluations += 1
                        if expect_raises(out, dict(op='solution_of_' + fault, cls=cls, fault=fault, family=family),
                                         f'{cls} of a circuit with fault {fault} ({family})', inp, r2):
                            out.nontrivial(('analysis_fault', fault, cls, family))
                    if ctx.driver is not None and fault == 'unknown_type':     # model: the conversion raises KeyError
                        trig, harm = gc.params_for(cl, 0.0)
                        m = ctx.driver.call('cc_transform', components=[gc.comp_json(c) for c in cl], w='0', wres=core.q(1e-3), trig=trig, harm=harm)
                        r3 = attempt(lambda: cc.transform_circuit(res[1], 0.0))
                        agree_err(out, 'cc_transform', inp, r3, m); out.traces_validated += 1

# --------------------------------------------------------------------------- C. constructors

def check_constructors(ctx, out):
    drv = ctx.driver
    rng = ctx.rng('ctor')
    ctors = gc.constructors()
    reps = 6 if ctx.quick else 30
    import inspect
    for fn, f in ctors.items():
        params = list(inspect.signature(f).parameters)[2:]
        for rep in range(reps):
            args = gc.gen_args(rng, fn, exact=True) if fn in gc.ALL_TWO_TERMINAL + ['ground'] else {}
            d = dict(fn=fn, id=f'{fn}_{rep}', nodes=['a', 'b'] if fn != 'ground' else ['a'], args=args)
            res = attempt(lambda: gc.build(d))
            out.evaluations += 1
            if res[0] != 'ok':
                out.spec_fail(dict(op='construct', ctor=fn, fault='none', symptom='rejected'), f'valid call of {fn} is rejected', str(d), impl=repr(res[1])); continue
            c = res[1]
            if (c.id, tuple(c.nodes)) != (d['id'], tuple(d['nodes'])) or any(c.value.get(k) != v for k, v in args.items() if k in c.value):
                out.spec_fail(dict(op='construct', ctor=fn, fault='none', symptom='altered'), f'{fn} does not store its arguments as given', str(d), impl=repr(c))
            if drv is not None:
                m = drv.call('cc_construct', **gc.construct_request(d))
                if agree_err(out, 'cc_construct', str(d), res, m) and gc.comp_json_canon(m['ok']) != gc.comp_canon(c):
                    out.disagree('cc_construct', str(d), gc.comp_canon(c), gc.comp_json_canon(m['ok']))
                out.traces_validated += 1
            for p in params:
                if p not in NAMED: continue
                for val, fault in ((-float(2.0 ** rng.randint(-20, 6)), 'negative'), (0.0, 'zero'), (0, 'zero')):
                    d2 = copy.deepcopy(d); d2['args'][p] = val
                    r = attempt(lambda: gc.build(d2))
                    out.evaluations += 1; out.count(f'fault:{fault}')
                    inp = f'{fn}({p}={val!r})'
                    if fault == 'negative':
                        if expect_raises(out, dict(op='construct', ctor=fn, param=p, fault='negative'), f'{fn} with negative {p}', inp, r):
                            if type(r[1]).__name__ != 'ValueError':
                                out.spec_fail(dict(op='construct', ctor=fn, param=p, fault='negative', symptom='wrong_exception'),
                                              f'{fn} with negative {p} raises {type(r[1]).__name__}', inp)
                            out.nontrivial(('negative', fn, p))
                    elif p == 'V_ref':
                        # a rated voltage of 0 is no boundary value but a fault: the load's admittance P / V_ref² does not exist
                        if expect_raises(out, dict(op='construct', ctor=fn, param=p, fault='zero_rated_voltage'), f'{fn} with V_ref = 0', inp, r):
                            if type(r[1]).__name__ != 'ValueError':
                                out.spec_fail(dict(op='construct', ctor=fn, param=p, fault='zero_rated_voltage', symptom='wrong_exception'),
                                              f'{fn} with V_ref = 0 raises {type(r[1]).__name__}', inp)
                            out.nontrivial(('zero_rated_voltage', fn))
                    elif p == 'w' and fn.startswith('periodic'):
                        # a periodic source needs a finite period: a fundamental of 0 is a fault (for DC / AC sources w = 0 stays legal)
                        if expect_raises(out, dict(op='construct', ctor=fn, param=p, fault='zero_fundamental'), f'{fn} with w = 0', inp, r):
                            if type(r[1]).__name__ != 'ValueError':
                                out.spec_fail(dict(op='construct', ctor=fn, param=p, fault='zero_fundamental', symptom='wrong_exception'),
                                              f'{fn} with w = 0 raises {type(r[1]).__name__}', inp)
                            out.nontrivial(('zero_fundamental', fn))
                    else:
                        if r[0] != 'ok':
                            out.spec_fail(dict(op='construct', ctor=fn, param=p, fault='zero', symptom='rejected'), f'{fn} rejects {p} = 0', inp, impl=repr(r[1]))
                        else:
                            out.nontrivial(('zero', fn, p))
                    if drv is not None:
                        agree_err(out, 'cc_construct', inp, r, drv.call('cc_construct', **gc.construct_request(d2))); out.traces_validated += 1
            if 'wavetype' in params:                           # unknown waveform at construction
                for wt in ('nope', '', 'COS', 'sine'):
                    d2 = copy.deepcopy(d); d2['args']['wavetype'] = wt
                    r = attempt(lambda: gc.build(d2))
                    out.evaluations += 1; out.count('fault:unknown_wavetype')
                    inp = f'{fn}(wavetype={wt!r})'
                    if expect_raises(out, dict(op='construct', ctor=fn, fault='unknown_wavetype'), f'{fn} with unknown wavetype {wt!r}', inp, r):
                        out.nontrivial(('unknown_wave_ctor', fn))
                    if drv is not None:
                        agree_err(out, 'cc_construct', inp, r, drv.call('cc_construct', **gc.construct_request(d2))); out.traces_validated += 1
                    if r[0] == 'ok':                            # … it must at least be rejected when analysed
                        from CircuitCalculator.Circuit import transformers as tr
                        r3 = attempt(lambda: tr.transformers[fn](r[1], 1.0, 1e-3))
                        if r3[0] == 'ok':
                            out.spec_fail(dict(op='transform', ctor=fn, fault='unknown_wavetype', symptom='accepted'),
                                          f'{fn} with unknown wavetype is translated', inp, impl=repr(r3[1]))
            if rep == 0 and drv is not None and params:        # keyword binding (correspondence only)
                for d2 in (dict(d, args={k: v for k, v in list(args.items())[1:]}), dict(d, args=dict(args, bogus=1.0))):
                    r = attempt(lambda: gc.build(d2))
                    out.evaluations += 1; out.count('fault:keyword_binding')
                    agree_err(out, 'cc_construct', str(d2), r, drv.call('cc_construct', **gc.construct_request(d2))); out.traces_validated += 1
    # elm.load reference-value rules
    from CircuitCalculator.Network import elements as elm
    grid = [-1.0, -0.5, 0.0, 0.5, 2.0]
    for V, I in itertools.product(grid, grid):
        P, Q = 4.0, rng.choice([0.0, 1.0])
        r = attempt(lambda: elm.load('X', P, V_ref=V, I_ref=I, Q=Q))
        out.evaluations += 1; out.count('load_rule')
        inp = f'load(P={P}, V_ref={V}, I_ref={I}, Q={Q})'
        valid = (V > 0) != (I > 0)
        if not valid:
            expect_raises(out, dict(op='load', fault='reference_values'), 'a load without exactly one positive reference value', inp, r)
        elif r[0] != 'ok':
            out.spec_fail(dict(op='load', fault='none', symptom='rejected'), 'a valid load is rejected', inp, impl=repr(r[1]))
        else:
            out.nontrivial(('load', V > 0))
        if drv is not None:
            m = drv.call('cc_load', P=core.q(P), V_ref=core.q(V), I_ref=core.q(I), Q=core.q(Q))
            if agree_err(out, 'cc_load', inp, r, m) and r[0] == 'ok':
                same, _ = gc.branches_close(dict(n1='', n2='', id='', e=gc.elem_json(r[1])), dict(n1='', n2='', id='', e=m['ok']))
                if not same: out.disagree('cc_load', inp, gc.elem_json(r[1]), m['ok'])
            out.traces_validated += 1

# --------------------------------------------------------------------------- D. loaders

LOADER_KINDS = ['resistor', 'conductance', 'impedance', 'admittance', 'dc_voltage_source', 'ac_voltage_source',
                'complex_voltage_source', 'dc_current_source', 'ac_current_source', 'complex_current_source']

def desc_json(e):
    return dict(id=e.get('id'), type=e.get('type'), nodes=list(e['nodes']) if 'nodes' in e else None,
                value=gc.pairs_json(e['value']) if 'value' in e else None)

def check_loaders(ctx, out):
    from CircuitCalculator.Circuit import dump_load as dl
    drv = ctx.driver
    rng = ctx.rng('loader')
    n_cases = 40 if ctx.quick else 800
    for _ in range(n_cases):
        if ctx.time_left() < 25: out.notes.append('loader faults cut by budget'); break
        n = rng.randint(1, 12) if ctx.quick else rng.randint(1, 5)
        entries = []
        for i in range(n):
            fn = rng.choice(LOADER_KINDS)
            entries.append(dict(id=f'{fn[:2]}{i}', type=fn, nodes=[f'n{i}', f'n{i + 1}'], value=gc.gen_args(rng, fn, True)))
        def load(es):
            return dl.undictify_circuit({'components': es})
        snapshot = copy.deepcopy(entries)
        base = attempt(lambda: load(entries))
        out.evaluations += 1
        if entries != snapshot:
            out.spec_fail(dict(op='undictify_circuit', fault='none', symptom='input_mutated'), 'undictify_circuit modifies its input', str(snapshot)[:400])
            entries = copy.deepcopy(snapshot)
        if base[0] != 'ok':
            out.spec_fail(dict(op='undictify_circuit', fault='none', symptom='rejected'), 'a valid description is rejected', str(snapshot)[:400], impl=repr(base[1])); continue
        for e, c in zip(entries, base[1].components):
            if (c.id, c.type, tuple(c.nodes)) != (e['id'], e['type'], tuple(e['nodes'])):
                out.spec_fail(dict(op='undictify_circuit', fault='none', symptom='altered'), 'a loaded component differs from its description', str(e), impl=repr(c))
        if drv is not None:
            m = drv.call('cc_undictify', descs=[desc_json(e) for e in entries])
            if agree_err(out, 'cc_undictify', str(entries)[:300], base, m):
                if [gc.comp_json_canon(j) for j in m['ok']['components']] != [gc.comp_canon(c) for c in base[1].components]:
                    out.disagree('cc_undictify', str(entries)[:300], [gc.comp_canon(c) for c in base[1].components], m['ok']['components'])
            out.traces_validated += 1
        positions = range(n) if not ctx.quick else rng.sample(range(n), min(2, n))
        for pos in positions:
            faults = []
            e = entries[pos]
            first_key = next(iter(e['value']), None)
            faults.append(('unknown_kind', dict(e, type='nope')))
            faults.append(('unknown_kind', dict(e, type='ground')))
            for k in ('id', 'type', 'nodes', 'value'):
                faults.append((f'missing_{k}', {kk: vv for kk, vv in e.items() if kk != k}))
            if first_key is not None:
                faults.append(('missing_value_key', dict(e, value={k: v for k, v in e['value'].items() if k != first_key})))
            faults.append(('unexpected_value_key', dict(e, value=dict(e['value'], bogus=1.0))))
            for p in NAMED:
                if p in e['value'] and isinstance(e['value'][p], float):
                    faults.append(('negative', dict(e, value=dict(e['value'], **{p: -abs(e['value'][p]) - 1.0}))))
            if n > 1:
                other = entries[(pos + 1 + rng.randrange(n - 1)) % n]
                if other is not e:
                    faults.append(('dup_id', dict(e, id=other['id'])))
            for fault, bad in faults:
                es = copy.deepcopy(entries); es[pos] = copy.deepcopy(bad)
                snap = copy.deepcopy(es)
                res = attempt(lambda: load(es))
                out.evaluations += 1; out.count('fault:loader_' + fault)
                inp = dict(position=pos, of=n, fault=fault, entry=str(bad)[:200])
                if expect_raises(out, dict(op='undictify_circuit', fault=fault), f'a description with fault {fault} at position {pos}', inp, res):
                    out.nontrivial(('loader', fault, n if n < 6 else 6, pos if pos < 6 else 6))
                if es != snap:
                    out.spec_fail(dict(op='undictify_circuit', fault=fault, symptom='input_mutated'), 'undictify_circuit modifies its input', inp)
                if drv is not None:
                    agree_err(out, 'cc_undictify', inp, res, drv.call('cc_undictify', descs=[desc_json(x) for x in snap])); out.traces_validated += 1
                # the single entry through generate_component
                r1 = attempt(lambda: dl.generate_component(copy.deepcopy(bad)))
                if fault != 'dup_id':
                    expect_raises(out, dict(op='generate_component', fault=fault), f'an entry with fault {fault}', inp, r1)
                    if drv is not None:
                        agree_err(out, 'cc_generate', inp, r1, drv.call('cc_generate', desc=desc_json(bad)))
    check_load_network(ctx, out)

def check_load_network(ctx, out):
    """Network/loaders.py: implementation side only (the loader model belongs to property C17)"""
    from CircuitCalculator.Network import loaders
    rng = ctx.rng('load_network')
    def cx(z): return {'real': z.real, 'imag': z.imag}
    def entry(i, kind):
        a, b = f'{i}', f'{i + 1}' if i else '0'
        base = dict(type=kind, id=f'{kind[:3]}{i}', N1=a, N2=b)
        v = float(2.0 ** rng.randint(-2, 3))
        if kind == 'resistor': base['R'] = v
        elif kind == 'conductor': base['G'] = v
        elif kind == 'impedance': base['Z'] = cx(complex(v, 1.0))
        elif kind == 'admittance': base['Y'] = cx(complex(v, -0.5))
        elif kind == 'linear_current_source': base.update(I=cx(complex(v, 0)), Y=cx(complex(0.5, 0)))
        elif kind == 'current_source': base['I'] = cx(complex(v, 0))
        elif kind == 'real_current_source': base['I'] = v
        elif kind == 'linear_voltage_source': base.update(V=cx(complex(v, 0)), Z=cx(complex(2.0, 0)))
        elif kind == 'voltage_source': base['V'] = cx(complex(v, 0))
        elif kind == 'real_voltage_source': base['V'] = v
        return base
    kinds = list(loaders.network_branch_translators)
    n_cases = 25 if ctx.quick else 500
    for _ in range(n_cases):
        n = rng.randint(1, 12) if ctx.quick else rng.randint(1, 5)
        entries = [entry(i, rng.choice(kinds)) for i in range(n)]
        base = attempt(lambda: loaders.load_network(copy.deepcopy(entries)))
        out.evaluations += 1
        if base[0] != 'ok':
            out.spec_fail(dict(op='load_network', fault='none', symptom='rejected'), 'a valid network description is rejected', str(entries)[:400], impl=repr(base[1])); continue
        if [b.id for b in base[1].branches] != [e['id'] for e in entries]:
            out.spec_fail(dict(op='load_network', fault='none', symptom='altered'), 'a loaded network differs from its description', str(entries)[:400])
        positions = range(n) if not ctx.quick else rng.sample(range(n), min(2, n))
        for pos in positions:
            e = entries[pos]
            faults = [('unknown_kind', dict(e, type='nope'))]
            for k in ('N1', 'N2', 'id', 'type'):
                faults.append((f'missing_{k}', {kk: vv for kk, vv in e.items() if kk != k}))
            vk = [k for k in e if k not in ('type', 'id', 'N1', 'N2')]
            if vk and e['type'] not in ('short_circuit', 'open_circuit'):
                faults.append(('missing_value_key', {kk: vv for kk, vv in e.items() if kk != vk[0]}))
            if n > 1:
                faults.append(('dup_id', dict(e, id=entries[(pos + 1) % n]['id'])))
            for fault, bad in faults:
                es = copy.deepcopy(entries); es[pos] = bad
                res = attempt(lambda: loaders.load_network(es))
                out.evaluations += 1; out.count('fault:load_network_' + fault)
                inp = dict(position=pos, of=n, fault=fault, entry=str(bad)[:200])
                if expect_raises(out, dict(op='load_network', fault=fault), f'a network description with fault {fault} at position {pos}', inp, res):
                    out.nontrivial(('load_network', fault, min(n, 6), min(pos, 6)))
        es = copy.deepcopy(entries)                             # reference node '0' touches no element
        for x in es:
            for k in ('N1', 'N2'):
                if x[k] == '0': x[k] = 'zero'
        res = attempt(lambda: loaders.load_network(es))
        out.evaluations += 1; out.count('fault:load_network_floating_ground')
        expect_raises(out, dict(op='load_network', fault='floating_ground'), 'a network description without the reference node', str(es)[:300], res)

# --------------------------------------------------------------------------- E. periodic_function

def check_periodic_function(ctx, out):
    from CircuitCalculator.SignalProcessing import periodic_functions as pf
    drv = ctx.driver
    known = [c.wavetype for c in pf.periodic_functions]
    for name in known + ['nope', '', 'Cos', 'cos ', 'sine', 'rectangle', 'SAW', 'constant', '0']:
        r = attempt(lambda: pf.periodic_function(name))
        out.evaluations += 1; out.count('periodic_function')
        if name in known:
            if r[0] != 'ok' or r[1].wavetype != name:
                out.spec_fail(dict(op='periodic_function', fault='none', symptom='rejected'), f'known wavetype {name!r} is not found', name)
            else:
                out.nontrivial(('wave', name))
        else:
            if expect_raises(out, dict(op='periodic_function', fault='unknown_wavetype'), f'unknown wavetype {name!r}', name, r):
                out.nontrivial(('wave_unknown', name))
        if drv is not None:
            agree_err(out, 'cc_periodic_function', name, r, drv.call('cc_periodic_function', name=name)); out.traces_validated += 1

# --------------------------------------------------------------------------- F. unknown queries

QUERY_VARIANTS = ['sources', 'passive', 'complex_only', 'periodic_below_fundamental', 'periodic_w_max_zero', 'dc_only']

def query_circuit(rng, variant):
    """(component descriptions, w_max) — the variants without any frequency component are the ones where the
    time- and frequency-domain classes iterate over an empty list of single-frequency solutions"""
    if variant == 'sources':
        kinds = ['resistor', 'capacitor', 'inductance', 'dc_voltage_source', 'ac_voltage_source', 'dc_current_source']
        return gc.random_circuit(rng, kinds, exact=True, n_nodes=rng.randint(2, 4), ground=True, freqs=[1.0, 2.0], internal=True), 4.0
    if variant == 'passive':
        return gc.random_circuit(rng, ['resistor', 'capacitor', 'inductance', 'conductance', 'impedance'], exact=True,
                                 n_nodes=rng.randint(2, 4), ground=True, min_sources=0, source_kinds=[]), 4.0
    if variant == 'complex_only':
        return gc.random_circuit(rng, ['resistor', 'capacitor', 'complex_voltage_source', 'complex_current_source'], exact=True,
                                 n_nodes=rng.randint(2, 3), ground=True, internal=True,
                                 source_kinds=['complex_voltage_source', 'complex_current_source']), 4.0
    if variant in ('periodic_below_fundamental', 'periodic_w_max_zero'):
        descs = gc.random_circuit(rng, ['resistor', 'capacitor', 'periodic_voltage_source', 'periodic_current_source'], exact=True,
                                  n_nodes=rng.randint(2, 3), ground=True, freqs=[8.0, 16.0], internal=True,
                                  source_kinds=['periodic_voltage_source', 'periodic_current_source'])
        return descs, (0.0 if variant == 'periodic_w_max_zero' else 4.0)
    if variant == 'dc_only':
        return gc.random_circuit(rng, ['resistor', 'inductance', 'dc_voltage_source', 'dc_current_source'], exact=True,
                                 n_nodes=rng.randint(2, 4), ground=True, internal=True,
                                 source_kinds=['dc_voltage_source', 'dc_current_source']), 0.0
    raise ValueError(variant)

def check_queries(ctx, out):
    from CircuitCalculator.Circuit import circuit as cc
    drv = ctx.driver
    rng = ctx.rng('query')
    n_cases = 18 if ctx.quick else 150
    done = 0
    tries = 0
    while done < n_cases and tries < 20 * n_cases:
        tries += 1
        if ctx.time_left() < 15: out.notes.append('query faults cut by budget'); break
        variant = QUERY_VARIANTS[tries % len(QUERY_VARIANTS)]
        descs, w_max = query_circuit(rng, variant)
        comps = [gc.build(d) for d in descs]
        C = cc.Circuit(comps)
        labels = {n for c in comps for n in c.nodes}
        ids = {c.id for c in comps}
        branch_ids = {c.id for c in comps if c.type != 'ground'}
        sols = {}
        for cls in SOLUTION_CLASSES:
            r = attempt(lambda: make_solution(cls, C, w_max))
            if r[0] == 'ok': sols[cls] = r[1]
        if not sols:
            continue
        done += 1
        out.count('query_variant:' + variant)
        unknown = ['nope', '', ' ', 'gnd ', sorted(ids)[0] + "'", sorted(labels)[0] + '_']
        node_only = [n for n in labels if n not in ids][:2]       # a node label is no component id
        id_only = [i for i in ids if i not in labels][:2]         # a component id is no node label
        ground_ids = [c.id for c in comps if c.type == 'ground' and c.id not in labels]
        def n_freq(S):
            w_ = getattr(S, 'w', None)
            try: return len(w_)
            except TypeError: return None
        for cls, S in sols.items():
            # known identifiers keep working: the reference node, every node, every non-ground component
            for acc, names in (('get_potential', [C.ground_node] + sorted(labels)[:2]), ('get_voltage', sorted(branch_ids)[:2]),
                               ('get_current', sorted(branch_ids)[:2])):
                for name in names:
                    r = attempt(lambda: getattr(S, acc)(name))
                    out.evaluations += 1
                    if r[0] != 'ok':
                        out.spec_fail(dict(op='query', cls=cls, accessor=acc, symptom='known_rejected', reference=(name == C.ground_node and acc == 'get_potential')),
                                      f'{cls}.{acc}({name!r}) raises for a known identifier', dict(cls=cls, variant=variant, components=gc.pretty(descs)), impl=repr(r[1]))
        for cls, S in sols.items():
            empty = cls in ('TimeDomainSolution', 'FrequencyDomainSolution') and n_freq(S) == 0
            if empty: out.count('query_empty_frequency_list:' + cls)
            for acc in ('get_potential', 'get_voltage', 'get_current', 'get_power'):
                # unknown strings; a component id asked as a node / a node label asked as a component; the ground
                # component's id is the id of no branch
                names = list(unknown) + (id_only if acc == 'get_potential' else node_only + ground_ids)
                for name in names:
                    if (acc == 'get_potential' and name in labels) or (acc != 'get_potential' and name in branch_ids):
                        continue
                    r = attempt(lambda: getattr(S, acc)(name))
                    out.evaluations += 1; out.count('query:' + cls)
                    inp = dict(cls=cls, accessor=acc, name=name, variant=variant, w_max=w_max, components=gc.pretty(descs))
                    if r[0] == 'ok':
                        out.spec_fail(dict(op='query', cls=cls, accessor=acc, symptom='returns_value', empty_frequency_list=bool(empty)),
                                      f'{cls}.{acc}({name!r}) returns a value for an unknown identifier ({variant})', inp, impl=repr(r[1])[:200])
                    else:
                        out.nontrivial(('query', cls, acc, variant))
        # correspondence: the DC / complex wrappers on the same unknown identifiers
        if drv is not None:
            for cls, mode in (('DCSolution', 'dc'), ('ComplexSolution', 'rms')):
                S = sols.get(cls)
                if S is None or not gc.finite_net(S._solution.network) or not S._solution.network.branches: continue
                net = S._solution.network
                x_py = [core.qc(z) for z in np.asarray(S._solution._solution_vector, dtype=complex)]
                extra = [u for u in unknown if u not in labels and u not in ids]
                ms = drv.call('cc_solution', net=gc.net_json(net), x=x_py, mode=mode, r2=core.q(float(np.sqrt(2))), ids=extra)
                for grp, acc in (('pot', 'get_potential'), ('v', 'get_voltage'), ('i', 'get_current'), ('p', 'get_power')):
                    for u in extra:
                        r = attempt(lambda: getattr(S, acc)(u))
                        it = gc.tag(r[1]) if r[0] == 'err' else 'ok'
                        mt = ms[grp][u].get('err', 'ok')
                        if it != mt:
                            out.disagree('cc_solution.unknown_' + grp, dict(cls=cls, name=u), it, mt)
                out.traces_validated += 1

# --------------------------------------------------------------------------- G. create_schematic

SCHEM_SOLUTIONS = {'dc': {'type': 'dc', 'voltages': [{'name': 'R'}]}, 'absent': None, 'unknown': {'type': 'no_such_solution'},
                   'empty': {}}

def check_schematic(ctx, out):
    """declarative front end: implementation side only.  Every fault class × every position × the description with a
    DC solution section, without a solution section, with an unknown solution type, with an empty one"""
    from CircuitCalculator.SimpleSimulation import schematic as sch, errors
    elements = [
        {'type': 'voltage_source', 'name': 'V', 'V': 1, 'direction': 'up', 'reverse': True},
        {'type': 'resistor', 'name': 'R', 'R': 2, 'direction': 'right'},
        {'type': 'lamp', 'name': 'La', 'P_ref': 2, 'V_ref': 1, 'direction': 'right'},
        {'type': 'line', 'direction': 'down'},
        {'type': 'line', 'direction': 'left'},
        {'type': 'line', 'direction': 'left'},
        {'type': 'ground'}]
    import io, contextlib
    def run(data):
        with contextlib.redirect_stdout(io.StringIO()):
            return sch.create_schematic(data)
    required = {'voltage_source': 'V', 'resistor': 'R', 'lamp': 'P_ref'}
    named_negative = {'resistor': ['R'], 'lamp': ['P_ref', 'V_ref']}       # every named quantity of the base description
    for sol_key, sol_section in SCHEM_SOLUTIONS.items():
        base = {'unit': 7, 'elements': copy.deepcopy(elements)}
        if sol_section is not None:
            base['solution'] = copy.deepcopy(sol_section)
        section = 'dc' if sol_key == 'dc' else ('absent' if sol_key in ('absent', 'empty') else 'unknown')
        r = attempt(lambda: run(copy.deepcopy(base)))
        out.evaluations += 1
        if r[0] != 'ok':
            if sol_key == 'dc':
                out.notes.append(f'create_schematic base case does not run here: {r[1]!r}'); return
            out.spec_fail(dict(op='create_schematic', fault='none', symptom='rejected', solution_section=section),
                          f'a valid drawing-only description (solution section {sol_key}) is rejected', sol_key, impl=repr(r[1]))
            continue
        n = len(base['elements'])
        for pos in range(n):
            e = base['elements'][pos]
            faults = [('unknown_kind', dict(e, type='nope'), 'UnknownCircuitElement'),
                      ('missing_type', {k: v for k, v in e.items() if k != 'type'}, 'MissingArgument')]
            if e['type'] in required:
                k = required[e['type']]
                faults.append(('missing_value_key', {kk: vv for kk, vv in e.items() if kk != k}, 'MissingArgument'))
            for q in named_negative.get(e['type'], []):
                faults.append(('negative', dict(e, **{q: -2}), 'IllegalElementValue'))
            for fault, bad, exc in faults:
                data = copy.deepcopy(base); data['elements'][pos] = bad
                res = attempt(lambda: run(data))
                out.evaluations += 1; out.count(f'fault:schematic_{fault}:{section}')
                inp = dict(position=pos, fault=fault, element=str(bad), solution=sol_key)
                if expect_raises(out, dict(op='create_schematic', fault=fault, solution_section=section),
                                 f'a schematic description with fault {fault} at position {pos} (solution section {sol_key})', inp, res):
                    # schemdraw's context manager redraws on exit and may mask the typed error of an
                    # empty drawing (fault in the first element) with its own: look through the chain
                    chain, ex = [], res[1]
                    while ex is not None and len(chain) < 8:
                        chain.append(type(ex).__name__); ex = ex.__context__ or ex.__cause__
                    if exc not in chain:
                        out.spec_fail(dict(op='create_schematic', fault=fault, symptom='wrong_exception', solution_section=section),
                                      f'fault {fault} raises {chain}, the front end promises {exc}', inp)
                    else:
                        if chain[0] != exc: out.count('schematic_error_masked_by_schemdraw_exit')
                        out.nontrivial(('schematic', fault, pos, section))
        for fault, mut in (('multi_ground', lambda d: d['elements'].append({'type': 'ground'})),
                           ('dup_id', lambda d: d['elements'][2].update(name='R'))):
            data = copy.deepcopy(base); mut(data)
            res = attempt(lambda: run(data))
            out.evaluations += 1; out.count(f'fault:schematic_{fault}:{section}')
            if expect_raises(out, dict(op='create_schematic', fault=fault, solution_section=section),
                             f'a schematic description with fault {fault} (solution section {sol_key})', dict(fault=fault, solution=sol_key), res):
                out.nontrivial(('schematic', fault, section))
        data = copy.deepcopy(base); data['elements'][1]['R'] = 0
        res = attempt(lambda: run(data))
        out.evaluations += 1
        if res[0] != 'ok':
            out.spec_fail(dict(op='create_schematic', fault='zero', symptom='rejected', solution_section=section),
                          'R = 0 is rejected by the front end', 'R=0', impl=repr(res[1]))

def run(ctx, out):
    out.rule = ('fault classes {duplicate id, floating reference, two grounds, negative R/G/C/L/w/P/V_ref, value exactly 0, unknown '
                'element kind, unknown wavetype, missing id/type/nodes/value/value key, unexpected key, unknown query} injected at '
                'every position (thorough: all positions and position pairs of lists ≤ 5; quick: random positions of lists ≤ 12) of '
                'valid networks / circuits / description dictionaries; unknown identifiers against the five solution classes × four '
                'accessors; a case is non-trivial when the fault is rejected (or the boundary value accepted); distinct by '
                '(entry point, fault, length, position)')
    check_networks(ctx, out)
    check_circuits(ctx, out)
    check_analysis_faults(ctx, out)
    check_constructors(ctx, out)
    check_loaders(ctx, out)
    check_periodic_function(ctx, out)
    check_queries(ctx, out)
    check_schematic(ctx, out)
    out.sample(dict(entry_points=['Network', 'Circuit', 'constructors', 'elm.load', 'undictify_circuit', 'generate_component',
                                  'load_network', 'periodic_function', 'solution.get_*', 'create_schematic']))

def replay(ctx, out, rp):
    if ctx.driver is None and getattr(ctx.build, 'driver_baseline', None) is not None:
        # the regenerated definitions do not build: replay against the last good driver, as the check itself does
        try: ctx.driver = core.Driver(ctx.build.driver_baseline)
        except core.DriverError: pass
    """fault enumerations are deterministic in the seed: re-run the recorded seed"""
    run(ctx, out)
    want = rp.get('canon')
    out.spec_failures = [sf for sf in out.spec_failures if want is None or sf['canon'] == want]
    out.disagreements = []
