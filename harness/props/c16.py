"""
C16 — network simplifications are electrical identities.

Correspondence: every function of Network/transformers.py against CC/Model/Transform.lean
(structural comparison of the returned branch list, exact on ids / nodes / order / error
kind, 1e-12 on values).  Oracle on the implementation: the simplified network and the
original are solved exactly from the Spec's own tableau (driver op `wellposed`); surviving
branches must keep id, type, record and orientation and carry the same voltage / current,
surviving nodes the same potential (shifted by one constant after re-referencing);
exempted elements untouched; the input objects unchanged.
"""
from __future__ import annotations
import copy
import numpy as np
import core, gen_net
from props.c01 import tag

ID = 'C16'
LEAN_MODULE = 'CC.Properties.C16'
LEVEL = 'proof'
THEOREMS = [
    'CC.C16_short', 'CC.C16_short_no_new_branch', 'CC.C16_open', 'CC.C16_switch_ground',
    'CC.C16_remove_element', 'CC.C16_zero_voltage_spec', 'CC.C16_zero_current_spec',
    'CC.C16_reported_short', 'CC.C16_reported_open',
    'CC.step_sound', 'CC.contractAll_sound', 'CC.shortPairs_equipotential',
    'CC.C16_short_complete', 'CC.C16_short_complete_nodes', 'CC.contractAll_complete',
]
THEOREMS += ['CC.C16_gen_construct', 'CC.C16_gen_keep', 'CC.C16_gen_is_zero_node', 'CC.C16_gen_switchGround', 'CC.C16_gen_removeElement',
    'CC.C16_gen_removeOpen', 'CC.C16_gen_contractStep', 'CC.C16_gen_shortPairs', 'CC.C16_gen_removeShort',
    'CC.C16_gen_shortCircuitifyVS', 'CC.C16_gen_openCircuitifyCS', 'CC.C16_gen_removeIdealCS', 'CC.C16_gen_removeIdealVS',
    'CC.C16_gen_passiveNetwork', 'CC.C16_gen_defaults', 'CC.C16_gen_finite']
LEAN_MODULE_EXTRA = ['CC.Properties.C16Gen', 'CC.Properties.C16Converse']
THEOREMS += ['CC.C16_open_converse', 'CC.C16_open_iff']
# Round 5: the complete structural characterisation of the contraction (CC/Proofs/ContractShape.lean,
# CC/Properties/C16Survive.lean) and the shapes of the other transformers (CC/Properties/C16Compose.lean)
LEAN_MODULE_EXTRA += ['CC.Properties.C16Survive', 'CC.Properties.C16Compose']
THEOREMS += ['CC.contractAll_eq', 'CC.sigmaAll_fix', 'CC.sigmaAll_fix_nonterm', 'CC.sigmaAll_zero', 'CC.sigmaAll_range',
    'CC.sigmaAll_not_absorbed', 'CC.sigmaAll_idem', 'CC.sigmaAll_eq_iff', 'CC.absorbed_isTerm', 'CC.zero_not_absorbed',
    'CC.C16_contract_shape', 'CC.C16_short_shape', 'CC.C16_short_branches', 'CC.C16_short_no_shorts',
    'CC.C16_short_sigma_eq_iff', 'CC.C16_short_sigma_zero', 'CC.C16_short_sigma_fix', 'CC.C16_short_sigma_absorbed',
    'CC.C16_short_absorbed_is_short_terminal', 'CC.C16_short_no_absorbed_terminal',
    'CC.C16_short_survivors_iff', 'CC.C16_short_survives', 'CC.C16_short_survives_sigma', 'CC.C16_short_survives_iff',
    'CC.C16_short_contracted_dropped', 'CC.C16_short_dropped_iff', 'CC.C16_exempt_dropped_only_if_joined',
    'CC.C16_exempt_survives', 'CC.C16_short_order', 'CC.C16ex.exShort', 'CC.C16ex.exSigma',
    'CC.C16_open_shape', 'CC.C16_open_branches', 'CC.C16_open_survivors_iff',
    'CC.C16_switch_ground_shape', 'CC.C16_switch_ground_branches', 'CC.C16_switch_ground_ok_iff',
    'CC.C16_remove_element_shape', 'CC.C16_remove_element_filter', 'CC.C16_remove_element_missing',
    'CC.C16_zero_current_branches', 'CC.C16_zero_voltage_branches',
    'CC.C16_removeIdealCS_shape', 'CC.C16_removeIdealVS_shape', 'CC.C16_passive_shape', 'CC.C16_passive_survivors_iff',
    'CC.C16ex.exP_passive']
# Round 5b: solution-level soundness of the three compositions as one theorem each, relative to the source-zeroed input
# (CC/Properties/C16Passive.lean, built on the record-class lemmas of CC/Properties/C04Zeroing.lean)
LEAN_MODULE_EXTRA += ['CC.Properties.C04Zeroing', 'CC.Properties.C16Passive']
THEOREMS += ['CC.C04_zero_voltage_solutions', 'CC.C04_zero_current_solutions', 'CC.C04_zeroed_branch_both',
    'CC.C16_removeIdealCS_sound', 'CC.C16_removeIdealVS_sound', 'CC.C16_passive_sound', 'CC.C16_passive_reported',
    'CC.C16ex.exQ_passive', 'CC.C16ex.exQR_solves']
# Round 5b: passive_network against the Spec port impedance PortZ (CC/Properties/C16PassivePort.lean) — PARTIAL, see OPEN_STATEMENTS
LEAN_MODULE_EXTRA += ['CC.Properties.C16PassivePort']
THEOREMS += ['CC.C16_passive_probe_sound', 'CC.C16_passive_port_mpr', 'CC.C16_passive_port_mp', 'CC.C16_passive_port',
    'CC.passiveKeepsNode_zero', 'CC.passiveKeepsNode_of_not_short_terminal', 'CC.passive_stage_eq',
    'CC.circuitEqsAll_filter_open', 'CC.C16ex.exP4_probe_wellPosed', 'CC.C16ex.exPR_solves']
# Round 5c: the CONVERSE of short-circuit contraction (CC/Proofs/ContractConverse.lean: induction along the contraction
# steps; CC/Properties/C16Converse2.lean: removeShort, passive_network, PortZ without the two extra hypotheses)
LEAN_MODULE_EXTRA += ['CC.Proofs.ContractConverse', 'CC.Properties.C16Converse2']
THEOREMS += ['CC.step_converse', 'CC.contractAll_converse', 'CC.Elem.zeroVoltOK_iff', 'CC.Elem.zeroVoltOK_of_sourceFree',
    'CC.C16_short_converse', 'CC.C16_short_converse_needs', 'CC.C16_short_iff', 'CC.C16_short_iff_sourceFree',
    'CC.C16_short_solvable_iff', 'CC.droppedZeroOK_stage', 'CC.C16_passive_converse', 'CC.C16_passive_converse_all',
    'CC.C16_passive_iff', 'CC.circuitEqsAll_filter_open_converse', 'CC.C16_passive_probe_converse',
    'CC.C16_passive_port_iff', 'CC.C16_passive_probe_solvable_iff',
    'CC.C16ex.exD_short', 'CC.C16ex.exDR_solves', 'CC.C16ex.exD_dropped', 'CC.C16ex.exN_dropped', 'CC.C16ex.exBad_not_ok']
OPEN_STATEMENTS = ['WHICH branches survive contraction: PROVED in round 5 for the model — C16_short_shape (result = input branch list renamed by the computable node renaming shortSigma, minus the branches whose renamed terminals coincide; an equation between returned values, exceptions included), C16_short_survivors_iff / C16_short_survives / C16_short_contracted_dropped / C16_short_dropped_iff / C16_exempt_dropped_only_if_joined / C16_short_order, and the facts about the renaming (C16_short_sigma_eq_iff: two nodes get one name iff joined by non-exempt shorts; reference node and non-terminals fixed; nothing mapped to an absorbed node). A model that discards branches no longer satisfies the C16 theorems. What remains outside the theorems: they speak about the hand model, tied to the code by C16_gen_removeShort and per instance by the structural correspondence; self-loops of the INPUT are dropped iff at least one short is contracted (stated, C16_short_shape — a property of the code, not judged as right or wrong); C16_short_dropped_iff needs distinct identifiers (the Network constructor enforces them on the result, the hypothesis is on the input)',
                   'remove_open / remove_element / switch_ground / remove_ideal_* / passive_network: result branch lists PROVED in round 5 (C16_open_branches, C16_remove_element_filter [distinct ids], C16_switch_ground_branches + C16_switch_ground_ok_iff, C16_removeIdealCS_shape, C16_removeIdealVS_shape, C16_passive_shape, C16_passive_survivors_iff). "The input network is never modified" is not a statement about the model — its functions are pure, there is nothing to prove; that the Python functions do not mutate their arguments is judged by the oracle (input_modified) and by C20',
                   'converse direction for short-circuit contraction (every solution of the contracted network extends to the original): PROVED in round 5c for the model (CC/Proofs/ContractConverse.lean step_converse / contractAll_converse, CC/Properties/C16Converse2.lean) — C16_short_converse: for a network with distinct identifiers, every solution R\' of remove_short_circuit_elements(N, keep) extends to a solution R of N with R.pot = R\'.pot ∘ σ, the same voltage and current on every surviving branch and voltage 0 on every dropped branch, under the hypothesis DroppedZeroOK (every branch whose terminals are joined by non-exempt shorts can meet its law at voltage 0, i.e. is not an ideal voltage source with V ≠ 0 — Elem.zeroVoltOK_iff); the hypothesis is necessary (C16_short_converse_needs: it holds whenever N has a solution) and holds for source-free dropped branches; hence C16_short_iff (solutions of N\' = restrictions of solutions of N) and C16_short_solvable_iff (no hypothesis on elements). Not universally true without the hypothesis (C16ex.exBad). What remains outside: the hypothesis N.ids.Nodup on the INPUT (reports are indexed by identifier); the extension is not unique (currents in cycles of shorts); model ↔ Python as for all C16 theorems',
                   'solution-level statements (CircuitEqs preserved) for remove_ideal_* / passive_network relative to the zeroed network: PROVED in round 5b as one theorem each — C16_removeIdealCS_sound, C16_removeIdealVS_sound, C16_passive_sound (every solution of the input skeleton with its non-exempt current / voltage / all sources set to 0 solves the returned network; reference label kept; every surviving branch is an input branch with the zeroed record, terminals moved only between equipotential nodes) and C16_passive_reported (well-posed result: the solver reports those values). The zeroing operations themselves are equivalences (C04_zero_voltage_solutions / C04_zero_current_solutions: same solution set as the skeleton with source value 0, record-class change included). The converse for passive_network is PROVED in round 5c: C16_passive_converse (every solution of passive_network(N, keep) extends to the source-zeroed input, same values on everything that survives) under the single hypothesis that no EXEMPTED branch dropped by the contraction is an ideal voltage source with V ≠ 0 (droppedZeroOK_stage: non-exempt branches meet it by themselves); unconditional for the empty exemption list (C16_passive_converse_all); C16_passive_iff combines both directions. Not done: the separate converses for remove_ideal_current_sources / remove_ideal_voltage_sources as theorems of their own (they are the two halves of the proof of C16_passive_converse)',
                   'passive_network port-impedance equality: PROVED in round 5c without the two extra hypotheses — C16_passive_port_iff: for N\' = passive_network(N, keep), a ≠ b two nodes that the contraction does not rename (PassiveKeepsNode: the reference node, every node that is not a terminal of a contracted short / zeroed ideal voltage source) and a probe identifier that is not an identifier of N: PortZ N pid a b z ↔ PortZ N\' pid a b z for every z, with neither solvability of the probe network of N nor well-posedness of that of N\' assumed (C16_passive_probe_sound + C16_passive_probe_converse; C16_passive_probe_solvable_iff). The round-5b forms C16_passive_port / _mp / _mpr stay as they are (hypothesis pid ∉ N\'.ids there, pid ∉ N.ids here). STILL NOT COVERED: ports at nodes that ARE renamed by the contraction (state at the renamed labels: the converse gives pot x = pot\' (σ x), the probe branch would have to be attached at σ a, σ b) and a = b']
ASSUMPTIONS = [
    'hand-written model CC/Model/Transform.lean is tied to Network/transformers.py twice: by the translator (CC/Gen/Transformers.lean, regenerated every run, proved equal to the hand model by C16_gen_*) and by the structural correspondence',
    'theorems give: every solution of the original solves the result; equality of *the* solutions additionally uses C01_unique for a well-posed result',
]

FNS_KEEP = ['remove_short_circuit_elements', 'short_circuitify_voltage_sources', 'open_circuitify_current_sources',
            'remove_ideal_current_sources', 'remove_ideal_voltage_sources', 'passive_network']

def net_struct(net):
    return [(b.node1, b.node2, b.id, b.element.type, type(b.element).__name__,
             complex(b.element.Z if type(b.element).__name__ == 'NortenElement' else b.element.Y),
             complex(b.element.V if type(b.element).__name__ == 'NortenElement' else b.element.I))
            for b in net.branches], net.node_zero_label

def model_struct(j):
    return [(b['n1'], b['n2'], b['id'], b['ty'], 'NortenElement' if b['e']['k'] == 'N' else 'TheveninElement',
             core.cfloat(b['e']['a']), core.cfloat(b['e']['b'])) for b in j['branches']], j['zero']

def same_struct(a, b):
    (ba, za), (bb, zb) = a, b
    if za != zb or len(ba) != len(bb):
        return False
    for x, y in zip(ba, bb):
        if x[:5] != y[:5] or not core.close(x[5], y[5], 0, 1e-12) or not core.close(x[6], y[6], 0, 1e-12):
            return False
    return True

def key_json(e):
    return dict(id=e.name, ty=e.type, e=gen_net.elem_json(e))

def exact_solution(drv, jnet):
    r = drv.call('wellposed', net=jnet)
    if not r['wellposed']:
        return None
    return {k: core.cfloat(v) for k, v in r['pot'].items()}, {k: core.cfloat(v) for k, v in r['i'].items()}

def run_transformer(trf, fn, net, keep, arg):
    f = getattr(trf, fn)
    if fn == 'switch_ground_node': return f(net, arg)
    if fn == 'remove_element': return f(net, arg)
    if fn == 'remove_open_circuit_elements': return f(net)
    return f(net, keep=keep)

def check_case(ctx, out, desc, fn, keep_ids, arg):
    from CircuitCalculator.Network import transformers as trf
    drv = ctx.driver
    out.evaluations += 1
    out.count('fn:' + fn)
    try:
        net = gen_net.to_impl(desc)
    except Exception:
        out.count('invalid_input'); return
    keep = [b.element for b in net.branches if b.id in keep_ids]
    # an exemption entry that is *equal* but not identical, and one that differs only in type
    snap_net, snap_keep = net_struct(net), [key_json(e) for e in keep]
    jnet = gen_net.impl_to_json(net)
    try:
        res = run_transformer(trf, fn, net, keep, arg); impl_err = None
    except Exception as e:
        res = None; impl_err = tag(e)
    canon = dict(op=fn, kinds=sorted({d['kind'] for d in desc['branches']}), keep=bool(keep_ids))
    # input never modified
    if net_struct(net) != snap_net or [key_json(e) for e in keep] != snap_keep:
        out.spec_fail(dict(canon, symptom='input_modified'), f'{fn} modified its input network or exemption list',
                      gen_net.pretty(desc), desc=desc, fn=fn, keep_ids=keep_ids, arg=arg)
        return
    # ---- correspondence
    if drv is not None:
        m = drv.call('transformer', fn=fn, net=jnet, keep=[key_json(e) for e in keep], arg=arg or '')
        out.traces_validated += 1
        if impl_err or 'err' in m:
            if m.get('err') != impl_err:
                out.disagree('transformer:' + fn, gen_net.pretty(desc), impl_err or 'ok', m.get('err', 'ok'), keep=keep_ids, arg=arg)
            else:
                out.count('error:' + str(impl_err))
        elif not same_struct(net_struct(res), model_struct(m['ok'])):
            out.disagree('transformer:' + fn, gen_net.pretty(desc), str(net_struct(res)), str(model_struct(m['ok'])), keep=keep_ids, arg=arg)
    if res is None or drv is None:
        return
    # ---- oracle: what survives is unchanged
    orig = {b.id: b for b in net.branches}
    for b in res.branches:
        o = orig.get(b.id)
        if o is None:
            out.spec_fail(dict(canon, symptom='new_branch'), f'{fn} invented branch {b.id!r}', gen_net.pretty(desc), desc=desc, fn=fn, keep_ids=keep_ids, arg=arg)
            return
        if b.id in keep_ids and b.element != o.element:
            out.spec_fail(dict(canon, symptom='exempted_changed'), f'{fn} changed exempted element {b.id!r}', gen_net.pretty(desc), desc=desc, fn=fn, keep_ids=keep_ids, arg=arg)
            return
    # exempted elements survive, unless their two terminals were merged by contracting *other* shorts
    if fn in ('remove_short_circuit_elements', 'remove_ideal_voltage_sources', 'passive_network') and keep_ids:
        from CircuitCalculator.Network import elements as elm
        parent = {}
        def find(x):
            parent.setdefault(x, x)
            while parent[x] != x:
                parent[x] = parent[parent[x]]; x = parent[x]
            return x
        for b in net.branches:
            contracted = (elm.is_short_circuit(b.element) or (fn != 'remove_short_circuit_elements' and (elm.is_ideal_voltage_source(b.element))))
            if contracted and b.id not in keep_ids:
                parent[find(b.node1)] = find(b.node2)
        present = {b.id for b in res.branches}
        for b in net.branches:
            if b.id in keep_ids and b.id not in present and find(b.node1) != find(b.node2):
                if fn == 'passive_network' and elm.is_open_circuit(b.element):
                    continue
                out.spec_fail(dict(canon, symptom='exempted_removed'), f'{fn} removed exempted element {b.id!r}', gen_net.pretty(desc),
                              desc=desc, fn=fn, keep_ids=keep_ids, arg=arg)
                return
    ids_res = [b.id for b in res.branches]
    if len(set(ids_res)) != len(ids_res) or [i for i in orig if i in set(ids_res)] != ids_res:
        out.spec_fail(dict(canon, symptom='order_or_duplicate'), f'{fn} reordered or duplicated branches', gen_net.pretty(desc), desc=desc, fn=fn, keep_ids=keep_ids, arg=arg)
        return
    # contraction is complete: no short circuit that is not exempted (nor, for the source-stripping operations, an ideal
    # voltage source) is left between two DIFFERENT nodes of the result — leftovers in parallel make the result singular
    if fn in ('remove_short_circuit_elements', 'remove_ideal_voltage_sources', 'passive_network'):
        from CircuitCalculator.Network import elements as elm_
        left = [b.id for b in res.branches if b.id not in keep_ids and b.node1 != b.node2 and elm_.is_short_circuit(b.element)]
        out.count('contraction_checked')
        if left:
            out.spec_fail(dict(canon, symptom='short_left_behind', parallel_leftovers=len(left) > 1),
                          f'{fn} left non-exempt short circuit(s) {left} in the result', gen_net.pretty(desc),
                          impl=dict(result=str(net_struct(res))), desc=desc, fn=fn, keep_ids=keep_ids, arg=arg)
            return
        # … and a branch that the contraction turned into a self-loop (an element parallel to a contracted short) is
        # dropped, as the operation says (anchor: "rename absorbed node -> retained node over all branches and drop
        # self-loops"; model: C16_contract_shape).  Since the repair 09dbe49 a leftover self-loop is electrically inert,
        # so only this structural clause sees it (seeded change C16-B).  Self-loops of the INPUT survive when nothing is
        # contracted — compare only when the result differs from the input.
        loops = [b.id for b in res.branches if b.node1 == b.node2]
        loops_in = {b.id for b in net.branches if b.node1 == b.node2}
        contracted = len(res.branches) != len(net.branches) or any(rb.node1 != nb.node1 or rb.node2 != nb.node2
                                                                   for rb, nb in zip(res.branches, net.branches))
        if contracted and [i for i in loops if i not in loops_in]:
            out.spec_fail(dict(canon, symptom='self_loop_left_behind'),
                          f'{fn} left branch(es) {[i for i in loops if i not in loops_in]} with both terminals on one node in the result',
                          gen_net.pretty(desc), impl=dict(result=str(net_struct(res))), desc=desc, fn=fn, keep_ids=keep_ids, arg=arg)
            return
    structural_only = fn in ('remove_element', 'short_circuitify_voltage_sources', 'open_circuitify_current_sources',
                             'remove_ideal_current_sources', 'remove_ideal_voltage_sources', 'passive_network')
    if fn == 'remove_element':
        if [x for x in snap_net[0] if x[2] != arg] != net_struct(res)[0] or res.node_zero_label != net.node_zero_label:
            out.spec_fail(dict(canon, symptom='removed_more'), 'remove_element changed more than the named element', gen_net.pretty(desc), desc=desc, fn=fn, keep_ids=keep_ids, arg=arg)
        out.nontrivial((fn, gen_net.shape(desc)))
        return
    if fn in ('short_circuitify_voltage_sources', 'open_circuitify_current_sources'):
        # same ids / terminals / order; only intended sources change, and only their source value
        for b in res.branches:
            o = orig[b.id]
            if (b.node1, b.node2) != (o.node1, o.node2):
                out.spec_fail(dict(canon, symptom='terminals_changed'), f'{fn} moved terminals of {b.id!r}', gen_net.pretty(desc), desc=desc, fn=fn, keep_ids=keep_ids, arg=arg); return
            if b.element != o.element:
                volt = fn.startswith('short')
                ok = (core.close(complex(b.element.Z), complex(o.element.Z), 0, 1e-12) and b.element.V == 0) if volt else \
                     (core.close(complex(b.element.Y), complex(o.element.Y), 0, 1e-12) and b.element.I == 0)
                if not ok or b.id in keep_ids:
                    out.spec_fail(dict(canon, symptom='zeroing_changed_immittance'), f'{fn} changed more than the source value of {b.id!r}', gen_net.pretty(desc), desc=desc, fn=fn, keep_ids=keep_ids, arg=arg); return
        if len(ids_res) != len(orig):
            out.spec_fail(dict(canon, symptom='dropped'), f'{fn} dropped a branch', gen_net.pretty(desc), desc=desc, fn=fn, keep_ids=keep_ids, arg=arg); return
        out.nontrivial((fn, gen_net.shape(desc), bool(keep_ids)))
        return
    # ---- oracle: passive_network preserves the port impedance between surviving nodes
    if fn == 'passive_network' and not keep_ids:
        labs = sorted({b.node1 for b in res.branches} | {b.node2 for b in res.branches})
        if len(labs) >= 2:
            rng = core.Rng(len(desc['branches']), 'port', desc['zero'])
            a, b2 = rng.sample(labs, 2)
            def port_z(j):
                j = dict(zero=j['zero'], branches=[dict(br, e=dict(br['e'], b=['0', '0'])) for br in j['branches']] +
                         [dict(n1=b2, n2=a, id='__probe__', ty='current_source', e=dict(k='T', a=['0', '0'], b=['1', '0']))])
                r = drv.call('wellposed', net=j)
                return None if not r['wellposed'] else core.cfloat(r['pot'][a]) - core.cfloat(r['pot'][b2])
            z0, z1 = port_z(jnet), port_z(gen_net.impl_to_json(res))
            if z0 is not None and z1 is not None:
                out.count('port_impedance_compared')
                if not core.close(z0, z1, abs(z0), 1e-8):
                    out.spec_fail(dict(canon, symptom='port_impedance_changed'), f'passive_network changed the impedance between {a!r} and {b2!r}',
                                  gen_net.pretty(desc), spec=dict(original=str(z0), passive=str(z1)), desc=desc, fn=fn, keep_ids=keep_ids, arg=arg)
                    return
    # ---- oracle: solutions agree on what survives (needs both sides well-posed)
    if fn in ('remove_ideal_current_sources', 'remove_ideal_voltage_sources', 'passive_network'):
        # compare with the reference composition of the already-checked primitives' *spec*: all
        # non-exempt sources zeroed, then opens/shorts removed: solutions agree with the zeroed network
        base = net
        if fn in ('remove_ideal_current_sources', 'passive_network'):
            base = trf.open_circuitify_current_sources(base, keep=keep)
        if fn in ('remove_ideal_voltage_sources', 'passive_network'):
            base = trf.short_circuitify_voltage_sources(base, keep=keep)
        ref_net = base
    else:
        ref_net = net
    try:
        from CircuitCalculator.Network.NodalAnalysis import node_analysis as na
        conds = [np.linalg.cond(na.nodal_analysis_coefficient_matrix(x)) for x in (ref_net, res) if len(x.branches) > 0]
        if conds and max(conds) > 1e8:
            out.skip('ill_conditioned'); return
    except Exception:
        pass
    so = exact_solution(drv, gen_net.impl_to_json(ref_net))
    sr = exact_solution(drv, gen_net.impl_to_json(res))
    if so is None or sr is None:
        out.count('oracle_skipped_illposed'); return
    out.nontrivial((fn, gen_net.shape(desc), bool(keep_ids)))
    (po, io), (pr, ir) = so, sr
    shift = po.get(res.node_zero_label, 0) if fn == 'switch_ground_node' else 0
    ps, is_ = gen_net.net_scales(ref_net)
    pscale = max([abs(x) for x in po.values()] + [ps, 1e-300]); iscale = max([abs(x) for x in io.values()] + [is_, 1e-300])
    ref_branches = {b.id: b for b in ref_net.branches}
    for b in res.branches:
        o = ref_branches[b.id]
        if type(b.element) is not type(o.element) or b.element != o.element:
            out.spec_fail(dict(canon, symptom='record_changed'), f'{fn} changed the record of surviving branch {b.id!r}', gen_net.pretty(desc), desc=desc, fn=fn, keep_ids=keep_ids, arg=arg); return
        ok = (core.rclose(pr[b.node1], po[o.node1] - shift, pscale) and core.rclose(pr[b.node2], po[o.node2] - shift, pscale)
              and core.rclose(ir[b.id], io[b.id], iscale))
        if not ok:
            out.spec_fail(dict(canon, symptom='solution_changed'), f'{fn}: solution differs on surviving branch {b.id!r}',
                          gen_net.pretty(desc), impl=dict(result=str(net_struct(res))),
                          spec=dict(orig=(str(po[o.node1]), str(po[o.node2]), str(io[b.id])), new=(str(pr[b.node1]), str(pr[b.node2]), str(ir[b.id]))),
                          desc=desc, fn=fn, keep_ids=keep_ids, arg=arg)
            return
    # the library's own solver on the simplified network must give that same solution
    try:
        from CircuitCalculator.Network.NodalAnalysis.bias_point_analysis import nodal_analysis_bias_point_solver
        from props.c01 import impl_report
        pi, vi, ii, _ = impl_report(res, nodal_analysis_bias_point_solver(res))
        for b in res.branches:
            if not (core.rclose(pi[b.node1], pr[b.node1], pscale, 1e-7) and core.rclose(pi[b.node2], pr[b.node2], pscale, 1e-7)
                    and core.rclose(ii[b.id], ir[b.id], iscale, 1e-7)):
                out.spec_fail(dict(canon, symptom='solver_on_result_differs'),
                              f'{fn}: the solver applied to the simplified network does not reproduce the original solution on {b.id!r}',
                              gen_net.pretty(desc), impl=dict(result=str(net_struct(res)), pot=str(pi), i=str(ii)),
                              spec=dict(pot=str(pr), i=str(ir)), desc=desc, fn=fn, keep_ids=keep_ids, arg=arg)
                return
    except Exception as e:
        out.spec_fail(dict(canon, symptom='solver_on_result_raises', exc=tag(e)), f'{fn}: the simplified network fails to solve',
                      gen_net.pretty(desc), desc=desc, fn=fn, keep_ids=keep_ids, arg=arg)
        return
    out.count('solution_compared')
    out.sample(dict(fn=fn, keep=keep_ids, arg=arg, net=gen_net.pretty(desc)))

def gen_case(rng):
    # networks rich in shorts and opens: chains, stars, parallel shorts, shorts on the reference node
    n_nodes = rng.randint(2, 6)
    desc = gen_net.random_desc(rng, exact=True, n_nodes=n_nodes, degenerate=rng.choice([0.0, 0.25, 0.5, 0.7]),
                               n_extra=rng.randint(0, 6))
    # tree-structured shorts keep the original well-posed; extra (parallel/loop) shorts are exercised structurally
    ids = [d['id'] for d in desc['branches']]
    fn = rng.choice(FNS_KEEP + ['remove_open_circuit_elements', 'remove_short_circuit_elements',
                                'remove_short_circuit_elements', 'switch_ground_node', 'remove_element'])
    keep_ids = [i for i in ids if rng.random() < 0.2] if (fn in FNS_KEEP and rng.random() < 0.6) else []
    labels = sorted({d['n1'] for d in desc['branches']} | {d['n2'] for d in desc['branches']})
    arg = None
    if fn == 'switch_ground_node':
        arg = rng.choice(labels + ['nowhere']) if rng.random() < 0.95 else 'nowhere'
    if fn == 'remove_element':
        arg = rng.choice(ids + ['nothing']) if rng.random() < 0.95 else 'nothing'
    return desc, fn, keep_ids, arg

CORPUS = [
    # chained pairs: S1 (a,b), S2 (c,a) — when S2's turn comes its node a has already been renamed to b (the loop must
    # see the pair as (c,b); with the pair list computed once S2 was left behind as S2(a,b))
    (dict(zero='z', branches=[dict(n1='a', n2='z', id='R1', kind='resistor', args=dict(R=2.0)),
                              dict(n1='c', n2='z', id='R2', kind='resistor', args=dict(R=4.0)),
                              dict(n1='a', n2='b', id='S1', kind='short', args={}),
                              dict(n1='c', n2='a', id='S2', kind='short', args={}),
                              dict(n1='b', n2='z', id='I', kind='cs_ideal', args=dict(I=1.0))]),
     'remove_short_circuit_elements', [], None),
    # short touching the reference with the reference first
    (dict(zero='z', branches=[dict(n1='z', n2='a', id='S', kind='short', args={}),
                              dict(n1='a', n2='b', id='R', kind='resistor', args=dict(R=2.0)),
                              dict(n1='b', n2='z', id='V', kind='vs_ideal', args=dict(V=4.0))]),
     'remove_short_circuit_elements', [], None),
    (dict(zero='z', branches=[dict(n1='z', n2='a', id='S', kind='short', args={}),
                              dict(n1='a', n2='b', id='R', kind='resistor', args=dict(R=2.0)),
                              dict(n1='b', n2='z', id='V', kind='vs_ideal', args=dict(V=4.0))]),
     'remove_short_circuit_elements', ['S'], None),
]

def run(ctx, out):
    out.rule = ('random networks of C01 enriched with 0–70 % short/open branches (chains, stars, parallel, on the '
                'reference node), random exemption lists, every transformer of Network/transformers.py; non-trivial = '
                'the transformer returned a network and (for solution-level checks) both networks are well-posed; '
                'distinct by (function, node count, branch count, kind multiset, exemption used)')
    for desc, fn, keep_ids, arg in CORPUS:
        check_case(ctx, out, desc, fn, keep_ids, arg)
    rng = ctx.rng('random')
    n = 700 if ctx.quick else 12000
    for k in range(n):
        if ctx.time_left() < 10: out.notes.append(f'stopped after {k} cases (budget)'); break
        check_case(ctx, out, *gen_case(rng))

def replay(ctx, out, rp):
    check_case(ctx, out, rp['desc'], rp['fn'], rp.get('keep_ids') or [], rp.get('arg'))
