"""
C03 — results are independent of names, listing order, reference node and terminal order.

Oracle (metamorphic, on the implementation): every generated network / circuit is analysed
as given and after a random bijective renaming of nodes and identifiers (from label pools
that sort differently and interleave element kinds), a random permutation of the element
list, a random subset of reversed elements (source values negated) and a random new
reference node; potential differences, voltages, currents and powers must agree up to the
renaming, the sign flip of the reversed elements' own voltage and current, and one common
potential shift.  Streams: network level (C01 domain), circuit level (C02 domain, DC and
complex solutions), state-space level (C10 domain: transfer matrices).
Theorems: CC/Properties/C03.lean (invariance of the Spec) + C01 (the code computes the
unique Spec solution).
"""
from __future__ import annotations
import numpy as np
import core, gen_net, gen_circ
from props.c01 import tag, impl_report

ID = 'C03'
LEAN_MODULE = 'CC.Properties.C03'
LEVEL = 'proof'
THEOREMS = ['CC.C03_perm', 'CC.C03_rename', 'CC.C03_reverse', 'CC.C03_reref',
            'CC.C03_reported_perm', 'CC.C03_reported_rename', 'CC.C03_reported_reverse', 'CC.C03_reported_reref',
            'CC.C01_unique', 'CC.C01_sound', 'CC.C01_reported_is_the_solution']
THEOREMS += ['CC.C06_port_invariant_perm', 'CC.C06_port_invariant_rename', 'CC.C06_port_invariant_reverse', 'CC.C06_port_invariant_reref']
LEAN_MODULE_EXTRA = ['CC.Properties.C01', 'CC.Properties.C06']
# state-space / transient level (CC/Properties/C03State.lean, helpers CC/Proofs/StateInvariance.lean)
THEOREMS += ['CC.C03_transfer_perm', 'CC.C03_transfer_rename', 'CC.C03_transfer_reverse', 'CC.C03_transfer_reref',
             'CC.C03_sample_state', 'CC.C03_sample_perm', 'CC.C03_sample_rename', 'CC.C03_sample_reverse', 'CC.C03_sample_reref',
             'CC.C10_transfer', 'CC.C10_transfer_unique', 'CC.C12_sample_circuit', 'CC.C12_state_is_output']
LEAN_MODULE_EXTRA += ['CC.Properties.C03State', 'CC.Properties.C10', 'CC.Properties.C12']
# translator tie of frequency_components, which TimeDomainSolution (time-function stream of the oracle) depends on
# (harness/extract_freq.py -> CC/Gen/Freq.lean; CC/Properties/C09Gen.lean; shared with C09)
THEOREMS += ['CC.C09_gen_frequency_components']
LEAN_MODULE_EXTRA += ['CC.Properties.C09Gen']
# round 5c: the four transformations applied together (CC/Properties/C03Composite.lean)
THEOREMS += ['CC.C03_composite', 'CC.C03_reported_composite', 'CC.C03_transfer_composite', 'CC.C03_sample_composite',
             'CC.composite_forward', 'CC.composite_back', 'CC.Net.flip_flip']
LEAN_MODULE_EXTRA += ['CC.Properties.C03Composite']
OPEN_STATEMENTS = ['C03_statespace / C03_transient are theorems about the Spec-side report read from the output VECTOR y = C x + D u (C03_transfer_*, C03_sample_*); that the model\'s output ROWS (c_row_* / d_row_*) deliver that report is still CC.C10_output_rows_statement (open) - rows covered by correspondence + metamorphic oracle only',
                   'C03_transient: the theorems are per sample, for states RELATED by the induced state map (same capacitor voltage / inductor current per renamed element, negated when reversed); that the integrator (scipy lsim, a parameter of the model) keeps two related trajectories related is not a theorem - decided per instance by the transient stream of the oracle',
                   'composite of rename + permutation + reversal + re-referencing applied together: PROVED in round 5c (CC/Properties/C03Composite.lean) - C03_composite (circuit equations: forward, backward, and for N with distinct ids and well-posed - the only well-posedness hypothesis, about the ORIGINAL - every pair of solutions is related by R\'.pot(sigma n) = R.pot n - R.pot g, R\'.v/i(tau id) = +-R.v/i id), C03_reported_composite (accessor values for any solution vectors of the two matrix equations; WF of both descriptions assumed), C03_transfer_composite / C03_sample_composite (state-space transfer / per-sample level, well-posedness of the original phasor network / original circuit with states imposed). Still outside: the order of the four steps is fixed (re-reference, reverse, permute, rename - other orders are not stated separately); validity (WF) of the transformed description is a hypothesis of the reported version; the potential clause needs the new reference g to be a label of N; no separate non-vacuity example for the transfer / sample composites (hypotheses instantiated piecewise in C03ex and C03cx); port impedances (C06_port_invariant_*) and powers have no composite theorem']
ASSUMPTIONS = ['C03_transfer_* / C03_sample_*: both settings are RLC + ideal-source w=0 networks with certificates satisfying ModelCert (StateModelOK); dictionaries give the same value to the same renamed element and inputs the same amplitude to the same renamed source, negated for a reversed source (SameValues / SameInput - hypotheses, the order of dictionaries and of `sources` is free); well-posedness of the TARGET network is a hypothesis: the phasor network at s (transfer), the circuit with its states imposed as sources (sample); for renaming it is the ORIGINAL network, sigma injective, tau arbitrary',
               'C03_reported_* take validity (WF) and well-posedness of the TRANSFORMED network as hypotheses (not derived from the original); power invariance has no theorem of its own (power = V·conj(I) of invariant quantities, C01_power)',
               'invariance theorems are about the Spec; equality of reported values uses C01_sound + C01_unique (well-posed networks)',
               'binary64 results compared within 1e-8 relative on instances with cond(A) < 1e8']

NEG_KEYS = {'vs_ideal': ['V'], 'vs_lossy': ['V'], 'cs_ideal': ['I'], 'cs_lossy': ['I']}

def transform_desc(rng, desc):
    labels = sorted({d['n1'] for d in desc['branches']} | {d['n2'] for d in desc['branches']})
    pool = [l for l in rng.choice(gen_net.LABEL_POOLS)]
    extra = [f'{x}{y}' for x in 'qQ9_' for y in 'aZ0~']
    cand = [l for l in dict.fromkeys(pool + extra)]
    rng.shuffle(cand)
    sigma = dict(zip(labels, cand[:len(labels)]))
    idf = rng.choice(gen_net.ID_POOLS)
    order = list(range(len(desc['branches']))); rng.shuffle(order)
    tau = {}
    flips = set()
    new = []
    for pos, k in enumerate(order):
        d = desc['branches'][k]
        nid = idf('x', (pos * 7 + 3) % 53) + f'.{pos}'
        tau[d['id']] = nid
        nd = dict(n1=sigma[d['n1']], n2=sigma[d['n2']], id=nid, kind=d['kind'], args=dict(d['args']))
        if rng.random() < 0.4:
            flips.add(d['id'])
            nd['n1'], nd['n2'] = nd['n2'], nd['n1']
            for key in NEG_KEYS.get(d['kind'], []):
                nd['args'][key] = -nd['args'][key]
        new.append(nd)
    zero = sigma[rng.choice(labels)]
    return dict(branches=new, zero=zero), sigma, tau, flips

def network_case(ctx, out, desc, tseed):
    from CircuitCalculator.Network.NodalAnalysis.bias_point_analysis import nodal_analysis_bias_point_solver
    from CircuitCalculator.Network.NodalAnalysis import node_analysis as na
    out.evaluations += 1
    drv = ctx.driver
    if drv is not None and not drv.call('wellposed', net=gen_net.desc_to_json(desc))['wellposed']:
        out.count('illposed'); return
    desc2, sigma, tau, flips = transform_desc(core.Rng(tseed, 'net'), desc)
    try:
        net = gen_net.to_impl(desc); net2 = gen_net.to_impl(desc2)
        cond = max(np.linalg.cond(na.nodal_analysis_coefficient_matrix(net)), np.linalg.cond(na.nodal_analysis_coefficient_matrix(net2)))
        if cond > 1e8:
            out.skip('ill_conditioned'); return
        tol = min(1e-5, max(1e-8, cond * 1e-12))      # binary64 loses ~cond·eps digits; assembly errors are O(1)
        pot, v, i, p = impl_report(net, nodal_analysis_bias_point_solver(net))
    except Exception as e:
        out.count('unsolvable:' + tag(e)); return
    canon = dict(level='network', kinds=sorted({d['kind'] for d in desc['branches']}))
    try:
        pot2, v2, i2, p2 = impl_report(net2, nodal_analysis_bias_point_solver(net2))
    except Exception as e:
        out.spec_fail(dict(canon, symptom='raises', exc=tag(e)), 'transformed description fails to solve', gen_net.pretty(desc),
                      impl=dict(transformed=gen_net.pretty(desc2)), desc=desc, tseed=tseed); return
    out.nontrivial(('net', gen_net.shape(desc), bool(flips)))
    ps, is_ = gen_net.net_scales(net)          # incl. source magnitudes: shorted big sources leave tiny, cancellation-dominated values
    scale = max([abs(x) for x in list(pot.values()) + list(v.values())] + [ps, 1e-300])
    iscale = max([abs(x) for x in i.values()] + [is_, 1e-300])
    shift = pot[next(k for k, s in sigma.items() if s == desc2['zero'])]
    def fail(what, **impl):
        out.spec_fail(dict(canon, symptom=what), f'{what} changed under renaming / permutation / reversal / re-referencing',
                      gen_net.pretty(desc), impl=dict(transformed=gen_net.pretty(desc2), **impl), desc=desc, tseed=tseed)
    for n, s in sigma.items():
        if not core.rclose(pot2[s], pot[n] - shift, scale, tol): return fail('potential', node=n, a=str(pot[n] - shift), b=str(pot2[s]))
    for k, t in tau.items():
        sg = -1 if k in flips else 1
        if not core.rclose(v2[t], sg * v[k], scale, tol): return fail('voltage', id=k, a=str(v[k]), b=str(v2[t]))
        if not core.rclose(i2[t], sg * i[k], iscale, tol): return fail('current', id=k, a=str(i[k]), b=str(i2[t]))
        if not core.rclose(p2[t], p[k], scale * iscale, tol): return fail('power', id=k, a=str(p[k]), b=str(p2[t]))
    out.traces_validated += 1
    out.sample(dict(original=gen_net.pretty(desc), transformed=gen_net.pretty(desc2)))
    # ---- the open-circuit voltage between two nodes does not depend on where the reference node is, nor on names /
    # listing / orientation (seeded change C03-4B: a shortcut for ports that contain the reference node)
    from CircuitCalculator.Network.NodalAnalysis.bias_point_analysis import open_circuit_voltage
    nodes = sorted(sigma)
    pairs = [(a, b) for a in nodes for b in nodes if a != b]
    core.Rng(tseed, 'ocv').shuffle(pairs)
    special = [pr for pr in pairs if desc['zero'] in pr or any(sigma[x] == desc2['zero'] for x in pr)]
    for a, b in (special[:4] + pairs[:3]):
        try:
            u1 = complex(open_circuit_voltage(net, a, b)); u2 = complex(open_circuit_voltage(net2, sigma[a], sigma[b]))
        except Exception as e:
            out.count('ocv_raises:' + tag(e)); continue
        if not (np.isfinite(u1) and np.isfinite(u2)): continue
        out.count('ocv_compared')
        if not core.rclose(u2, u1, scale, tol):
            return fail('open_circuit_voltage', port=[a, b], a=str(u1), b=str(u2))
    # ---- the index maps handed to the solver (node numbering, source column order) do not matter either
    from props.c01 import mapper_case
    try:
        A_np = na.nodal_analysis_coefficient_matrix(net)
    except Exception:
        A_np = None
    nfail = len(out.spec_failures)
    mapper_case(ctx, out, desc, net, pot, v, i, dict(canon, op='solve'), A_np)
    if len(out.spec_failures) > nfail: return
    # ---- port impedance between two nodes is invariant as well (C06 domain)
    compare_ports(out, net, net2, sigma, sorted(sigma), fail, tol, core.Rng(tseed, 'port'), 2)

def reduced_cond(net, a, b):
    """condition number of the reduced system the port computation solves (all-zero node columns dropped)"""
    from CircuitCalculator.Network import transformers as trf
    from CircuitCalculator.Network.NodalAnalysis import node_analysis as na
    try:
        A = na.nodal_analysis_coefficient_matrix(trf.switch_ground_node(network=net, new_ground=b))
        keep = A.any(axis=0)
        return float(np.linalg.cond(A[np.ix_(keep, keep)])) if keep.any() else 1.0
    except Exception:
        return 1.0

def compare_ports(out, net, net2, sigma, ports, fail, tol, prng, npairs, admit=None):
    from CircuitCalculator.Network.NodalAnalysis.node_analysis import open_circuit_impedance
    pairs = [(a, b) for a in ports for b in ports if a != b]
    prng.shuffle(pairs)
    for a, b in pairs[:npairs]:
        def z_of(n, x, y):
            try:
                return ('ok', complex(open_circuit_impedance(n, x, y)))
            except Exception as e:
                return ('err', tag(e))
        adm = True if admit is None else admit(a, b)
        if adm == 'isolated':
            # a port terminal that hangs only on zero-admittance branches: the impedance is infinite under every naming
            z1, z2 = z_of(net, a, b), z_of(net2, sigma[a], sigma[b])
            out.count('port_isolated_compared')
            for z in (z1, z2):
                if z[0] == 'ok' and np.isfinite(z[1]):
                    fail('port_isolated_not_infinite', nodes=(a, b), a=str(z1), b=str(z2)); return False
            continue
        if not adm:
            out.count('port_outside_domain'); continue
        c = max(reduced_cond(net, a, b), reduced_cond(net2, sigma[a], sigma[b]))
        if not c < 1e8:
            out.skip('port_ill_conditioned'); continue
        z1, z2 = z_of(net, a, b), z_of(net2, sigma[a], sigma[b])
        out.count('port_compared')
        if z1[0] != z2[0] or (z1[0] == 'err' and z1[1] != z2[1]):
            fail('port_impedance_outcome', nodes=(a, b), a=str(z1), b=str(z2)); return False
        zs = [abs(1 / br.element.Y) for br in net.branches if np.isfinite(complex(br.element.Y)) and br.element.Y != 0]
        zscale = max(zs + [1e-300])          # a shorted port reads 0 up to rounding noise of the network's own impedance scale
        if z1[0] == 'ok' and np.isfinite(z1[1]) and np.isfinite(z2[1]) and not core.rclose(z2[1], z1[1], zscale, max(tol, min(1e-5, c * 1e-12), 1e-7)):
            fail('port_impedance', nodes=(a, b), a=str(z1[1]), b=str(z2[1])); return False
    return True

def port_case(ctx, out, desc, tseed):
    """Port impedances of a network that also has nodes hanging only on zero-admittance branches (open circuits,
    ideal current sources): the computation drops those nodes, so the index bookkeeping depends on how labels sort."""
    out.evaluations += 1
    rng = core.Rng(tseed, 'dangling')
    desc = dict(branches=[dict(d, args=dict(d['args'])) for d in desc['branches']], zero=desc['zero'])
    labels = sorted({d['n1'] for d in desc['branches']} | {d['n2'] for d in desc['branches']})
    dang = []
    for k in range(rng.randint(1, 2)):
        name = rng.choice(['!d', '#', '0a', 'A', 'M', 'a', 'm', 'zz', '~']) + str(k)
        if name in labels: continue
        dang.append(name)
        for j in range(rng.randint(1, 2)):
            other = rng.choice(labels + dang[:-1])
            kind = rng.choice(['open', 'open', 'cs_ideal'])
            n1, n2 = (name, other) if rng.random() < 0.5 else (other, name)
            desc['branches'].append(dict(n1=n1, n2=n2, id=f'dg{k}{j}', kind=kind, args=gen_net.gen_args(rng, kind)))
    if not dang: return
    desc2, sigma, tau, flips = transform_desc(core.Rng(tseed, 'net'), desc)
    try:
        net = gen_net.to_impl(desc); net2 = gen_net.to_impl(desc2)
    except Exception as e:
        out.count('port_case_unbuildable:' + tag(e)); return
    canon = dict(level='port', kinds=sorted({d['kind'] for d in desc['branches']}))
    def fail(what, **impl):
        out.spec_fail(dict(canon, symptom=what), f'{what} changed under renaming / permutation / reversal / re-referencing',
                      gen_net.pretty(desc), impl=dict(transformed=gen_net.pretty(desc2), **impl), pdesc=desc, tseed=tseed)
    out.nontrivial(('port', gen_net.shape(desc), len(dang)))
    from props import c06 as pc06
    jnet = gen_net.desc_to_json(desc)
    zero_adm = {n: all(d['kind'] in ('open', 'cs_ideal') for d in desc['branches'] if n in (d['n1'], d['n2'])) for n in labels + dang}
    def admit(a, b):
        # the port impedance must be defined (unit-current injection consistent and determined: exact model), and the
        # case must not be the recorded C06 finding (a floating group of nodes leaves the pruned matrix singular)
        if ctx.driver is None or pc06.has_self_loop(desc) or pc06.has_vs_loop(desc): return False
        if zero_adm.get(a) or zero_adm.get(b): return 'isolated'
        if pc06.port_facts(desc, a, b)['floating_island']: return False
        return bool(ctx.driver.call('port_spec', net=jnet, n1=a, n2=b)['defined'])
    if compare_ports(out, net, net2, sigma, labels + dang, fail, 1e-8, core.Rng(tseed, 'port'), 8, admit):
        out.traces_validated += 1

CNEG = {'dc_voltage_source': 'V', 'ac_voltage_source': 'V', 'dc_current_source': 'I', 'ac_current_source': 'I', 'complex_voltage_source': 'V'}

def transform_circ(rng, comps):
    labels = sorted({n for c in comps for n in c['nodes']})
    cand = [l for l in dict.fromkeys(list(rng.choice(gen_net.LABEL_POOLS)) + [f'{x}{y}' for x in 'qQ9_' for y in 'aZ0~'])]
    rng.shuffle(cand)
    sigma = dict(zip(labels, cand[:len(labels)]))
    idf = rng.choice(gen_net.ID_POOLS)
    order = list(range(len(comps))); rng.shuffle(order)
    tau = {}; flips = set(); new = []
    for pos, k in enumerate(order):
        c = comps[k]
        nid = idf('y', (pos * 5 + 1) % 47) + f':{pos}'
        tau[c['id']] = nid
        nc = dict(kind=c['kind'], id=nid, nodes=[sigma[n] for n in c['nodes']], args=dict(c['args']))
        if c['kind'] != 'ground' and rng.random() < 0.4:
            flips.add(c['id']); nc['nodes'] = nc['nodes'][::-1]
            if c['kind'] in CNEG: nc['args'][CNEG[c['kind']]] = -nc['args'][CNEG[c['kind']]]
        new.append(nc)
    return new, sigma, tau, flips

def circuit_case(ctx, out, comps, w, tseed):
    from CircuitCalculator.Circuit import solution as sol
    out.evaluations += 1
    comps2, sigma, tau, flips = transform_circ(core.Rng(tseed, 'circ'), comps)
    canon = dict(level='circuit', kinds=sorted({c['kind'] for c in comps}))
    ids = [c['id'] for c in comps if c['kind'] != 'ground']
    try:
        c1 = gen_circ.to_impl(comps)
        if not (gen_circ.wellposed_at(ctx.driver, c1, w) and gen_circ.wellposed_at(ctx.driver, c1, 0.0)):
            out.count('circuit_illposed'); return
        s1 = sol.ComplexSolution(c1, w=w, peak_values=True); d1 = sol.DCSolution(c1)
        r1 = {k: (s1.get_voltage(k), s1.get_current(k), s1.get_power(k), d1.get_voltage(k), d1.get_current(k)) for k in ids}
        g1 = c1.ground_node
        pot1 = {n: s1.get_potential(n) for n in sigma}
    except Exception as e:
        out.count('circuit_unsolvable:' + tag(e)); return
    if not all(np.all(np.isfinite(np.array(x, dtype=complex))) for x in r1.values()): out.count('non_finite'); return
    scale = max([abs(x) for r in r1.values() for x in r[:2]] + [1.0])
    if scale > 1e8: out.skip('ill_conditioned'); return
    try:
        c2 = gen_circ.to_impl(comps2)
        s2 = sol.ComplexSolution(c2, w=w, peak_values=True); d2 = sol.DCSolution(c2)
        r2 = {k: (s2.get_voltage(tau[k]), s2.get_current(tau[k]), s2.get_power(tau[k]), d2.get_voltage(tau[k]), d2.get_current(tau[k])) for k in ids}
        pot2 = {n: s2.get_potential(sigma[n]) for n in sigma}
    except Exception as e:
        out.spec_fail(dict(canon, symptom='raises', exc=tag(e)), 'transformed circuit fails to solve', gen_circ.pretty(comps),
                      impl=dict(transformed=gen_circ.pretty(comps2)), comps=comps, w=w, tseed=tseed); return
    out.nontrivial(('circ', tuple(sorted(c['kind'] for c in comps)), w > 0, bool(flips)))
    def fail(what, **impl):
        out.spec_fail(dict(canon, symptom=what), f'{what} changed under renaming / permutation / reversal', gen_circ.pretty(comps),
                      impl=dict(transformed=gen_circ.pretty(comps2), **impl), comps=comps, w=w, tseed=tseed)
    if sigma[g1] != c2.ground_node and any(c['kind'] == 'ground' for c in comps):
        return fail('ground_node', a=g1, b=c2.ground_node)
    ref = next(n for n in sigma if sigma[n] == c2.ground_node)
    for n in sigma:
        if not core.close(pot2[n], pot1[n] - pot1[ref], scale, 1e-8): return fail('potential', node=n, a=str(pot1[n] - pot1[ref]), b=str(pot2[n]))
    for k in ids:
        sg = -1 if k in flips else 1
        a, b = r1[k], r2[k]
        if not core.close(b[0], sg * a[0], scale, 1e-8): return fail('voltage', id=k, a=str(a[0]), b=str(b[0]))
        if not core.close(b[1], sg * a[1], scale, 1e-8): return fail('current', id=k, a=str(a[1]), b=str(b[1]))
        if not core.close(b[2], a[2], scale * scale, 1e-8): return fail('power', id=k, a=str(a[2]), b=str(b[2]))
        if not core.close(b[3], sg * a[3], scale, 1e-8): return fail('dc_voltage', id=k, a=str(a[3]), b=str(b[3]))
        if not core.close(b[4], sg * a[4], scale, 1e-8): return fail('dc_current', id=k, a=str(a[4]), b=str(b[4]))
    # ---- the multi-frequency time functions (C09 domain: all source frequencies at once) are invariant as well
    try:
        from CircuitCalculator.Circuit.circuit import frequency_components
        ws = frequency_components(c1, 0.0)
        ok_all = all(gen_circ.wellposed_at(ctx.driver, c1, float(x)) for x in ws)
    except Exception:
        ok_all = False
    if ok_all and len(ws) >= 1:
        try:
            t1 = sol.TimeDomainSolution(c1); f1 = {k: (t1.get_voltage(k), t1.get_current(k)) for k in ids}
        except Exception as e:
            out.count('timedomain_unsolvable:' + tag(e)); f1 = None
        if f1 is not None:
            try:
                t2 = sol.TimeDomainSolution(c2); f2 = {k: (t2.get_voltage(tau[k]), t2.get_current(tau[k])) for k in ids}
                ts = [0.0, 0.3, 1.1, 2.7]
                for k in ids:
                    sg = -1 if k in flips else 1
                    for q, what in ((0, 'time_voltage'), (1, 'time_current')):
                        a = np.array([complex(f1[k][q](t)) for t in ts]); b = np.array([complex(f2[k][q](t)) for t in ts])
                        if not (np.all(np.isfinite(a)) and np.all(np.isfinite(b))): continue
                        if np.max(np.abs(b - sg * a)) > 1e-7 * max(scale * len(ws), float(np.max(np.abs(a)))):
                            return fail(what, id=k, frequencies=[float(x) for x in ws], a=str(list(a)), b=str(list(sg * b)))
                out.count('timedomain_compared:%d' % len(ws))
            except Exception as e:
                out.spec_fail(dict(canon, symptom='raises', exc=tag(e), op='time_domain'), 'transformed circuit fails in the time-domain solution',
                              gen_circ.pretty(comps), impl=dict(transformed=gen_circ.pretty(comps2)), comps=comps, w=w, tseed=tseed); return
    out.traces_validated += 1

def transform_state(rng, desc):
    """bijective renaming of nodes and ids from the adversarial pools, permutation of the listing
    order (ground position too), reversed subset of the passive elements"""
    import gen_state
    labels = gen_state.labels_of(desc)
    cand = [l for l in dict.fromkeys(list(rng.choice(gen_net.LABEL_POOLS)) + [f'{x}{y}' for x in 'qQ9_' for y in 'aZ0~'])]
    rng.shuffle(cand)
    sigma = dict(zip(labels, cand[:len(labels)]))
    pool = list(gen_state.ADV_POOL) + [f'{a}{b}' for a in 'AMZamz' for b in '019']
    rng.shuffle(pool)
    order = list(range(len(desc['comps']))); rng.shuffle(order)
    tau = {}; flips = set(); comps = []
    for pos, k in enumerate(order):
        c = desc['comps'][k]
        tau[c['id']] = pool[pos]
        n1, n2 = sigma[c['n1']], sigma[c['n2']]
        if c['kind'] in ('R', 'C', 'L') and rng.random() < 0.4:
            n1, n2 = n2, n1; flips.add(c['id'])
        comps.append(dict(kind=c['kind'], id=pool[pos], n1=n1, n2=n2, val=c['val']))
    return dict(ground=sigma[desc['ground']], comps=comps, ground_pos=rng.randint(0, len(comps))), sigma, tau, flips

def state_case(ctx, out, desc, tseed):
    """state-space transfer behaviour and transient waveforms are invariant (C10 / C12 domain)"""
    import gen_state
    from CircuitCalculator.Circuit.solution import TransientSolution
    out.evaluations += 1
    drv = ctx.driver
    if drv is None: return
    ok, why = gen_state.nondegenerate(drv, desc)
    if not ok:
        out.count('state_degenerate:' + why); return
    desc2, sigma, tau, flips = transform_state(core.Rng(tseed, 'state'), desc)
    canon = dict(level='statespace', kinds=sorted({c['kind'] for c in desc['comps']}))
    ids = [c['id'] for c in desc['comps']]
    def transfer(im, labels, idlist, w):
        ssm = im.ssm
        A = np.asarray(ssm.A, dtype=complex); B = np.asarray(ssm.B, dtype=complex)
        X = np.linalg.solve(1j * w * np.eye(A.shape[0]) - A, B) if A.shape[0] else np.zeros((0, B.shape[1]), dtype=complex)
        rows = {}
        for n in labels:
            rows[('pot', n)] = np.asarray(ssm.c_row_for_potential(n), dtype=complex).reshape(1, -1) @ X + np.asarray(ssm.d_row_for_potential(n), dtype=complex).reshape(1, -1)
        for i in idlist:
            rows[('v', i)] = np.asarray(ssm.c_row_voltage(i), dtype=complex).reshape(1, -1) @ X + np.asarray(ssm.d_row_voltage(i), dtype=complex).reshape(1, -1)
            rows[('i', i)] = np.asarray(ssm.c_row_current(i), dtype=complex).reshape(1, -1) @ X + np.asarray(ssm.d_row_current(i), dtype=complex).reshape(1, -1)
        return {k: v.reshape(-1) for k, v in rows.items()}, list(ssm.sources)
    try:
        im1 = gen_state.impl_model(desc)
    except Exception as e:
        out.count('state_unbuildable:' + tag(e)); return
    try:
        im2 = gen_state.impl_model(desc2)
    except Exception as e:
        out.spec_fail(dict(canon, symptom='raises', exc=tag(e)), 'renamed / permuted circuit has no state-space model', gen_state.pretty(desc),
                      impl=dict(transformed=gen_state.pretty(desc2)), sdesc=desc, tseed=tseed); return
    out.nontrivial(('state', gen_state.shape(desc), bool(flips)))
    labels = gen_state.labels_of(desc)
    for w in (0.0, 0.5, 2.0):
        try:
            t1, src1 = transfer(im1, labels, ids, w)
            t2, src2 = transfer(im2, [sigma[n] for n in labels], [tau[i] for i in ids], w)
        except Exception as e:
            out.count('state_transfer_error:' + tag(e)); return
        if sorted(tau[x] for x in src1) != sorted(src2):
            out.spec_fail(dict(canon, symptom='sources_changed'), 'published source list changed under renaming', gen_state.pretty(desc),
                          impl=dict(a=src1, b=src2), sdesc=desc, tseed=tseed); return
        col = {s: src2.index(tau[s]) for s in src1}
        scale = max([1.0] + [abs(x) for v in t1.values() for x in v])
        for (kind, key), row in t1.items():
            key2 = sigma[key] if kind == 'pot' else tau[key]
            sg = -1 if (kind != 'pot' and key in flips) else 1
            for k, s_ in enumerate(src1):
                if not core.close(t2[(kind, key2)][col[s_]], sg * row[k], scale, 1e-7):
                    out.spec_fail(dict(canon, symptom='transfer_changed', output=kind), f'transfer from {s_!r} to {kind} {key!r} changed under renaming / permutation / reversal (w={w})',
                                  gen_state.pretty(desc), impl=dict(transformed=gen_state.pretty(desc2), a=str(sg * row[k]), b=str(t2[(kind, key2)][col[s_]])),
                                  sdesc=desc, tseed=tseed)
                    return
    # transient waveforms
    try:
        tin = np.linspace(0.0, 2.0, 41)
        srcs = [c['id'] for c in desc['comps'] if c['kind'] in ('V', 'I')]
        wave = {s: (lambda t, k=k: (1.0 + 0.5 * k) * np.minimum(t, 1.0)) for k, s in enumerate(srcs)}
        ts1 = TransientSolution(im1.circuit, tin=tin, input=wave)
        ts2 = TransientSolution(im2.circuit, tin=tin, input={tau[s]: f for s, f in wave.items()})
        for n in labels:
            a = np.asarray(ts1.get_potential(n)[1], dtype=float); b = np.asarray(ts2.get_potential(sigma[n])[1], dtype=float)
            if not np.allclose(a, b, rtol=1e-6, atol=1e-8 * max(1.0, np.max(np.abs(a)))):
                out.spec_fail(dict(canon, symptom='transient_changed'), f'transient potential of {n!r} changed under renaming / permutation / reversal',
                              gen_state.pretty(desc), impl=dict(transformed=gen_state.pretty(desc2)), sdesc=desc, tseed=tseed)
                return
    except Exception as e:
        out.count('state_transient_error:' + tag(e))
    out.traces_validated += 1

def run(ctx, out):
    out.rule = ('random well-posed networks (C01 domain) and RLC circuits (C02 domain) × one random transformation each '
                '(bijective renaming from adversarial pools ∘ permutation ∘ reversed subset ∘ new reference); port impedances of the same networks and of networks extended by nodes hanging only on '
                'zero-admittance branches (ports on which the exact model says the impedance is defined); distinct by '
                '(level, shape / kind multiset, frequency class, whether a reversal occurred)')
    rng = ctx.rng('random')
    n1, n2 = (200, 150) if ctx.quick else (5000, 4000)
    for k in range(n1):
        if ctx.time_left() < 20: break
        network_case(ctx, out, gen_net.random_desc(rng, exact=rng.random() < 0.6, n_nodes=rng.randint(2, 7),
                                                   degenerate=rng.choice([0.0, 0.0, 0.15, 0.3])), rng.randrange(1 << 30))
    for k in range(120 if ctx.quick else 3000):
        if ctx.time_left() < 30: break
        port_case(ctx, out, gen_net.random_desc(rng, exact=rng.random() < 0.6, n_nodes=rng.randint(2, 6), degenerate=rng.choice([0.0, 0.0, 0.2]),
                                                kinds=gen_net.PASSIVE_KINDS + ['vs_ideal', 'vs_lossy', 'cs_lossy']), rng.randrange(1 << 30))
    for k in range(n2):
        if ctx.time_left() < 30: break
        circuit_case(ctx, out, gen_circ.random_circuit(rng), rng.choice([0.0, 1.0, 2.0]), rng.randrange(1 << 30))
    # several sources sharing few frequencies, listed in every order (seeded change C03-5A: a merge of the source
    # frequencies that is only right for a sorted listing needs two sources of one frequency with another in between)
    rngm = ctx.rng('multi_source')
    for k in range(60 if ctx.quick else 1500):
        if ctx.time_left() < 25: break
        out.count('multi_source_circuit')
        circuit_case(ctx, out, gen_circ.random_circuit(rngm, n_nodes=rngm.randint(2, 4), n_sources=rngm.randint(3, 5),
                                                       sources=['dc_voltage_source', 'dc_current_source', 'ac_voltage_source', 'ac_current_source'],
                                                       w_pool=rngm.choice([(1.0, 2.0), (0.0, 1.0, 2.0), (0.5, 1.0)])),
                     rngm.choice([0.0, 1.0, 2.0]), rngm.randrange(1 << 30))
    import gen_state
    for k in range(160 if ctx.quick else 3000):
        if ctx.time_left() < 10: break
        state_case(ctx, out, gen_state.random_desc(rng, safe=False), rng.randrange(1 << 30))

def replay(ctx, out, rp):
    if 'sdesc' in rp: state_case(ctx, out, rp['sdesc'], rp['tseed'])
    elif 'pdesc' in rp: port_case(ctx, out, rp['pdesc'], rp['tseed'])
    elif 'desc' in rp: network_case(ctx, out, rp['desc'], rp['tseed'])
    else: circuit_case(ctx, out, rp['comps'], rp['w'], rp['tseed'])
