"""
C01 — steady-state solution obeys Kirchhoff's laws and every element law.

Correspondence: `mna` (index maps, matrix, right-hand side: exact tier bit-for-bit),
accessors applied to numpy's own solution vector.  Oracle: CircuitEqs residuals
(CC/Spec/Circuit.lean, evaluated exactly by the driver) on the values the implementation
reports; well-posedness decided exactly from the spec's own tableau.
"""
from __future__ import annotations
import itertools
import numpy as np
import core, gen_net

ID = 'C01'
LEAN_MODULE = 'CC.Properties.C01'
LEVEL = 'proof'
THEOREMS = [
    'CC.C01_sound', 'CC.C01_kcl_reference', 'CC.C01_current_cases', 'CC.C01_power',
    'CC.C01_complete', 'CC.C01_unique', 'CC.C01_matrix_unique', 'CC.C01_reported_is_the_solution',
    'CC.C01_solvable', 'CC.C01_square', 'CC.kcl_identity', 'CC.matVec_iff_rows', 'CC.exampleReport_solves',
]
THEOREMS += ['CC.C01_gen_values', 'CC.C01_gen_predicates', 'CC.C01_gen_isfinite', 'CC.C01_gen_finite', 'CC.C01_gen_factories',
    'CC.C01_gen_factory_kinds', 'CC.C01_gen_node_labels', 'CC.C01_gen_check', 'CC.C01_gen_getitem', 'CC.C01_gen_branch_filters',
    'CC.C01_gen_nodes', 'CC.C01_gen_source_ids', 'CC.C01_gen_Yentry', 'CC.C01_gen_dir', 'CC.C01_gen_Qentry', 'CC.C01_gen_rhsNode',
    'CC.C01_gen_mnaA', 'CC.C01_gen_mnaB', 'CC.C01_gen_assemble', 'CC.C01_gen_potential', 'CC.C01_gen_voltage', 'CC.C01_gen_current',
    'CC.C01_gen_power', 'CC.C01_gen_solution_vector']
LEAN_MODULE_EXTRA = ['CC.Proofs.Solvable', 'CC.Properties.C01Gen', 'CC.Properties.C01Det']
THEOREMS += ['CC.C01_det_ne_zero', 'CC.C01_det_iff', 'CC.C01_exists']
# self-loop branches (repaired in node_analysis.py): the witness worked out over Q (CC/Properties/C01More.lean) and the
# theorems without the hypothesis WF.no_self_loop (CC/Properties/C01SelfLoop.lean)
LEAN_MODULE_EXTRA += ['CC.Properties.C01More', 'CC.Properties.C01SelfLoop']
THEOREMS += ['CC.C01_self_loop_witness', 'CC.sound_all', 'CC.kcl_identity_all', 'CC.complete_rows_all',
             'CC.C01_sound_selfloops', 'CC.C01_kcl_reference_selfloops', 'CC.C01_complete_selfloops',
             'CC.C01_matrix_unique_selfloops', 'CC.C01_reported_is_the_solution_selfloops', 'CC.C01_solvable_selfloops',
             'CC.C01_exists_selfloops', 'CC.C01_selfloop_voltage_source']
OPEN_STATEMENTS = [
    'self-loop branches: C01_sound_selfloops / C01_complete_selfloops / C01_matrix_unique_selfloops / C01_exists_selfloops hold for every network Network.__post_init__ accepts (N.check = ok) — admittances, impedances, open circuits and current sources from a node to itself are ordinary inputs, judged by the Spec oracle on every run; a self-loop ideal voltage source / short circuit is not well-posed (C01_selfloop_voltage_source: solvable only for V = 0, and then its own current is undetermined) and stays outside the domain like every other ill-posed network (singular matrix, solver fallback not judged); C01_sound / C01_complete keep their statements with Net.WF (downstream theorems of C02–C06, C09–C12, C16 carry it)',
    'the reference-direction convention of linear sources (shipped examples 3 and 14) is part of the Spec (Elem.lawResidual) and pinned by the harness corpus; the C01_examples theorem of the plan (DESIGN §5) was not written',
]
ASSUMPTIONS = [
    'binary64 arithmetic of numpy/LAPACK agrees with field arithmetic within 1e-9 relative on instances with cond(A) < 1e8',
    'numpy.linalg.solve is a parameter of the model: theorems hold for every vector with A·x = b; the driver checks that equation exactly',
    'hand-written model CC/Model/{Net,MNA}.lean is tied to the code twice: by the translator (CC/Gen/Core.lean, regenerated from the AST on every run, is proved equal to the hand model by the C01_gen_* theorems) and by the mna/access correspondence',
    'CC.Py (CC/Model/CoreBase.lean) is the reading of the Python/numpy idioms the generated core uses (inf/nan values, dict last-wins, stable sort, slices)',
]

EXC = {'FloatingGroundNode': 'FloatingGroundNode', 'AmbiguousBranchIDs': 'AmbiguousIDs',
       'KeyError': 'KeyError', 'IndexError': 'KeyError', 'ValueError': 'ValueError',
       'TypeError': 'TypeError', 'ZeroDivisionError': 'ZeroDivisionError', 'LinAlgError': 'LinAlgError',
       'AttributeError': 'AttributeError'}

def tag(e: BaseException) -> str:
    return EXC.get(type(e).__name__, type(e).__name__)

def _vec_eq(a, b, exact, scale=0.0):
    """entrywise agreement of two exact-rational vectors: |impl − model| ≤ 1e-12·(1+|x|)
    (assembly errors are O(1); float rounding of 1/Z and of sums is ~1e-16)"""
    if len(a) != len(b):
        return False
    return all(core.close(core.cfloat(x), core.cfloat(y), 0.0, 1e-12) for x, y in zip(a, b))

def _bit_exact(m, asm):
    return all(core.unqc(x) == core.unqc(y) for r1, r2 in zip(m['A'], asm['A']) for x, y in zip(r1, r2)) and \
           all(core.unqc(x) == core.unqc(y) for x, y in zip(m['b'], asm['b']))

def impl_assemble(net):
    from CircuitCalculator.Network.NodalAnalysis import node_analysis as na, label_mapping as lm
    A = na.nodal_analysis_coefficient_matrix(net)
    b = na.nodal_analysis_constants_vector(net)
    return dict(nodes=lm.alphabetic_node_mapper(net).keys, vs=lm.alphabetic_voltage_source_mapper(net).keys,
                cs=lm.alphabetic_current_source_mapper(net).keys,
                A=[[core.qc(x) for x in row] for row in np.asarray(A, dtype=complex)],
                b=[core.qc(x) for x in np.asarray(b, dtype=complex)]), A

def impl_report(net, sol):
    labels = net.node_labels
    pot = {n: complex(sol.get_potential(n)) for n in labels}
    v = {b.id: complex(sol.get_voltage(b.id)) for b in net.branches}
    i = {b.id: complex(sol.get_current(b.id)) for b in net.branches}
    p = {b.id: complex(sol.get_power(b.id)) for b in net.branches}
    return pot, v, i, p

def zero_touches_only_ideal_vs(desc):
    z = desc['zero']
    touching = [d for d in desc['branches'] if z in (d['n1'], d['n2'])]
    return bool(touching) and all(d['kind'] in ('vs_ideal', 'short') for d in touching)

def check_case(ctx, out, desc, exact, origin):
    from CircuitCalculator.Network.NodalAnalysis.bias_point_analysis import nodal_analysis_bias_point_solver
    drv = ctx.driver
    out.evaluations += 1
    jnet = gen_net.desc_to_json(desc)
    kinds = sorted({d['kind'] for d in desc['branches']})
    for k in kinds: out.count('kind:' + k)
    out.count(f'nodes:{len({d["n1"] for d in desc["branches"]} | {d["n2"] for d in desc["branches"]})}')
    out.count(f'branches:{len(desc["branches"])}')
    out.count('tier:' + ('exact' if exact else 'tolerance'))
    # ---- implementation: construct + assemble
    impl_err = None; net = None; asm = None; A_np = None
    try:
        net = gen_net.to_impl(desc)
        asm, A_np = impl_assemble(net)
    except Exception as e:
        impl_err = tag(e)
    # ---- correspondence on assembly
    if drv is not None:
        m = drv.call('mna', net=jnet)
        if 'err' in m or impl_err:
            if m.get('err') != impl_err:
                out.disagree('mna', gen_net.pretty(desc), impl_err or 'ok', m.get('err', 'ok'))
            else:
                out.count('assemble_error:' + str(impl_err))
        else:
            same = (m['nodes'] == asm['nodes'] and m['vs'] == asm['vs'] and m['cs'] == asm['cs']
                    and len(m['A']) == len(asm['A'])
                    and all(_vec_eq(r1, r2, exact, 1.0) for r1, r2 in zip(m['A'], asm['A']))
                    and _vec_eq(m['b'], asm['b'], exact, 1.0))
            out.traces_validated += 1
            if same and _bit_exact(m, asm): out.count('mna_bit_exact')
            if not same:
                out.disagree('mna', gen_net.pretty(desc), {k: asm[k] for k in ('nodes', 'vs', 'cs', 'A', 'b')}, m)
    # ---- spec-level well-posedness
    if drv is None:
        return
    wp = drv.call('wellposed', net=jnet)
    if not wp['wellposed']:
        out.count('illposed')
        return
    out.nontrivial((gen_net.shape(desc), desc['zero'] == sorted({d['n1'] for d in desc['branches']} | {d['n2'] for d in desc['branches']})[0]))
    canon_base = dict(op='solve', kinds=kinds, zero_touches_only_ideal_vs=zero_touches_only_ideal_vs(desc),
                      has_self_loop=any(d['n1'] == d['n2'] for d in desc['branches']))
    # ---- a valid network never fails to solve
    try:
        if net is None:
            net = gen_net.to_impl(desc)
        sol = nodal_analysis_bias_point_solver(net)
        pot, v, i, p = impl_report(net, sol)
    except Exception as e:
        out.spec_fail(dict(canon_base, symptom='raises', exc=tag(e)),
                      f'well-posed network fails to solve: {type(e).__name__}', gen_net.pretty(desc),
                      impl=dict(exception=repr(e)), desc=desc)
        return
    if A_np is not None and A_np.size and np.linalg.cond(A_np) > 1e8:
        out.skip('ill_conditioned'); return
    # ---- oracle: circuit equations on the reported values
    report = dict(pot={k: core.qc(x) for k, x in pot.items()}, v={k: core.qc(x) for k, x in v.items()},
                  i={k: core.qc(x) for k, x in i.items()})
    if not all(np.isfinite(list(pot.values()) + list(v.values()) + list(i.values()))):
        out.spec_fail(dict(canon_base, symptom='non_finite'), 'non-finite reported value', gen_net.pretty(desc),
                      impl=dict(pot=str(pot), i=str(i)), desc=desc)
        return
    res = drv.call('spec_circuit', net=jnet, report=report)
    scale = max([abs(x) for x in list(pot.values()) + list(v.values()) + list(i.values())] + [1e-300])
    # purely relative tolerance: each residual against the exact magnitude of its own terms
    bad = {}
    if abs(core.cfloat(res['ref'])) > 0: bad['ref'] = res['ref']
    allm = {grp: {k: float(core.unq(m)) for k, m in res[grp + '_mag'].items()} for grp in ('volt', 'law', 'kcl')}
    gv = max(list(allm['volt'].values()) + [0.0])
    gi = max(list(allm['kcl'].values()) + [gen_net.ymax_json(jnet) * gv])
    floors = dict(volt=1e-12 * gv, kcl=1e-12 * gi, law=1e-12 * max(list(allm['law'].values()) + [gv, gi]))
    for grp in ('volt', 'law', 'kcl'):
        mags = allm[grp]
        floor = floors[grp]     # rounding noise at the problem's own scale (covariant under rescaling the sources)
        for k, r in res[grp].items():
            if abs(core.cfloat(r)) > max(1e-9 * mags[k], floor):
                bad[f'{grp}:{k}'] = (abs(core.cfloat(r)), mags[k])
    if bad:
        clause = sorted({k.split(':')[0] for k in bad})
        badkinds = sorted({res['kinds'][k.split(':', 1)[1]] for k in bad if k.startswith('law:')})
        out.spec_fail(dict(canon_base, symptom='circuit_equations', clauses=clause, law_kinds=badkinds),
                      f'reported solution violates the circuit equations ({", ".join(clause)})',
                      gen_net.pretty(desc), impl=dict(pot=str(pot), v=str(v), i=str(i)), spec=bad, desc=desc)
        return
    # power = V·conj(I)
    for k in v:
        if not core.rclose(p[k], v[k] * np.conj(i[k]), 0.0, 1e-12):
            out.spec_fail(dict(canon_base, symptom='power'), 'power ≠ V·conj(I)', gen_net.pretty(desc),
                          impl=dict(p=str(p[k]), v=str(v[k]), i=str(i[k])), desc=desc)
            return
    # ---- unique exact solution (spec tableau) vs reported values
    for n, val in wp['pot'].items():
        if n in pot and not core.rclose(pot[n], core.cfloat(val), scale, 1e-7):
            out.spec_fail(dict(canon_base, symptom='not_the_solution'), f'potential of {n!r} differs from the exact solution',
                          gen_net.pretty(desc), impl=dict(value=str(pot[n])), spec=dict(exact=val), desc=desc)
            return
    # ---- correspondence on the accessors, fed with numpy's own vector
    x_py = [core.qc(z) for z in np.asarray(sol._solution_vector, dtype=complex)]
    acc = drv.call('access', net=jnet, x=x_py)
    iscale = max(scale, gen_net.ymax_json(jnet) * scale)
    pscale = scale * iscale
    for e in acc['pot']:
        if 'ok' not in e['v'] or not core.rclose(pot[e['n']], core.cfloat(e['v']['ok']), scale, 1e-12):
            out.disagree('access.potential', gen_net.pretty(desc), str(pot[e['n']]), e['v'])
    for e in acc['br']:
        for key, impl_val in (('v', v), ('i', i), ('p', p)):
            if 'ok' not in e[key] or not core.rclose(impl_val[e['id']], core.cfloat(e[key]['ok']), pscale if key == 'p' else (iscale if key == 'i' else scale), 1e-11):
                out.disagree('access.' + key, gen_net.pretty(desc), str(impl_val[e['id']]), e[key], id=e['id'])
    out.traces_validated += 1
    out.sample(gen_net.pretty(desc))
    mapper_case(ctx, out, desc, net, pot, v, i, canon_base, A_np)
    port_voltage_case(ctx, out, desc, net, pot, canon_base)

def stable_seed(desc):
    import hashlib
    return int(hashlib.sha256(repr(gen_net.pretty(desc)).encode()).hexdigest()[:8], 16)

def permuted_mapper(base, seed):
    """a valid non-default index map: the default one with its indices permuted (public keyword of the solver,
    of open_circuit_impedance and of the state-space builder)"""
    from CircuitCalculator.Network.NodalAnalysis import label_mapping as lm
    def mapper(network):
        m = base(network)
        keys = list(m.keys)
        order = list(keys)
        core.Rng(seed, 'perm', len(keys)).shuffle(order)
        return lm.LabelMapping({k: j for j, k in enumerate(order)})      # enumeration order = index order, as the library's own maps
    return mapper

def mapper_case(ctx, out, desc, net, pot, v, i, canon_base, A_np):
    """the reported solution does not depend on the index maps handed to the solver (node numbering, source
    column order): the solver is run again with permuted maps and must report the same circuit quantities"""
    from CircuitCalculator.Network.NodalAnalysis.bias_point_analysis import NodalAnalysisBiasPointSolution
    from CircuitCalculator.Network.NodalAnalysis import label_mapping as lm
    seed = stable_seed(desc)
    cond = float(np.linalg.cond(A_np)) if A_np is not None and A_np.size else 1.0
    tol = min(1e-5, max(1e-8, cond * 1e-12))
    ps, is_ = gen_net.net_scales(net)
    scale = max([abs(x) for x in list(pot.values()) + list(v.values())] + [ps, 1e-300])
    iscale = max([abs(x) for x in i.values()] + [is_, 1e-300])
    variants = [('node_mapper', dict(node_mapper=permuted_mapper(lm.default_node_mapper, seed))),
                ('voltage_source_mapper', dict(voltage_source_mapper=permuted_mapper(lm.alphabetic_voltage_source_mapper, seed + 1))),
                ('current_source_mapper', dict(current_source_mapper=permuted_mapper(lm.alphabetic_current_source_mapper, seed + 2))),
                ('all_mappers', dict(node_mapper=permuted_mapper(lm.default_node_mapper, seed + 3),
                                     voltage_source_mapper=permuted_mapper(lm.alphabetic_voltage_source_mapper, seed + 4),
                                     current_source_mapper=permuted_mapper(lm.alphabetic_current_source_mapper, seed + 5)))]
    for name, kw in variants:
        canon = dict(canon_base, op='solve_with_custom_mapper', mapper=name)
        try:
            pot2, v2, i2, _ = impl_report(net, NodalAnalysisBiasPointSolution(network=net, **kw))
        except Exception as e:
            out.spec_fail(dict(canon, symptom='raises', exc=tag(e)), f'well-posed network fails to solve with a permuted {name}: {type(e).__name__}',
                          gen_net.pretty(desc), impl=dict(exception=repr(e)), desc=desc)
            return
        out.count('mapper:' + name)
        for what, a, b, sc in (('potential', pot, pot2, scale), ('voltage', v, v2, scale), ('current', i, i2, iscale)):
            for k in a:
                if not core.rclose(b[k], a[k], sc, tol):
                    out.spec_fail(dict(canon, symptom='depends_on_index_map', quantity=what),
                                  f'{what} of {k!r} changes when the solver is given a permuted {name} ({a[k]} → {b[k]})',
                                  gen_net.pretty(desc), impl=dict(default=str(a[k]), permuted=str(b[k])), desc=desc)
                    return

def port_voltage_case(ctx, out, desc, net, pot, canon_base):
    """open_circuit_voltage(network, a, b) is the difference of the solved potentials, for every ordered pair"""
    from CircuitCalculator.Network.NodalAnalysis.bias_point_analysis import open_circuit_voltage
    labels = sorted(pot)
    if len(labels) > 5:
        rng = core.Rng(stable_seed(desc), 'ocv'); labels = rng.sample(labels, 5)
    ps, _ = gen_net.net_scales(net)
    scale = max([abs(x) for x in pot.values()] + [ps, 1e-300])
    for a in labels:
        for b in labels:
            if a == b: continue
            try:
                got = complex(open_circuit_voltage(net, a, b))
            except Exception as e:
                out.spec_fail(dict(canon_base, op='open_circuit_voltage', symptom='raises', exc=tag(e)),
                              f'open_circuit_voltage({a!r}, {b!r}) raises {type(e).__name__} on a solved network', gen_net.pretty(desc), desc=desc)
                return
            out.count('ocv_pairs')
            if not core.rclose(got, pot[a] - pot[b], scale, 1e-7):
                out.spec_fail(dict(canon_base, op='open_circuit_voltage', symptom='not_potential_difference'),
                              f'open_circuit_voltage({a!r}, {b!r}) = {got}, the solved potentials give {pot[a] - pot[b]}',
                              gen_net.pretty(desc), impl=dict(value=str(got)), desc=desc)
                return

CORPUS = [
    # reference node touching only an ideal voltage source (well-posed)
    dict(zero='0', branches=[dict(n1='1', n2='0', id='V', kind='vs_ideal', args=dict(V=10.0)),
                             dict(n1='1', n2='2', id='R1', kind='resistor', args=dict(R=2.0)),
                             dict(n1='2', n2='1', id='R2', kind='resistor', args=dict(R=4.0))]),
    # shipped example shapes: lossy sources in generator direction
    dict(zero='0', branches=[dict(n1='1', n2='0', id='Vq', kind='vs_lossy', args=dict(V=8.0, Z=2.0)),
                             dict(n1='1', n2='0', id='R', kind='resistor', args=dict(R=2.0))]),
    dict(zero='b', branches=[dict(n1='a', n2='b', id='Z9', kind='cs_lossy', args=dict(I=complex(1, 1), Y=complex(0.5, 0))),
                             dict(n1='b', n2='a', id='A1', kind='admittance', args=dict(Y=complex(0.25, -0.5))),
                             dict(n1='a', n2='c', id='M', kind='impedance', args=dict(Z=complex(0, 2))),
                             dict(n1='c', n2='b', id='B', kind='vs_ideal', args=dict(V=complex(0, 4)))]),
    # a self-loop branch is electrically inert (no incidence); the exact tableau gives φ(1) = −2 (before the self-loop
    # repair of node_analysis.py the diagonal counted S and the solver reported −1; Lean: C01_self_loop_witness)
    dict(zero='0', branches=[dict(n1='1', n2='0', id='I', kind='cs_ideal', args=dict(I=1.0)),
                             dict(n1='1', n2='0', id='R', kind='resistor', args=dict(R=2.0)),
                             dict(n1='1', n2='1', id='S', kind='resistor', args=dict(R=2.0))]),
]

def with_self_loops(rng, desc):
    """the same network plus 1–2 branches whose two terminals are the same node (passive element, open circuit,
    short circuit, ideal or linear current source, linear voltage source): ordinary inputs of the property since the
    self-loop repair — electrically inert, judged by the Spec oracle like every other network (a self-loop short
    circuit leaves its own current undetermined: the spec tableau is singular and the case counts as ill-posed)"""
    d = dict(zero=desc['zero'], branches=[dict(b, args=dict(b['args'])) for b in desc['branches']])
    labels = sorted({b['n1'] for b in d['branches']} | {b['n2'] for b in d['branches']})
    for k in range(rng.randint(1, 2)):
        n = rng.choice(labels)
        kind = rng.choice(['resistor', 'admittance', 'impedance', 'conductor', 'open', 'short', 'cs_ideal', 'cs_lossy', 'vs_lossy'])
        d['branches'].insert(rng.randrange(len(d['branches']) + 1), dict(n1=n, n2=n, id=f'loop{k}', kind=kind, args=gen_net.gen_args(rng, kind)))
    return d

def run(ctx, out):
    out.rule = ('connected multigraphs (spanning tree + extra/parallel edges, random terminal order, adversarial '
                'labels/ids, every element factory, random reference node); exact tier = dyadic/small-integer values, '
                'tolerance tier = decades; a case is non-trivial when the spec tableau is non-singular (well-posed), '
                'distinct by (node count, branch count, kind multiset, reference-is-first-label)')
    n_random = 260 if ctx.quick else 6000
    for desc in CORPUS:
        check_case(ctx, out, desc, True, 'corpus')
    rng = ctx.rng('random')
    for k in range(n_random):
        if ctx.time_left() < 10: out.notes.append(f'stopped after {k} random cases (budget)'); break
        exact = rng.random() < 0.7
        desc = gen_net.random_desc(rng, exact=exact, degenerate=0.08 if rng.random() < 0.3 else 0.0)
        check_case(ctx, out, desc, exact, 'random')
        if k % 12 == 0:
            check_case(ctx, out, with_self_loops(rng, desc), exact, 'random')
    # bounded-exhaustive small topologies
    max_b = 2 if ctx.quick else 3
    n_enum = 0
    for desc in gen_net.enumerate_small(3, max_b):
        if ctx.time_left() < 5: out.notes.append('enumeration cut by budget'); break
        check_case(ctx, out, desc, True, 'enum'); n_enum += 1
    out.extra['enumerated_small'] = n_enum
    out.extra['exhaustive_small'] = f'all connected multigraphs ≤3 nodes ≤{max_b} branches × 6 kinds × source orientations × every reference'

def replay(ctx, out, rp):
    desc = rp.get('desc') or (rp.get('input') if isinstance(rp.get('input'), dict) and 'branches' in rp.get('input', {}) and isinstance(rp['input']['branches'][0], dict) else None)
    if desc is None:
        raise SystemExit('replay file carries no network description')
    check_case(ctx, out, desc, True, 'replay')
