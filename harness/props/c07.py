"""
C07 — every component becomes exactly one faithful network branch.

Tie to the source
  translator     harness/extract_circuit.py regenerates CC/Gen/{CircuitTables,Components,Transform}.lean
                 (dispatch table, constructors, translator bodies); the theorems of
                 CC/Properties/C07.lean are stated over those definitions.
  correspondence the interpreter of CC/Model/Circuit.lean (driver ops cc_transform, cc_transform1,
                 cc_circuit, cc_tables) against transform_circuit / transform / the translators /
                 Circuit.ground_node of the real code, per kind × position × frequency.
Oracle           CC/Spec/Phasor.lean (driver op cc_spec_net): the intended branch of every
                 component, evaluated on the implementation's own output.
"""
from __future__ import annotations
import copy, inspect, math
import numpy as np
import core, gen_circuit as gc

ID = 'C07'
LEAN_MODULE = 'CC.Properties.C07'
LEVEL = 'proof'
THEOREMS = [
    'CC.C07_table_total', 'CC.C07_reads_written', 'CC.C07_body_keys_in_reads', 'CC.C07_spec_covers_kinds', 'CC.C07_table_wellformed',
    'CC.C07_one_to_one', 'CC.C07_never_drops', 'CC.C07_nothing_dropped', 'CC.C07_unknown_kind_raises',
    'CC.C07_branch_id_terminals', 'CC.C07_position_independent',
    'CC.C07_faithful_resistor', 'CC.C07_faithful_conductance', 'CC.C07_faithful_impedance', 'CC.C07_faithful_admittance',
    'CC.C07_faithful_capacitor', 'CC.C07_faithful_inductance', 'CC.C07_faithful_load', 'CC.C07_faithful_short_circuit',
    'CC.C07_faithful_dc_voltage_source', 'CC.C07_faithful_ac_voltage_source',
    'CC.C07_faithful_complex_voltage_source', 'CC.C07_faithful_dc_current_source',
    'CC.C07_faithful_ac_current_source', 'CC.C07_faithful_complex_current_source',
    'CC.C07_harmonic_voltage', 'CC.C07_harmonic_current',
    'CC.C07_harmonic_sound', 'CC.C07_harmonic_complete', 'CC.C07_harmonic_index',
    'CC.C07_faithful_nonperiodic', 'CC.C07_harmonic', 'CC.C07_faithful',
    'CC.C07_ground', 'CC.C07_limits_dc', 'CC.C07_limits_zero_resistance',
    'CC.C07_limits_open_switch', 'CC.C07_open_switch_record', 'CC.C07_open_switch_network',
    'CC.C07_periodic_fundamental_guarded', 'CC.C07_periodic_fundamental_positive', 'CC.C07_zero_fundamental_rejected',
]
OPEN_STATEMENTS = []
ASSUMPTIONS = [
    'C07_faithful / C07_harmonic hold for periodic sources only under periodicOK: analysis frequency w >= 0 and resolution 0 <= w_res < w0/2 (known wavetype, internal R / G >= 0); for w < 0 the code raises ValueError, for w_res >= w0/2 the code takes the nearest harmonic and the Spec the lower one (arbitrary tie-break of the Spec) — both outside the property\'s quantifier; the non-periodic kinds carry no condition on w, w_res',
    'the faithfulness theorems are conditional on Spec.branchOf = some …: C07_spec_covers_kinds shows the Spec has an entry for every constructible kind; a component lacking the values its kind needs has no Spec branch and is judged by the oracle only (an accepted component must translate)',
    'np.cos / np.sin are parameters of the model (trig : Rat → Rat × Rat); the harness passes numpy\'s own values',
    'the harmonic coefficients amplitude(n), phase(n) of periodic_functions.py are parameters (property C08); the harness passes the repo\'s own values',
    'reals are modelled as rationals plus the single extended value inf (Val.inf); only resistor(R = inf), the open switch, is given a meaning: its record NortenElement(Z=inf, V=0) is represented by the open-circuit record (Y=0, I=0), which has the same derived values and predicates; other uses of inf are outside the model',
    'the interpreter CC/Model/Circuit.lean (meaning of the generated syntax) is tied to the code by the cc_transform correspondence only',
    'when one component carries several faults at once the model may report a different one of them than Python does',
]

WRES_DYADIC = 2.0 ** -10

# --------------------------------------------------------------------------- tables

def check_tables(ctx, out):
    """generated tables == the live objects (guards against a translator that reads the
    wrong thing)"""
    from CircuitCalculator.Circuit import transformers as tr, dump_load as dl, components as ccp, circuit as cc
    from CircuitCalculator.Network import loaders
    from CircuitCalculator.SignalProcessing import periodic_functions as pf
    t = ctx.driver.call('cc_tables')
    out.evaluations += 1
    live = [[k, f.__name__] for k, f in tr.transformers.items()]
    if t['transformers'] != live:
        out.disagree('cc_tables.transformers', None, live, t['transformers'])
    live = [[k, f.__name__] for k, f in dl.circuit_component_translators.items()]
    if t['loaders'] != live:
        out.disagree('cc_tables.loaders', None, live, t['loaders'])
    if [k for k, _ in t['network_branch_translators']] != list(loaders.network_branch_translators.keys()):
        out.disagree('cc_tables.network_branch_translators', None, list(loaders.network_branch_translators.keys()), t['network_branch_translators'])
    live = [c.wavetype for c in pf.periodic_functions]
    if t['waves'] != live:
        out.disagree('cc_tables.waves', None, live, t['waves'])
    wr = inspect.signature(cc.transform_circuit).parameters['w_resolution'].default
    if core.unq(t['w_resolution']) != core.unq(core.q(wr)):
        out.disagree('cc_tables.w_resolution', None, wr, t['w_resolution'])
    ctors = gc.constructors()
    if [c['fn'] for c in t['ctors']] != list(ctors.keys()):
        out.disagree('cc_tables.ctors', None, list(ctors.keys()), [c['fn'] for c in t['ctors']])
    for c in t['ctors']:
        f = ctors.get(c['fn'])
        if f is None: continue
        ps = list(inspect.signature(f).parameters.values())[2:]
        live = [(p.name, None if p.default is inspect._empty else p.default) for p in ps]
        gen = [(p['name'], None if p['default'] is None else gc.val_back(p['default'])) for p in c['params']]
        if [n for n, _ in live] != [n for n, _ in gen] or any((a is None) != (b is None) or (a is not None and a != b) for (_, a), (_, b) in zip(live, gen)):
            out.disagree('cc_tables.ctor_params', c['fn'], live, gen)
    out.traces_validated += 1

# --------------------------------------------------------------------------- one case

def impl_transform(comps, w, wres):
    from CircuitCalculator.Circuit import circuit as cc
    try:
        C = cc.Circuit(list(comps))
        N = cc.transform_circuit(C, w, wres)
        return None, C, N
    except Exception as e:
        return e, None, None

def canon_of(kind, symptom, **kw):
    d = dict(op='transform_circuit', component_kind=kind, symptom=symptom)
    d.update(kw)
    return d

def spec_compare(bi, bs):
    """implementation branch (driver JSON) against the intended one; returns the name of the
    first field that differs, or None"""
    if (bi['n1'], bi['n2']) != (bs['n1'], bs['n2']): return 'terminals'
    if bi['id'] != bs['id']: return 'id'
    if bi['e']['k'] != bs['e']['k']: return 'record_kind'
    if not core.close(core.cfloat(bi['e']['a']), core.cfloat(bs['e']['a']), 0.0, 1e-12): return 'immittance'
    if not core.close(core.cfloat(bi['e']['b']), core.cfloat(bs['e']['b']), 0.0, 1e-12): return 'source'
    return None

def internal_nonzero(c):
    v = c.value
    return any(k in v and gc.is_real(v[k]) and v[k] != 0 for k in ('R', 'G', 'X', 'B')) and 'source' in c.type

def check_case(ctx, out, descs, w, wres, origin, tested=None):
    """descs: valid component descriptions; w, wres: floats"""
    from CircuitCalculator.Circuit import circuit as cc, transformers as tr
    drv = ctx.driver
    out.evaluations += 1
    comps = [gc.build(d) for d in descs]
    for c in comps: out.count('kind:' + c.type)
    out.count('origin:' + origin)
    trig, harm = gc.params_for(comps, w)
    req = dict(components=[gc.comp_json(c) for c in comps], w=core.q(w), wres=core.q(wres), trig=trig, harm=harm)
    exc, C, N = impl_transform(comps, w, wres)
    finite = N is None or gc.finite_net(N)
    inp = dict(components=gc.pretty(descs), w=w, w_resolution=wres)
    # ---- correspondence: model vs implementation
    if drv is not None and finite:
        m = drv.call('cc_transform', **req)
        if exc is not None or 'err' in m:
            if m.get('err') != (gc.tag(exc) if exc is not None else None):
                out.disagree('cc_transform', inp, gc.tag(exc) if exc is not None else 'ok', m.get('err', 'ok'))
            else:
                out.count('error:' + gc.tag(exc))
        else:
            jn = gc.net_json(N)
            mn = m['ok']
            ok = jn['zero'] == mn['zero'] and len(jn['branches']) == len(mn['branches'])
            bit = True
            if ok:
                for bi, bm in zip(jn['branches'], mn['branches']):
                    same, ex = gc.branches_close(bi, bm)
                    ok = ok and same and bi['ty'] == bm['ty']
                    bit = bit and ex
            if not ok:
                out.disagree('cc_transform', inp, jn, mn)
            elif bit:
                out.count('bit_exact')
        out.traces_validated += 1
    if drv is None:
        return
    # ---- oracle: the intended network (Spec) against what the implementation produced
    sp = drv.call('cc_spec_net', **req)
    non_ground = [c for c in comps if c.type != 'ground']
    ng_descs = [d for d in descs if d['fn'] != 'ground']
    for (c, s), d_c in zip(zip(non_ground, sp['branches']), ng_descs):
        kind = c.type
        descs_c = [d_c]
        key = (kind, origin if origin != 'random' else '', w == 0, tested == c.id, min(non_ground.index(c), 4),
               s['branch'] is not None and s['branch']['e']['b'] != ['0', '0'], wres == WRES_DYADIC)
        if s['branch'] is None:
            # the specification has no intended branch for this component (it does not carry the values its
            # kind needs).  No exemption: a component its own constructor accepted must still translate
            if kind in tr.transformers:
                try:
                    tr.transformers[kind](c, w, wres)
                except Exception as e:
                    out.spec_fail(canon_of(kind, 'raises', exc=gc.tag(e)),
                                  f'translator of {kind!r} raises {type(e).__name__}: {e} on a component built by its own constructor',
                                  inp, impl=dict(exception=repr(e), value=str(c.value)), descs=descs_c, w=w, wres=wres)
                    continue
            out.skip('outside_spec_domain:' + kind)
            continue
        if kind not in tr.transformers:
            out.spec_fail(canon_of(kind, 'branch_missing'),
                          f'component {c.id!r} of kind {kind!r} has no network branch (silently dropped)',
                          inp, impl=dict(branch_ids=[b.id for b in N.branches] if N is not None else gc.tag(exc)),
                          spec=s['branch'], descs=descs, w=w, wres=wres)
            continue
        try:
            b = tr.transformers[kind](c, w, wres)
        except Exception as e:
            out.spec_fail(canon_of(kind, 'raises', exc=gc.tag(e)),
                          f'translator of {kind!r} raises {type(e).__name__}: {e}', inp,
                          impl=dict(exception=repr(e)), spec=s['branch'], descs=descs_c, w=w, wres=wres)
            continue
        if not gc.finite_net(type('N', (), dict(branches=[b]))()):
            out.skip('non_finite_record'); continue
        bi = dict(n1=b.node1, n2=b.node2, id=b.id, ty=b.element.type, e=gc.elem_json(b.element))
        diff = spec_compare(bi, s['branch'])
        if diff is not None:
            active = s['branch']['e']['b'] != ['0', '0'] or s['branch']['e']['a'] != ['0', '0']
            out.spec_fail(canon_of(kind, 'wrong_record', field=diff, internal_immittance_nonzero=internal_nonzero(c), w_is_zero=(w == 0)),
                          f'branch of {c.id!r} ({kind}) differs from the intended one in its {diff}', inp,
                          impl=bi, spec=s['branch'], descs=descs_c, w=w, wres=wres)
            continue
        out.nontrivial(key)
    # ---- exactly one branch per non-ground component, same order (whole network)
    if N is not None:
        # from the property, not from the table: exactly one branch per non-ground component (or an exception)
        want = [c.id for c in non_ground]
        got = [b.id for b in N.branches]
        if got != want:
            missing = [c for c in non_ground if c.id not in got]
            if missing:
                known = {f.__name__ for f in gc.constructors().values()}
                m0 = missing[0]
                out.spec_fail(canon_of(m0.type, 'branch_missing', unknown_type=(m0.type not in known)),
                              f'component {m0.id!r} of kind {m0.type!r} has no network branch (silently dropped)', inp,
                              impl=got, spec=want, descs=descs, w=w, wres=wres)
            else:
                out.spec_fail(canon_of('*', 'order_or_multiplicity'), 'branch ids are not the component ids in order', inp,
                              impl=got, spec=want, descs=descs, w=w, wres=wres)
        if sp['ground'] is not None and N.node_zero_label != sp['ground']:
            out.spec_fail(canon_of('ground', 'wrong_reference'), 'reference node is not the ground node / first terminal', inp,
                          impl=N.node_zero_label, spec=sp['ground'], descs=descs, w=w, wres=wres)
        if C is not None and sp['ground'] is not None and C.ground_node != sp['ground']:
            out.spec_fail(canon_of('ground', 'wrong_reference'), 'Circuit.ground_node is not the ground node / first terminal', inp,
                          impl=C.ground_node, spec=sp['ground'], descs=descs, w=w, wres=wres)
    elif exc is not None and sp['net'] is not None and all(c.type in tr.transformers for c in non_ground):
        # every component is individually fine (checked above) yet the conversion fails
        individually_ok = True
        for c in non_ground:
            try: tr.transformers[c.type](c, w, wres)
            except Exception: individually_ok = False
        labels = {n for c in non_ground for n in c.nodes}
        if individually_ok and sp['ground'] in labels:
            out.spec_fail(canon_of('*', 'raises', exc=gc.tag(exc)), f'transform_circuit raises {type(exc).__name__}', inp,
                          impl=repr(exc), descs=descs, w=w, wres=wres)
    out.sample(dict(inp, origin=origin))

def check_transform_list(ctx, out, descs, ws, wres):
    """transform(circuit, [w…]) is the list of transform_circuit results"""
    from CircuitCalculator.Circuit import circuit as cc
    out.evaluations += 1
    comps = [gc.build(d) for d in descs]
    try:
        C = cc.Circuit(comps)
        many = cc.transform(C, ws, wres)
        single = [cc.transform_circuit(C, w, wres) for w in ws]
    except Exception:
        out.count('transform_list_error'); return
    a = [gc.net_json(n) for n in many if gc.finite_net(n)]
    b = [gc.net_json(n) for n in single if gc.finite_net(n)]
    if a != b:
        out.spec_fail(dict(op='transform', symptom='differs_from_transform_circuit'), 'transform ≠ [transform_circuit]',
                      dict(components=gc.pretty(descs), w=ws, w_resolution=wres), impl=a, spec=b, descs=descs, w=ws, wres=wres)
    else:
        out.count('transform_list_ok')

def gate_tie(comps, w, wres) -> bool:
    """the binary64 decision of the code's own gate formula differs from the decision on the exact
    rationals of the same floats: only within a few ulp of the boundary; never judged"""
    from fractions import Fraction
    W, R = Fraction(w), Fraction(wres)
    for c in comps:
        if 'source' not in c.type or 'w' not in c.value:
            continue
        ws = float(c.value['w'])
        if c.type.startswith('periodic'):
            if ws <= 0: continue
            n = float(np.round(w / ws))
            fl_off = bool(np.abs(w / ws - n) > wres / ws)
            k = (W / Fraction(ws)).__floor__()
            ex_on = any(abs(W - m * Fraction(ws)) <= R for m in (k, k + 1))
        else:
            fl_off = bool(np.abs(w - ws) > wres)
            ex_on = abs(W - Fraction(ws)) <= R
        if fl_off == ex_on:
            return True
    return False

RESOLUTIONS = [1e-6, 1e-4, 1e-3, 0.05, 0.5, 2.0 ** -16, 2.0 ** -10, 2.0 ** -4, 0.25]

def check_transform_resolution(ctx, out, descs, ws, r):
    """`transform(circuit, [w…], w_resolution=r)`: entry k is `transform_circuit(circuit, ws[k], r)` branch by
    branch, and every branch is the Spec table entry for that (w, r) — the resolution the caller passes is the
    one the translators use"""
    from CircuitCalculator.Circuit import circuit as cc
    drv = ctx.driver
    out.evaluations += 1
    comps = [gc.build(d) for d in descs]
    inp = dict(components=gc.pretty(descs), w=list(ws), w_resolution=r)
    try:
        C = cc.Circuit(comps)
        many = cc.transform(C, list(ws), r)
        single = [cc.transform_circuit(C, w, r) for w in ws]
    except Exception as e:
        out.spec_fail(dict(op='transform', symptom='raises', exc=gc.tag(e)), f'transform raises {type(e).__name__}: {e}', inp,
                      descs=descs, w=list(ws), wres=r)
        return
    if len(many) != len(ws):
        out.spec_fail(dict(op='transform', symptom='length'), 'transform does not return one network per frequency', inp,
                      impl=len(many), descs=descs, w=list(ws), wres=r)
        return
    non_ground = [c for c in comps if c.type != 'ground']
    for k, w in enumerate(ws):
        if not (gc.finite_net(many[k]) and gc.finite_net(single[k])):
            continue
        a, b = gc.net_json(many[k]), gc.net_json(single[k])
        if a != b:
            bad = [x['id'] for x, y in zip(a['branches'], b['branches']) if x != y]
            kinds = sorted({c.type for c in non_ground if c.id in bad})
            out.spec_fail(dict(op='transform', symptom='differs_from_transform_circuit', component_kind=kinds[0] if kinds else '*',
                               default_resolution=(r == 1e-3)),
                          f'transform(…, w_resolution={r})[{k}] differs from transform_circuit(…, {w}, {r}) in {bad}',
                          dict(inp, index=k), impl=a, spec=b, descs=descs, w=[w], wres=r)
            return
        if drv is None or gate_tie(comps, w, r):
            if drv is not None: out.skip('tie_margin')
            continue
        trig, harm = gc.params_for(comps, w)
        sp = drv.call('cc_spec_net', components=[gc.comp_json(c) for c in comps], w=core.q(w), wres=core.q(r), trig=trig, harm=harm)
        by_id = {x['id']: x for x in a['branches']}
        for c, s_ in zip(non_ground, sp['branches']):
            if s_['branch'] is None or c.id not in by_id:
                continue
            diff = spec_compare(by_id[c.id], s_['branch'])
            if diff is not None:
                out.spec_fail(dict(op='transform', symptom='wrong_record', field=diff, component_kind=c.type, default_resolution=(r == 1e-3)),
                              f'transform(…, w_resolution={r}) at w={w}: branch of {c.id!r} ({c.type}) differs from the intended one in its {diff}',
                              dict(inp, index=k), impl=by_id[c.id], spec=s_['branch'], descs=descs, w=[w], wres=r)
                return
        out.nontrivial(('transform_resolution', r, k))
    out.count('transform_resolution_ok')

def resolution_sweep(ctx, out):
    rng = ctx.rng('resolution')
    rs = RESOLUTIONS if not ctx.quick else RESOLUTIONS[:5] + rng.sample(RESOLUTIONS[5:], 2)
    for r in rs:
        for rep in range(2 if ctx.quick else 8):
            src_w = rng.choice([1.0, 2.0, 4.0, 8.0])
            p0 = rng.choice([4.0, 16.0])                      # fundamental of the periodic source (power of two, > 2r)
            descs = [dict(fn='ground', id='gnd', nodes=['0'], args={}),
                     dict(fn='ac_voltage_source', id='Va', nodes=['1', '0'], args=dict(V=3.0, R=rng.choice([0.0, 2.0]), w=src_w, phi=gc.phase(rng))),
                     dict(fn='ac_current_source', id='Ia', nodes=['0', '2'], args=dict(I=2.0, G=rng.choice([0.0, 0.5]), w=src_w, phi=gc.phase(rng))),
                     dict(fn='dc_voltage_source', id='Vd', nodes=['3', '0'], args=dict(V=5.0, R=1.0)),
                     dict(fn='dc_current_source', id='Id', nodes=['0', '3'], args=dict(I=1.0, G=0.25)),
                     dict(fn='periodic_voltage_source', id='Vp', nodes=['4', '0'], args=dict(wavetype=rng.choice(['rect', 'saw', 'tri']), V=2.0, w=p0, phi=0.5, R=1.0)),
                     dict(fn='periodic_current_source', id='Ip', nodes=['0', '4'], args=dict(wavetype='saw', I=1.0, w=p0, phi=0.25, G=0.5)),
                     dict(fn='resistor', id='R1', nodes=['1', '2'], args=dict(R=2.0)),
                     dict(fn='capacitor', id='C1', nodes=['2', '3'], args=dict(C=0.5)),
                     dict(fn='inductance', id='L1', nodes=['3', '4'], args=dict(L=0.25))]
            rng.shuffle(descs)
            ws = []
            for base in (src_w, 0.0, p0, 3 * p0):
                for k in (0.5, 1.0, 1.5, 10.0):
                    ws += [base + k * r, base - k * r]
            ws = [w for w in dict.fromkeys(ws) if w >= 0] + [src_w, 0.0, p0]
            if ctx.quick:
                ws = rng.sample(ws, 12)
            check_transform_resolution(ctx, out, descs, ws, r)

# --------------------------------------------------------------------------- generators

def frequencies_for(rng, d, wres):
    """analysis frequencies that matter for component description d"""
    ws = [0.0]
    a = d['args']
    if d['fn'] in ('ac_voltage_source', 'ac_current_source'):
        s = a['w']
        ws += [s, s + wres / 2, s + wres, s + wres + wres / 1024, max(0.0, s - wres), max(0.0, s - wres - wres / 1024), 2 * s + 1]
    elif d['fn'] in ('dc_voltage_source', 'dc_current_source'):
        ws += [wres / 2, wres, wres + wres / 1024, 1.0]
    elif d['fn'].startswith('periodic'):
        s = a['w']
        for n in (1, 2, 3, rng.randint(4, 9)):
            ws += [n * s, n * s + wres / 2, n * s + wres, n * s + wres + wres / 1024, n * s - wres, n * s - wres - wres / 1024]
        ws += [s / 2, 3 * s / 2, 5 * s / 2, s / 4]
    else:
        ws += [1.0, dyadic_w(rng), 3.0]
    return [w for w in dict.fromkeys(ws) if w >= 0]

def dyadic_w(rng):
    return float(2.0 ** rng.randint(-4, 6))

def pow2(rng):
    return float(2.0 ** rng.randint(-2, 3))

def others(rng, n):
    """n filler components with values far from anything the tested component carries"""
    fill = []
    for i in range(n):
        fn = rng.choice(['resistor', 'capacitor', 'inductance', 'dc_voltage_source', 'ac_current_source', 'impedance'])
        fill.append(dict(fn=fn, id=f'f{i}', nodes=[f'p{i}', f'p{i + 1}'], args=gc.gen_args(rng, fn, True, [64.0, 128.0])))
    return fill

# the inputs on which the property failed before the fix commits ac3e686 / 76d4676 / 166c364: they must pass now,
# and the oracle reports them again (canonical forms of the `fixed` entries of known_findings.json) if a fix is reverted
CORPUS = [
    ([dict(fn='ground', id='gnd', nodes=['0'], args={}),
      dict(fn='dc_current_source', id='I', nodes=['0', '1'], args=dict(I=1.0, G=0.0)),
      dict(fn='conductance', id='G', nodes=['1', '0'], args=dict(G=2.0)),
      dict(fn='resistor', id='R', nodes=['1', '0'], args=dict(R=1.0))], 0.0, 1e-3),
    ([dict(fn='ground', id='gnd', nodes=['0'], args={}),
      dict(fn='dc_current_source', id='I', nodes=['0', '1'], args=dict(I=1.0, G=0.0)),
      dict(fn='admittance', id='Y', nodes=['1', '0'], args=dict(Y=complex(2.0, 1.0))),
      dict(fn='resistor', id='R', nodes=['1', '0'], args=dict(R=1.0))], 1.0, 1e-3),
    ([dict(fn='complex_current_source', id='I', nodes=['0', '1'], args=dict(I=complex(1.0, 1.0), Y=complex(0.5, 0.25))),
      dict(fn='resistor', id='R', nodes=['1', '0'], args=dict(R=1.0))], 0.0, 1e-3),
    ([dict(fn='complex_current_source', id='I', nodes=['0', '1'], args=dict(I=complex(1.0, 1.0), Y=complex(0.5, 0.25))),
      dict(fn='resistor', id='R', nodes=['1', '0'], args=dict(R=1.0))], 7.0, 1e-3),
    ([dict(fn='periodic_voltage_source', id='V', nodes=['1', '0'], args=dict(wavetype='rect', V=1.0, w=2.0, phi=0.0, R=5.0)),
      dict(fn='resistor', id='R', nodes=['1', '0'], args=dict(R=1.0))], 2.0, 1e-3),
    ([dict(fn='periodic_voltage_source', id='V', nodes=['1', '0'], args=dict(wavetype='rect', V=1.0, w=2.0, phi=0.0, R=5.0)),
      dict(fn='resistor', id='R', nodes=['1', '0'], args=dict(R=1.0))], 0.0, 1e-3),
    ([dict(fn='periodic_current_source', id='J', nodes=['0', '1'], args=dict(wavetype='saw', I=2.0, w=0.5, phi=0.5, G=0.25)),
      dict(fn='resistor', id='R', nodes=['1', '0'], args=dict(R=1.0))], 1.5, WRES_DYADIC),
]

def run(ctx, out):
    out.rule = ('per constructor kind × list position × analysis frequency (0, the source frequency, dyadic offsets just '
                'inside / on / outside the resolution, harmonics n·w0 of periodic sources, random) × both resolutions '
                '(2^-10 and the default 1e-3); transform(c, ws, r) for r ∈ {1e-6, 1e-4, 1e-3, 0.05, 0.5, 2^-16, 2^-10, 2^-4, 0.25} at source '
                'frequency ± {0.5, 1, 1.5, 10}·r (dc / ac / periodic sources) against transform_circuit and the Spec at (w, r); a case is non-trivial when the implementation\'s branch equals the '
                'intended branch of CC/Spec/Phasor.lean; distinct by (kind, origin, w = 0, tested component, list position, '
                'source active, resolution)')
    drv = ctx.driver
    if drv is not None:
        check_tables(ctx, out)
    check_periodic_symmetry(ctx, out)
    resolution_sweep(ctx, out)
    check_accepted_translates(ctx, out)
    check_unknown_type(ctx, out)
    check_infinities(ctx, out)
    for descs, w, wres in CORPUS:
        check_case(ctx, out, descs, w, wres, 'corpus')
    rng = ctx.rng('kinds')
    ctors = gc.constructors()
    kinds = [k for k in ctors if k != 'ground']
    if set(kinds) - set(gc.ALL_TWO_TERMINAL):
        out.notes.append(f'constructors without a generator: {sorted(set(kinds) - set(gc.ALL_TWO_TERMINAL))}')
    reps = 6 if ctx.quick else 60
    # ---- every kind × every position × its frequencies
    for fn in [k for k in kinds if k in gc.ALL_TWO_TERMINAL]:
        for rep in range(reps):
            if ctx.time_left() < 20: out.notes.append('kind sweep cut by budget'); break
            exact = rep % 4 != 3
            args = gc.gen_args(rng, fn, exact, freqs=[pow2(rng)], internal=None if rep else True)
            d = dict(fn=fn, id='T', nodes=['a', 'b'] if rng.random() < 0.5 else ['b', 'a'], args=args)
            n_other = rng.randint(0, 3) if ctx.quick else rng.randint(0, 4)
            fill = others(rng, n_other)
            positions = range(n_other + 1) if (not ctx.quick or rep == 0) else [rng.randrange(n_other + 1)]
            for wres in ([WRES_DYADIC] if rep % 2 == 0 else [1e-3]):
                freqs = frequencies_for(rng, d, wres)
                if ctx.quick and len(freqs) > 8:
                    freqs = freqs[:2] + rng.sample(freqs[2:], 6)
                for pos in positions:
                    descs = fill[:pos] + [d] + fill[pos:]
                    if rng.random() < 0.5:
                        descs.insert(rng.randrange(len(descs) + 1), dict(fn='ground', id='gnd', nodes=[rng.choice(['a', 'b'])], args={}))
                    for w in freqs:
                        check_case(ctx, out, descs, w, wres, 'kind_sweep', tested='T')
    # ---- random connected circuits over all kinds
    rng = ctx.rng('random')
    n_random = 250 if ctx.quick else 3000
    for k in range(n_random):
        if ctx.time_left() < 10: out.notes.append(f'stopped after {k} random circuits (budget)'); break
        exact = rng.random() < 0.7
        kinds_k = gc.ALL_TWO_TERMINAL
        descs = gc.random_circuit(rng, kinds_k, exact=exact, freqs=[1.0, 2.0, 0.5])
        wres = rng.choice([WRES_DYADIC, 1e-3])
        w = rng.choice([0.0, 1.0, 2.0, 0.5, 4.0, 1.0 + WRES_DYADIC / 2, 2.0 + 2 * WRES_DYADIC, 3.0, 1.5])
        check_case(ctx, out, descs, w, wres, 'random')
        if k % 5 == 0:
            check_transform_list(ctx, out, descs, [0.0, w, 2.0], wres)
    # ---- limits: w = 0, R = 0, open switch R = inf (implementation only: inf is not a rational)
    check_limits(ctx, out)

def check_periodic_symmetry(ctx, out):
    """driver-independent oracle (also available when the generated files do not build): a
    periodic source analysed just below and just above a harmonic n·w0 — both inside the
    resolution — is the same active source; half-way between two harmonics it is replaced"""
    from CircuitCalculator.Circuit import components as ccp, transformers as tr
    from CircuitCalculator.Network import elements as elm
    rng = ctx.rng('periodic_symmetry')
    for fn in ('periodic_voltage_source', 'periodic_current_source'):
        for _ in range(6 if ctx.quick else 40):
            w0 = pow2(rng); n = rng.randint(1, 6)
            wt = rng.choice(['rect', 'saw', 'tri', 'cos', 'sin'] if n > 1 else gc.WAVES)
            args = dict(wavetype=wt, w=w0, phi=gc.phase(rng))
            args['V' if fn == 'periodic_voltage_source' else 'I'] = 2.0
            periodic_symmetry_case(out, dict(fn=fn, id='P', nodes=['a', 'b'], args=args), n, WRES_DYADIC)

def periodic_symmetry_case(out, d, n, wres):
    from CircuitCalculator.Circuit import transformers as tr
    from CircuitCalculator.Network import elements as elm
    fn = d['fn']; w0 = d['args']['w']
    off_pred = elm.is_short_circuit if fn == 'periodic_voltage_source' else elm.is_open_circuit
    c = gc.build(d)
    out.evaluations += 1
    try:
        lo = tr.transformers[fn](c, n * w0 - wres / 2, wres).element
        hi = tr.transformers[fn](c, n * w0 + wres / 2, wres).element
        at = tr.transformers[fn](c, n * w0, wres).element
        mid = tr.transformers[fn](c, n * w0 + w0 / 2, wres).element
    except Exception as e:
        out.spec_fail(canon_of(fn, 'raises', exc=gc.tag(e)), f'translator of {fn} raises {type(e).__name__}', str(d), descs=[d], w=n * w0, wres=wres)
        return
    val = (lambda e: complex(e.V)) if fn == 'periodic_voltage_source' else (lambda e: complex(e.I))
    inp = dict(components=gc.pretty([d]), harmonic=n, w0=w0, w_resolution=wres)
    canon = canon_of(fn, 'wrong_record', field='harmonic_selection', internal_immittance_nonzero=False, w_is_zero=False)
    if not (lo.type == hi.type == at.type and core.close(val(lo), val(at), 0, 1e-12) and core.close(val(hi), val(at), 0, 1e-12)):
        out.spec_fail(canon, f'{fn}: the harmonic {n} is not selected on both sides of {n}·w0 within the resolution', inp,
                      impl=dict(below=repr(lo), at=repr(at), above=repr(hi)), descs=[d], w=n * w0 - wres / 2, wres=wres, harmonic=n)
    elif not off_pred(mid):
        out.spec_fail(canon, f'{fn}: half-way between two harmonics the source is not replaced', inp, impl=repr(mid),
                      descs=[d], w=n * w0 + w0 / 2, wres=wres, harmonic=n)
    else:
        out.count('periodic_symmetry_ok')

BOUNDARY = [('lamp', dict(P=2.0, V_ref=0.0)), ('resistive_load', dict(P=2.0, V_ref=0.0)),
            ('lamp', dict(P=0.0, V_ref=1.0)), ('resistor', dict(R=0.0)), ('conductance', dict(G=0.0)),
            ('capacitor', dict(C=0.0)), ('inductance', dict(L=0.0)),
            ('ac_voltage_source', dict(V=1.0, R=0.0, w=0.0, phi=1.0)), ('ac_current_source', dict(I=1.0, G=0.0, w=0.0, phi=1.0)),
            ('periodic_voltage_source', dict(wavetype='rect', V=1.0, w=0.0, phi=0.0, R=0.0)),
            ('periodic_current_source', dict(wavetype='saw', I=1.0, w=0.0, phi=0.0, G=0.0))]

def check_accepted_translates(ctx, out):
    """an accepted circuit translates: whatever boundary value a constructor lets through (it may instead
    reject it — C19 judges that), `transform_circuit` must give the component its branch without raising"""
    from CircuitCalculator.Circuit import circuit as cc
    for fn, args in BOUNDARY:
        d = dict(fn=fn, id='B', nodes=['1', '0'], args=args)
        out.evaluations += 1
        try:
            comp = gc.build(d)
        except Exception:
            out.count('boundary_rejected_at_construction:' + fn); continue
        for w in (0.0, 1.0, 3.0):
            inp = dict(components=gc.pretty([d]), w=w, w_resolution=1e-3)
            try:
                N = cc.transform_circuit(cc.Circuit([comp, gc.build(dict(fn='resistor', id='R', nodes=['1', '0'], args=dict(R=1.0)))]), w, 1e-3)
            except Exception as e:
                out.spec_fail(canon_of(fn, 'raises', exc=gc.tag(e)),
                              f'{fn}({args}) is accepted by its constructor but transform_circuit raises {type(e).__name__}: {e}',
                              inp, impl=dict(exception=repr(e)), descs=[d], w=w, wres=1e-3)
                break
            if [b.id for b in N.branches] != ['B', 'R']:
                out.spec_fail(canon_of(fn, 'branch_missing'), f'{fn}({args}) is accepted but has no branch', inp,
                              impl=[b.id for b in N.branches], descs=[d], w=w, wres=1e-3)
                break
        else:
            out.count('boundary_translates:' + fn)

def check_unknown_type(ctx, out):
    """a component of a type no translator knows (built directly, or a table entry lost) is never dropped:
    the conversion raises — at every position of the list, at several frequencies"""
    rng = ctx.rng('unknown_type')
    base = [dict(fn='dc_voltage_source', id='V', nodes=['1', '0'], args=dict(V=6.0, R=1.0)),
            dict(fn='resistor', id='R', nodes=['1', '0'], args=dict(R=2.0)),
            dict(fn='ground', id='gnd', nodes=['0'], args={})]
    for kind in ('nope', '', 'Resistor', 'ground ', 'open_circuit'):
        x = dict(fn='__raw__', kind=kind, id='X', nodes=['1', '0'], args=rng.choice([{}, dict(R=1.0)]))
        for pos in range(len(base) + 1):
            descs = base[:pos] + [x] + base[pos:]
            for w in (0.0, 1.0):
                check_case(ctx, out, descs, w, 1e-3, 'unknown_type', tested='X')

def check_infinities(ctx, out):
    """infinite values where they are physically meaningful (implementation side; the model knows R = inf only):
    G = inf, Y = inf, C = inf at w > 0 are short circuits; Z = inf, L = inf at w > 0, V_ref = inf are open circuits.
    Reference from circuit theory for the divider  V(2,0) = 6, R(2,1) = 2, X(1,0), R2(1,0) = 4:
    X short: phi_1 = 0, i_X = 3;  X open: phi_1 = 4, i_X = 0."""
    from CircuitCalculator.Circuit import components as ccp, circuit as cc, solution as sol
    inf = math.inf
    cases = [('conductance', dict(G=inf), 'short'), ('admittance', dict(Y=complex(inf, 0)), 'short'), ('capacitor', dict(C=inf), 'short'),
             ('impedance', dict(Z=complex(inf, 0)), 'open'), ('inductance', dict(L=inf), 'open'), ('lamp', dict(P=2.0, V_ref=inf), 'open'),
             ('resistor', dict(R=inf), 'open')]
    for fn, args, want in cases:
        out.evaluations += 1
        inp = f'{fn}({args}) in a divider at w = 2'
        try:
            x = gc.build(dict(fn=fn, id='X', nodes=['1', '0'], args=args))
            C = cc.Circuit([ccp.ground(nodes=('0',)), ccp.ac_voltage_source('V', ('2', '0'), V=6.0, w=2.0),
                            ccp.resistor('R', ('2', '1'), R=2.0), x, ccp.resistor('R2', ('1', '0'), R=4.0)])
            S = sol.ComplexSolution(C, w=2.0, peak_values=True)
            phi1, ix = complex(S.get_potential('1')), complex(S.get_current('X'))
        except Exception as e:
            out.spec_fail(canon_of(fn, 'raises', exc=gc.tag(e), infinite_value=True), f'{inp} raises {type(e).__name__}: {e}', inp)
            continue
        ref = (0.0, 3.0) if want == 'short' else (4.0, 0.0)
        if not (core.close(phi1, ref[0], 1.0, 1e-9) and core.close(ix, ref[1], 1.0, 1e-9)):
            out.spec_fail(canon_of(fn, 'wrong_record', field='infinite_value', internal_immittance_nonzero=False, w_is_zero=False),
                          f'{inp} is not a {want} circuit: phi_1 = {phi1}, i_X = {ix}, expected {ref}', inp)
        else:
            out.count('infinite_value_ok:' + fn); out.nontrivial(('infinite', fn))

def check_limits(ctx, out):
    from CircuitCalculator.Circuit import components as ccp, transformers as tr
    from CircuitCalculator.Network import elements as elm
    out.evaluations += 1
    # open switch R = inf: the predicates the solver uses (implementation side) …
    b = tr.transformers['resistor'](ccp.resistor('S', ('1', '0'), R=math.inf), 0.0, 1e-3)
    e = b.element
    if not (e.Y == 0 and e.I == 0 and elm.is_ideal_current_source(e) and elm.is_open_circuit(e) and not elm.is_active(e)
            and not elm.is_ideal_voltage_source(e) and not elm.is_current_source(e) and (b.node1, b.node2, b.id) == ('1', '0', 'S')):
        out.spec_fail(canon_of('resistor', 'wrong_record', field='open_switch'), 'R = inf is not an open circuit', 'resistor R=inf',
                      impl=repr(e))
    else:
        out.count('limit:open_switch')
    # … and model / Spec correspondence with the switch at every position of a list, at several frequencies
    sw = dict(fn='resistor', id='Sw', nodes=['a', 'b'], args=dict(R=math.inf))
    rng = ctx.rng('open_switch')
    fill = others(rng, 3)
    for pos in range(4):
        descs = fill[:pos] + [sw] + fill[pos:] + [dict(fn='ground', id='gnd', nodes=['a'], args={})]
        for w in (0.0, 1.0, 64.0):
            check_case(ctx, out, descs, w, 1e-3, 'limits', tested='Sw')
    for descs, w in (([dict(fn='inductance', id='L', nodes=['1', '0'], args=dict(L=2.0))], 0.0),
                     ([dict(fn='capacitor', id='C', nodes=['1', '0'], args=dict(C=2.0))], 0.0),
                     ([dict(fn='resistor', id='R', nodes=['1', '0'], args=dict(R=0.0))], 1.0),
                     ([dict(fn='dc_voltage_source', id='V', nodes=['1', '0'], args=dict(V=1.0, R=0.0))], 0.0)):
        check_case(ctx, out, descs, w, 1e-3, 'limits')
    # the element predicates the solver uses see an inductor at w = 0 as a short and a capacitor as an open
    L = tr.transformers['inductance'](ccp.inductance('L', ('1', '0'), L=2.0), 0.0, 1e-3).element
    Cc = tr.transformers['capacitor'](ccp.capacitor('C', ('1', '0'), C=2.0), 0.0, 1e-3).element
    if not elm.is_short_circuit(L):
        out.spec_fail(canon_of('inductance', 'wrong_record', field='dc_short'), 'inductor at w = 0 is not a short circuit', 'L at w=0', impl=repr(L))
    if not elm.is_open_circuit(Cc):
        out.spec_fail(canon_of('capacitor', 'wrong_record', field='dc_open'), 'capacitor at w = 0 is not an open circuit', 'C at w=0', impl=repr(Cc))

def replay(ctx, out, rp):
    if ctx.driver is None and getattr(ctx.build, 'driver_baseline', None) is not None:
        # the regenerated definitions do not build: replay against the last good driver, as the check itself does
        try: ctx.driver = core.Driver(ctx.build.driver_baseline)
        except core.DriverError: pass
    descs = rp.get('descs')
    if descs is None:
        raise SystemExit('replay file carries no component descriptions')
    w, wres = rp.get('w', 0.0), rp.get('wres', 1e-3)
    if (rp.get('canon') or {}).get('field') == 'harmonic_selection':
        periodic_symmetry_case(out, descs[0], rp.get('harmonic', 1), wres)
        return
    if (rp.get('canon') or {}).get('op') == 'transform':
        check_transform_resolution(ctx, out, descs, w if isinstance(w, list) else [w], wres)
    elif isinstance(w, list):
        check_transform_list(ctx, out, descs, w, wres)
    else:
        check_case(ctx, out, descs, w, wres, 'replay')
    if rp.get('canon') is not None:          # report only the recorded failure
        out.spec_failures = [sf for sf in out.spec_failures if sf['canon'] == rp['canon']]
