"""
C06 — port behaviour: driving-point impedance and Thevenin/Norton equivalents.

Correspondence (model CC/Model/Port.lean vs the real code):
  * the matrix handed to `np.linalg.inv` by `open_circuit_impedance` (after re-referencing
    and pruning) — captured by a spy on `numpy.linalg.inv`, compared entry by entry with the
    model's `portPre` (op `port_pre`);
  * `open_circuit_impedance`, `element_impedance`, `open_circuit_voltage`,
    `short_circuit_current` values / exception kinds (ops `port_z`, `elem_z`, `oc_voltage`,
    `sc_current`);
  * the sweep wrappers of Circuit/impedance.py over the implementation's own
    `transform_circuit` networks (op `port_sweep`);
  * the import of Network.equivalent_sources against the translator's prediction
    (CC/Gen/PortImports.lean) and, once it imports, the two parameter records (op `equivalents`).

Oracle on the implementation (decides the property):
  * Spec `PortZ` (CC/Spec/Port.lean) decided exactly by the driver (op `port_spec`): unit test
    current injected into the source-deactivated network, all solutions compared;
  * symmetry in the two nodes, independence of the reference node (metamorphic);
  * Thevenin/Norton: a load attached to the real network and solved by the real solver must
    see V = Voc·Z_L/(Zth+Z_L); the current through an attached short must be Voc/Zth;
  * closed forms R + jwL + 1/(jwC), series / parallel composition over a frequency sweep.
"""
from __future__ import annotations
import cmath, importlib, itertools, math, sys
import numpy as np
import core, gen_net

ID = 'C06'
LEAN_MODULE = 'CC.Properties.C06'
LEVEL = 'proof'
THEOREMS = [
    'CC.C06_unique', 'CC.C06_symm', 'CC.C06_ref_indep', 'CC.C06_same_node_zero',
    'CC.C06_across_ideal_vs_zero', 'CC.C06_port_equation', 'CC.C06_thevenin', 'CC.C06_norton',
    'CC.C06_parallel', 'CC.C06_series', 'CC.C06_impl_early_correct', 'CC.C06_impl_eq_spec_partial',
    'CC.C06_floating_island_counterexample', 'CC.C06_exists', 'CC.C06_isolated_port',
    'CC.C06_port_invariant_perm', 'CC.C06_port_invariant_rename', 'CC.C06_port_invariant_reverse', 'CC.C06_port_invariant_reref',
    # round 5 — the pruning / re-indexing path (CC/Properties/C06Prune.lean, lemmas in CC/Proofs/PortPrune.lean)
    'CC.C06_prune_select_in_order', 'CC.C06_prune_countBefore_position', 'CC.C06_prune_dropped_zero',
    'CC.C06_prune_extend_solves', 'CC.C06_impl_pruned_solution', 'CC.C06_impl_eq_spec_pruned',
    'CC.C06_impl_eq_spec_kept_regular',      # CC/Properties/C06PruneReg.lean
    # round 5 — element impedance, Voc / Isc, equivalent-source records (CC/Properties/C06Equiv.lean)
    'CC.C06_elementImpedance_def', 'CC.C06_elementImpedance_spec', 'CC.C06_openCircuitVoltage_sound',
    'CC.C06_shortCircuitCurrent_def', 'CC.C06_shortCircuitCurrent_spec',
    'CC.C06_thevenin_record_terminal', 'CC.C06_norton_record_terminal',
    # round 5 — translator tie: open_circuit_impedance / element_impedance as regenerated from the Python AST (CC/Gen/Port.lean by
    # harness/extract_port.py) equal the hand model CC/Model/Port.lean (CC/Properties/C06Gen.lean, lemmas in CC/Proofs/PortGen.lean)
    'CC.C06_gen_idioms', 'CC.C06_gen_transformers', 'CC.C06_gen_isolated',
    'CC.C06_gen_open_circuit_impedance', 'CC.C06_gen_open_circuit_impedance_rows',
    'CC.C06_gen_element_impedance', 'CC.C06_gen_element_impedance_rows', 'CC.C06_gen_value_lossless',
    # round 5c — translator tie, second part (CC/Properties/C06Gen2.lean): open_circuit_voltage / short_circuit_current of
    # bias_point_analysis.py as regenerated into CC/Gen/Port.lean equal Net.openCircuitVoltage / Net.shortCircuitCurrent
    # (hypotheses: N.check = ok — a constructed Network —, anyNan constantly false; idioms Py.Scalar / Py.divScalar of CC/Model/PortBase2.lean)
    'CC.C06_gen_open_circuit_voltage', 'CC.C06_gen_open_circuit_voltage_value',
    'CC.C06_gen_short_circuit_current', 'CC.C06_gen_short_circuit_current_rows',
    # round 5b — the equivalent source as an explicit NETWORK (CC/Properties/C06Replace.lean): thevNet (ideal source U in series with Z,
    # internal node) / nortNet (ideal source I parallel to Y); any load branch sees the same voltage, current and port voltage
    'CC.C06_thevNet_wellPosed_iff', 'CC.C06_nortNet_wellPosed_iff', 'CC.C06_thevenin_network_spec',
    'CC.C06_thevenin_replace', 'CC.C06_thevenin_replace_exists', 'CC.C06_norton_replace', 'CC.C06_norton_replace_exists',
    # round 5b — the LinAlgError fallback of open_circuit_voltage (CC/Properties/C06Fallback.lean)
    'CC.C06_solutionVector_cases', 'CC.C06_oc_voltage_fallback_value', 'CC.C06_solver_none_iff', 'CC.C06_mna_solution_exists',
    'CC.C06_oc_voltage_no_fallback', 'CC.C06_oc_voltage_wellposed', 'CC.C06_thevenin_record_terminal_wp',
    'CC.C06_norton_record_terminal_wp', 'CC.C06_thevenin_replace_wp',
    # round 5b — jwL, 1/(jwC), series / parallel closed forms, sweep / dcResistance (CC/Properties/C06Elements.lean)
    'CC.C06_single_element_impedance', 'CC.C06_portZ_series', 'CC.C06_portZ_parallel', 'CC.C06_portZ_parallel_harmonic',
    'CC.C06_single_open_no_impedance', 'CC.C06_model_value_of_portZ', 'CC.C06_single_element_model', 'CC.C06_series_model',
    'CC.C06_parallel_model', 'CC.C06_capacitor_impedance', 'CC.C06_inductance_impedance', 'CC.C06_resistor_impedance',
    'CC.C06_capacitor_dc_open', 'CC.C06_series_RL', 'CC.C06_series_LC', 'CC.C06_capacitor_sweep',
    'CC.C06_sweep_pointwise', 'CC.C06_sweep_map', 'CC.C06_sweep_error', 'CC.C06_dcResistance_eq',
]
LEAN_MODULE_EXTRA = ['CC.Properties.C06Prune', 'CC.Properties.C06PruneReg', 'CC.Properties.C06Equiv', 'CC.Properties.C06Gen', 'CC.Properties.C06Gen2',
                     'CC.Properties.C06Replace', 'CC.Properties.C06Fallback', 'CC.Properties.C06Elements']
OPEN_STATEMENTS = [
    'CC.C06_impl_complete_statement (false for floating groups of nodes: C06_floating_island_counterexample)',
    'code-level equality WITH pruned unknowns: soundness is proved (C06_impl_eq_spec_pruned: PortZ defined and a number returned => the '
    'number is PortZ; C06_impl_eq_spec_kept_regular: the pruned system handed to solve has at most one solution and a number is returned '
    '=> PortZ is defined and is that number; any number of pruned unknowns).  Still open on this path: completeness (when does the function '
    'return a number) — false in general (floating island), not characterised by a theorem; the caller-supplied node_index_mapper '
    '(the model has the alphabetic default only)',
    'openCircuitVoltage when numpy raises LinAlgError (zero-vector fallback): characterised (C06_solutionVector_cases: taken iff the checks pass '
    'and the solver returns none; C06_oc_voltage_fallback_value: it then reports 0 V) and proved unreachable for a valid WELL-POSED network and a '
    'solver that answers whenever the system is solvable (C06_oc_voltage_no_fallback, exact arithmetic).  Still open: a network that is valid but '
    'NOT well-posed (e.g. a floating group of nodes with a consistent system) with a solver that raises on every singular matrix, as numpy does — '
    'there the fallback IS taken and the reported 0 V is in general not a solution; that behaviour is modelled and covered by the oc_voltage '
    'correspondence only; binary64 conditioning is outside the theorems',
    'equivalent-source records as explicit networks: proved at Spec level (C06_thevenin_replace / C06_norton_replace: every solution of N + x and '
    'every solution of thevNet(U,Z) + x resp. nortNet(I,Y) + x agree on the load voltage, load current and port voltage, for every load branch x with '
    'seriesDet / parallelDet ≠ 0, which is exactly well-posedness of the loaded equivalent: C06_thevNet_wellPosed_iff, C06_nortNet_wellPosed_iff).  '
    'NOT proved: that the MODEL solver (Net.solutionVector on the three-branch equivalent network) returns those values — it follows from C01_sound + '
    'C01_unique for any SolveOK solver that answers, but is not stated as one theorem; the early-return / isolated-port branches of nortonEquivalent and '
    'shortCircuitCurrent (ZeroDivisionError, NonFinite, Infinite) have no theorem',
    'jwL, 1/(jwC), series / parallel, sweep / dcResistance: proved for the translated single components and explicit one- and two-branch networks '
    '(C06_capacitor_impedance, C06_inductance_impedance, C06_resistor_impedance, C06_portZ_series, C06_portZ_parallel, model versions '
    'C06_*_model) and for the generic wrappers (C06_sweep_pointwise, C06_sweep_error, C06_dcResistance_eq).  Still open: the composition of '
    'transform_circuit with the sweep for a WHOLE circuit (C06_capacitor_sweep takes the per-frequency one-branch networks as given, it does not '
    'call transformCircuit); the model-level closed forms are soundness statements (IF a number is returned it is the closed form) — that the '
    'function returns on these networks is shown on concrete examples only (exOne, exSer, exPar)',
    'translator tie (C06_gen_*) covers open_circuit_impedance, element_impedance and (C06Gen2: for constructed networks, N.check = ok, '
    'with np.any(np.isnan(·)) constantly false) open_circuit_voltage / short_circuit_current; Network/equivalent_sources.py '
    '(TheveninEquivalentSource / NortenEquivalentSource) and the wrappers of Circuit/impedance.py are NOT translated (hand model + '
    'correspondence); the nan fallback of __post_init__ (anyNan true) is not part of the hand model and not covered by the equality; '
    'a node_index_mapper other than map.default_node_mapper is outside the generated definitions as well',
]
ASSUMPTIONS = [
    'the code-level theorems speak about the MODEL CC/Model/Port.lean: C06_impl_eq_spec_partial (no pruned unknown, well-posed probe network), C06_impl_eq_spec_pruned (any pruned unknowns; hypothesis: PortZ is defined), C06_elementImpedance_*, C06_openCircuitVoltage_sound, C06_shortCircuitCurrent_*, C06_thevenin_record_terminal, C06_norton_record_terminal (hypotheses: valid network, solver answers, well-posed probe network, PortZ defined); that the model is the code is a theorem for open_circuit_impedance / element_impedance / open_circuit_voltage / short_circuit_current (translator tie, C06_gen_*: generated-from-source definition = model, up to the trusted idiom files) and rests on the correspondence and the exact Spec oracle (op port_spec) for the other functions',
    'numpy.linalg.solve is a parameter of the model (certificates checked exactly by the driver); binary64 agrees with field arithmetic within 1e-7 relative on instances with cond < 1e8',
    'hand-written model CC/Model/Port.lean: open_circuit_impedance (with its nested helper isolated) and element_impedance are regenerated from the Python AST on every run (CC/Gen/Port.lean, harness/extract_port.py) and proved equal to Net.openCircuitImpedance / Net.elementImpedance for every network, label, solver and exception path (C06_gen_open_circuit_impedance, C06_gen_element_impedance, C06_gen_value_lossless; node mapper fixed to its default); trusted there: the reading of the numpy idioms in CC/Model/PortBase.lean (A.any(axis=0), A[:, j].any(), np.count_nonzero(keep[:k]), A[np.ix_(keep, keep)], x[i] = 1, x[i], np.linalg.solve as a parameter) besides CoreBase / TransformersBase.  open_circuit_voltage / short_circuit_current (bias_point_analysis.py) are regenerated as well and proved equal to Net.openCircuitVoltage (up to the run-time class tag Py.Scalar) / Net.shortCircuitCurrent for every constructed network (N.check = ok), label and solver with anyNan constantly false (C06_gen_open_circuit_voltage, C06_gen_short_circuit_current; trusted in addition: CC/Model/PortBase2.lean — Py.Scalar: `return <int literal>` is a Python int, a difference of two get_potential results a numpy scalar; Py.divScalar: V / Z with ZeroDivisionError only for a Python-int V, inf/nan reported as NonFinite, V / inf = 0).  The REST of the model (Thevenin/Norton records, sweep / dcResistance) is tied to the code by the equivalents / port_sweep correspondence only (oc_voltage / sc_current remain as run-time cross-checks of the translated part); port_pre / port_z / elem_z remain as run-time cross-checks of the translated part',
    'the per-frequency networks of Circuit/impedance.py are the implementation\'s own transform_circuit outputs (modelled under C02/C07)',
    'the executable Spec (op port_spec) uses an unverified rank-revealing elimination over exact Gaussian rationals',
]

EXC = {'FloatingGroundNode': 'FloatingGroundNode', 'AmbiguousBranchIDs': 'AmbiguousIDs',
       'KeyError': 'KeyError', 'IndexError': 'KeyError', 'ValueError': 'ValueError',
       'TypeError': 'TypeError', 'ZeroDivisionError': 'ZeroDivisionError', 'LinAlgError': 'LinAlgError',
       'AttributeError': 'AttributeError', 'ImportError': 'ImportError', 'ModuleNotFoundError': 'ImportError'}

def tag(e: BaseException) -> str:
    return EXC.get(type(e).__name__, type(e).__name__)

# --------------------------------------------------------------------------- implementation adapters

class InvSpy:
    """records the matrix argument of every numpy.linalg.solve / numpy.linalg.inv call
    (the repaired code solves the pruned MNA system; the pre-e030c44 code inverted the pruned
    admittance matrix)"""
    def __enter__(self):
        self.args = []; self.rhs = []
        self.orig_inv = np.linalg.inv; self.orig_solve = np.linalg.solve
        def wrap_inv(a, *k, **kw):
            self.args.append(np.array(a, dtype=complex, copy=True)); self.rhs.append(None)
            return self.orig_inv(a, *k, **kw)
        def wrap_solve(a, b, *k, **kw):
            self.args.append(np.array(a, dtype=complex, copy=True)); self.rhs.append(np.array(b, dtype=complex, copy=True))
            return self.orig_solve(a, b, *k, **kw)
        np.linalg.inv = wrap_inv; np.linalg.solve = wrap_solve
        return self
    def __exit__(self, *a):
        np.linalg.inv = self.orig_inv; np.linalg.solve = self.orig_solve

def run_impl(f, *a, **k):
    """('ok', value) | ('err', tag); a non-finite value is reported as the error NonFinite"""
    try:
        v = f(*a, **k)
    except Exception as e:
        return ('err', tag(e))
    try:
        z = complex(v)
    except Exception:
        return ('ok', v)
    if not cmath.isfinite(z):
        if z.real == math.inf and z.imag == 0: return ('err', 'Infinite')     # `np.inf`: an isolated port node (fix aab1640)
        return ('err', 'NonFinite')
    return ('ok', z)

def model_res(r):
    if 'err' in r:
        return ('err', r['err'])
    return ('ok', core.cfloat(r['ok']))

# --------------------------------------------------------------------------- structural facts about an input (canon)

def elem_is_ideal_vs(d):
    k, a = d['kind'], d['args']
    if k in ('vs_ideal', 'short'): return True
    if k == 'vs_lossy': return a['Z'] == 0
    if k == 'resistor': return a['R'] == 0
    if k == 'impedance': return a['Z'] == 0
    if k == 'load_i': return complex(a['P'], a['Q']) == 0
    return False

def elem_Y(d):
    """finite admittance the code sums for this branch (0 for ideal voltage sources)"""
    k, a = d['kind'], d['args']
    if elem_is_ideal_vs(d): return 0j
    if k == 'resistor': return 1 / complex(a['R'])
    if k == 'conductor': return complex(a['G'])
    if k == 'impedance': return 1 / complex(a['Z'])
    if k == 'admittance': return complex(a['Y'])
    if k == 'load_v': return complex(a['P'], a['Q']) / a['V_ref'] ** 2
    if k == 'load_i': return 1 / (complex(a['P'], a['Q']) / a['I_ref'] ** 2)
    if k == 'vs_lossy': return 1 / complex(a['Z'])
    if k == 'cs_ideal': return 0j
    if k == 'cs_lossy': return complex(a['Y'])
    if k == 'open': return 0j
    raise ValueError(k)

def labels_of(desc):
    return sorted({d['n1'] for d in desc['branches']} | {d['n2'] for d in desc['branches']})

def port_facts(desc, n1, n2):
    """facts about the network `open_circuit_impedance` works on, for the port (n1, n2)"""
    br = desc['branches']
    across = [d for d in br if {d['n1'], d['n2']} == {n1, n2}]
    vs_across = any(elem_is_ideal_vs(d) for d in across)
    early = n1 == n2 or vs_across
    vs_else = (not early) and any(elem_is_ideal_vs(d) and {d['n1'], d['n2']} != {n1, n2} for d in br)
    ref = n2 if n1 != desc['zero'] else n1
    zero_row = False
    if not early:
        for n in labels_of(desc):
            if n == ref: continue
            inc = [d for d in br if n in (d['n1'], d['n2']) and d['n1'] != d['n2']]
            if any(elem_is_ideal_vs(d) for d in inc): continue
            ys = {}
            for d in inc:
                o = d['n2'] if d['n1'] == n else d['n1']
                ys[o] = ys.get(o, 0j) + elem_Y(d)
            if sum(ys.values()) == 0 and all(v == 0 for v in ys.values()):
                zero_row = True
    # groups of >= 2 nodes that are joined to the reference only through zero-admittance branches
    island = False
    if not early:
        labs = labels_of(desc)
        comp = {n: n for n in labs}
        def find(x):
            while comp[x] != x: x = comp[x]
            return x
        for d in br:
            if d['n1'] != d['n2'] and (elem_is_ideal_vs(d) or elem_Y(d) != 0):     # ideal sources join their terminals
                comp[find(d['n1'])] = find(d['n2'])
        groups = {}
        for n in labs: groups.setdefault(find(n), []).append(n)
        island = any(len(g) >= 2 and ref not in g for g in groups.values())
    return dict(early=early, ideal_vs_elsewhere=bool(vs_else), zero_row_node=bool(zero_row), floating_island=bool(island))

def flags(f):
    return dict(ideal_vs_elsewhere=f['ideal_vs_elsewhere'], zero_row_node=f['zero_row_node'], floating_island=f['floating_island'])

def or_flags(*fs):
    return {k: any(f[k] for f in fs) for k in ('ideal_vs_elsewhere', 'zero_row_node', 'floating_island')}

def fallback_cond(desc, n1, n2):
    """condition number / inverse scale of the pruned nodal admittance matrix, from the description alone"""
    ref = n2 if n1 != desc['zero'] else n1
    labs = [l for l in labels_of(desc) if l != ref]
    if not labs: return None, 0.0
    idx = {l: k for k, l in enumerate(labs)}
    Y = np.zeros((len(labs), len(labs)), dtype=complex)
    for d in desc['branches']:
        if d['n1'] == d['n2'] or elem_is_ideal_vs(d): continue
        y = elem_Y(d)
        for a, b in ((d['n1'], d['n2']), (d['n2'], d['n1'])):
            if a in idx:
                Y[idx[a], idx[a]] += y
                if b in idx: Y[idx[a], idx[b]] -= y
    keep = Y.any(axis=0)
    Y = Y[np.ix_(keep, keep)]
    if not Y.size: return None, 0.0
    try:
        c = float(np.linalg.cond(Y)); zs = float(np.max(np.abs(np.linalg.inv(Y))))
    except Exception:
        return float('inf'), 0.0
    if not math.isfinite(zs): return float('inf'), 0.0
    return c, zs

def port_illcond(desc, n1, n2, spy):
    """is the nodal system of this port ill-conditioned (from the spy when the code called inv,
    from the description otherwise)"""
    if spy is not None and spy.args and spy.args[-1].size:
        try:
            return not (np.linalg.cond(spy.args[-1]) < 1e8)
        except Exception:
            return True
    if n1 == n2: return False
    c, _ = fallback_cond(desc, n1, n2)
    return c is not None and not (c < 1e8)

def has_vs_loop(desc):
    """a loop made of ideal voltage sources / short circuits only (parallel ones included): the
    currents in it are undetermined whatever the rest of the network is"""
    comp = {}
    def find(x):
        comp.setdefault(x, x)
        while comp[x] != x: x = comp[x]
        return x
    for d in desc['branches']:
        if elem_is_ideal_vs(d):
            a, b = find(d['n1']), find(d['n2'])
            if a == b: return True
            comp[a] = b
    return False

def custom_mapper(mode):
    """a NetworkMapper that orders the non-reference nodes differently from the alphabetic default"""
    import hashlib
    from CircuitCalculator.Network.NodalAnalysis.label_mapping import LabelMapping
    def mapper(network):
        labs = [l for l in network.node_labels if l != network.node_zero_label]
        if mode == 'reversed': labs = labs[::-1]
        else: labs = sorted(labs, key=lambda l: hashlib.sha256((mode + '|' + l).encode()).hexdigest())
        return LabelMapping({k: v for v, k in enumerate(labs)})
    return mapper

def has_self_loop(desc):
    return any(d['n1'] == d['n2'] for d in desc['branches'])

# --------------------------------------------------------------------------- one port

def src_scales(net):
    """(pscale, iscale) of gen_net.net_scales: the magnitudes potentials / currents of this network are MADE OF
    (source voltages, source currents and their images under the network's own immittances).  A Voc / Isc /
    Thevenin U / Norton I that is small only because large terms cancel carries rounding noise relative to
    these, not relative to itself: every such comparison is relative to max(observed magnitudes, these) —
    a noise floor of pscale resp. iscale times the usual relative tolerance, and no absolute floor."""
    try:
        ps, is_ = gen_net.net_scales(net)
        ps = float(ps); is_ = float(is_)
        return (ps if math.isfinite(ps) else 0.0), (is_ if math.isfinite(is_) else 0.0)
    except Exception:
        return 0.0, 0.0

def judge_undefined(out, spec, impl, canon, op, pretty, case):
    """the exact Spec says the unit-current problem has NO solution (the port node is isolated: it hangs on
    zero-admittance branches only, or its admittances cancel exactly): the impedance is infinite.  The implementation
    must raise or return an infinite / NaN value; a finite number is a wrong answer, and an IndexError is the
    accident of a label sort order."""
    if spec.get('consistent', True):
        out.count('port_undefined'); return
    out.nontrivial(('isolated_port', op))
    canon = dict(canon, port_node_isolated=True)
    if impl[0] == 'ok':
        out.spec_fail(dict(canon, symptom='finite_value_for_undefined_port'),
                      f'{op}: no voltage answers a unit test current at this port (infinite impedance); the implementation reports the finite value {impl[1]}',
                      pretty, impl=dict(value=impl[1]), spec=dict(consistent=False), case=case)
    elif impl[1] == 'KeyError':
        out.spec_fail(dict(canon, symptom='raises_IndexError'),
                      f'{op}: infinite port impedance; the implementation raises IndexError/KeyError (index of the pruned port node)',
                      pretty, impl=dict(error=impl[1]), spec=dict(consistent=False), case=case)
    else:
        out.count('undefined_port_rejected:' + impl[1])

def judge_equivalent_isolated(ctx, out, desc, n1, n2, canon, pretty, case):
    """Thevenin / Norton wrappers on an open port (isolated port node), judged from the property text: the
    Thevenin impedance is not finite (raise or inf/NaN); the Norton current is the current through a short
    attached to the port — when that network is well-posed it has an exact value, and a finite number the
    implementation reports must be that value; raising or inf/NaN is fine."""
    from CircuitCalculator.Network.NodalAnalysis import bias_point_analysis as bpa
    drv = ctx.driver
    try:
        net = gen_net.to_impl(desc)
    except Exception:
        return
    if not drv.call('net_consistent', net=gen_net.desc_to_json(desc))['consistent']:
        # e.g. an ideal current source feeding the isolated node: the network itself has no solution (not a network of C01)
        out.count('isolated_port_network_inconsistent'); return
    out.evaluations += 1
    sid = fresh_id(desc, 'SC')
    d_sc = dict(desc, branches=desc['branches'] + [dict(n1=n1, n2=n2, id=sid, kind='short', args={})])
    wp = drv.call('wellposed', net=gen_net.desc_to_json(d_sc))
    i_short = core.cfloat(wp['i'][sid]) if wp['wellposed'] else None
    got = [('short_circuit_current', run_impl(bpa.short_circuit_current, net, n1, n2))]
    es = ES[0]
    if es is not None:
        got.append(('NortenEquivalentSource.I', run_impl(lambda: es.NortenEquivalentSource(net, n1, n2).I)))
        zt = run_impl(lambda: es.TheveninEquivalentSource(net, n1, n2).Z)
        if zt[0] == 'ok':
            out.spec_fail(dict(canon, op='equivalent_sources', port_node_isolated=True, symptom='finite_value_for_undefined_port'),
                          f'TheveninEquivalentSource.Z of an open port is the finite value {zt[1]}', pretty, impl=dict(value=zt[1]), case=case)
    for name, r in got:
        if r[0] == 'err':
            out.count('isolated_norton_rejected:' + r[1]); continue
        if i_short is None:
            out.count('isolated_norton_unjudged'); continue
        if not rel_close(r[1], i_short, max(abs(i_short), src_scales(net)[1]), 1e-6):
            out.spec_fail(dict(canon, op='equivalent_sources', port_node_isolated=True, symptom='wrong_norton_current', quantity=name),
                          f'{name} of an open port is {r[1]}; the current through a short attached to the port is {i_short}', pretty,
                          impl=dict(value=r[1]), spec=dict(i_short=str(i_short)), case=case)
        else:
            out.count('isolated_norton_agrees')

def check_port(ctx, out, desc, n1, n2, exact, op='open_circuit_impedance', removed=None, full_desc=None):
    """`desc` is the network the port impedance is taken of (for element_impedance: the
    network without the element, `removed` = its id, `full_desc` = the original)."""
    from CircuitCalculator.Network.NodalAnalysis import node_analysis as na
    drv = ctx.driver
    out.evaluations += 1
    facts = port_facts(desc, n1, n2)
    canon = dict(op=op, **flags(facts))
    case = dict(kind='port', desc=full_desc or desc, n1=n1, n2=n2, op=op, removed=removed, exact=exact)
    pretty = dict(net=gen_net.pretty(full_desc or desc), port=[n1, n2], element=removed)
    # ---- implementation
    net = None
    try:
        net_full = gen_net.to_impl(full_desc or desc)
    except Exception as e:
        out.count('construct_error:' + tag(e)); return None
    with InvSpy() as spy:
        if removed is None:
            impl = run_impl(na.open_circuit_impedance, net_full, n1, n2)
        else:
            impl = run_impl(na.element_impedance, net_full, removed)
    Yimpl = spy.args[-1] if spy.args else None
    # ---- model
    model = None
    if drv is not None:
        jfull = gen_net.desc_to_json(full_desc or desc)
        if removed is None:
            model = model_res(drv.call('port_z', net=jfull, n1=n1, n2=n2))
        else:
            model = model_res(drv.call('elem_z', net=jfull, id=removed))
    cond = None; zscale = 0.0
    if Yimpl is not None and Yimpl.size and Yimpl.shape[0] == Yimpl.shape[1]:
        try:
            cond = float(np.linalg.cond(Yimpl))
            zscale = float(np.max(np.abs(np.linalg.inv(Yimpl))))
        except Exception:
            cond = float('inf')
        if not math.isfinite(zscale): zscale = 0.0; cond = float('inf')
    if cond is None and not facts['early']:
        # the implementation did not go through numpy.linalg.inv (e.g. a solve-based rewrite):
        # conditioning of the re-referenced nodal system, computed independently of the code path
        cond, zscale = fallback_cond(desc, n1, n2)
    illcond = cond is not None and not (cond < 1e8)
    # ---- correspondence: pruned system handed to numpy.linalg.solve
    if drv is not None and removed is None and impl != ('err', 'FloatingGroundNode'):
        pre = drv.call('port_pre', net=gen_net.desc_to_json(desc), n1=n1, n2=n2)
        bimpl = spy.rhs[-1] if spy.rhs else None
        if 'A' in pre:
            M = [[core.cfloat(x) for x in row] for row in pre['A']]
            ev = [core.cfloat(x) for x in pre['e']]
            ok = Yimpl is not None and Yimpl.shape == (len(M), len(M[0]) if M else 0) and \
                all(core.close(Yimpl[r][c], M[r][c], 0.0, 1e-12) for r in range(len(M)) for c in range(len(M[0]))) and \
                bimpl is not None and list(bimpl) == ev
            out.traces_validated += 1
            if not ok:
                out.disagree('port_pre', pretty, dict(A=None if Yimpl is None else Yimpl.tolist(), e=None if bimpl is None else list(bimpl)), pre)
        elif 'early' in pre or 'infinite' in pre:
            if Yimpl is not None:
                out.disagree('port_pre', pretty, 'solve called', pre)
        elif Yimpl is not None:
            out.disagree('port_pre', pretty, 'solve called', pre)
    # ---- correspondence: value / exception kind
    if model is not None:
        out.traces_validated += 1
        agree = False
        if impl[0] == 'ok' and model[0] == 'ok':
            agree = illcond or core.close(impl[1], model[1], zscale, 1e-7)
        elif impl[0] == 'err' and model[0] == 'err' and (impl[1] == model[1] or model[1] != 'LinAlgError'):
            agree = impl[1] == model[1]
        elif model == ('err', 'LinAlgError'):
            # exactly singular; the float elimination did not hit an exact zero pivot and went on
            agree = illcond or (impl[0] == 'ok' and abs(impl[1]) > 1e12)
            if agree: out.count('float_nonsingular')
        elif impl == ('err', 'LinAlgError') and model[0] == 'ok':
            agree = cond is None or illcond
        elif impl == ('err', 'NonFinite') and model[0] in ('ok', 'err'):
            agree = illcond or model == ('err', 'LinAlgError')
        if not agree:
            out.disagree(op, pretty, impl, model, cond=cond)
    out.count('impl:' + (impl[1] if impl[0] == 'err' else 'value'))
    # ---- Spec
    if drv is None or has_self_loop(desc):
        return impl
    if n1 not in labels_of(desc) and n1 != desc['zero']: return impl
    if n2 not in labels_of(desc) and n2 != desc['zero']: return impl
    if has_vs_loop(desc):
        out.count('ideal_source_loop_outside_domain'); return impl    # branch currents undetermined: not a network of C01
    spec = drv.call('port_spec', net=gen_net.desc_to_json(desc), n1=n1, n2=n2)
    if not spec['defined']:
        judge_undefined(out, spec, impl, canon, op, pretty, case)
        if removed is None and not spec.get('consistent', True) and n1 != n2:
            judge_equivalent_isolated(ctx, out, desc, n1, n2, canon, pretty, case)
        return impl
    z = core.cfloat(spec['z'])
    out.nontrivial((gen_net.shape(desc), facts['early'], facts['ideal_vs_elsewhere'], facts['zero_row_node'], facts['floating_island'], op))
    out.count('spec_defined')
    if facts['ideal_vs_elsewhere']: out.count('with_ideal_vs_elsewhere')
    if facts['zero_row_node']: out.count('with_zero_row_node')
    if facts['floating_island']: out.count('with_floating_island')
    if not spec['wellposed']: out.count('port_defined_network_not_wellposed')
    if impl == ('err', 'LinAlgError') and illcond and model is not None and model[0] == 'ok':
        out.skip('ill_conditioned'); return impl      # singular only in binary64: the exact system is regular
    if impl[0] == 'err':
        out.spec_fail(dict(canon, symptom='raises', exc=impl[1]),
                      f'{op}: port impedance is {z} by unit-current injection, implementation raises {impl[1]}',
                      pretty, impl=dict(error=impl[1]), spec=dict(z=spec['z']), case=case)
        return impl
    if illcond:
        out.skip('ill_conditioned'); return impl
    if not core.close(impl[1], z, zscale, 1e-7):
        out.spec_fail(dict(canon, symptom='wrong_value'),
                      f'{op}: implementation reports {impl[1]}, unit-current injection gives {z}',
                      pretty, impl=dict(value=impl[1]), spec=dict(z=spec['z']), case=case)
    else:
        out.count('spec_agrees')
        out.sample(dict(pretty, z=str(impl[1])))
        # the caller's node mapper: any order of the unknowns must give the same impedance
        for mode in ('reversed', 'perm-a'):
            mp = custom_mapper(mode)
            if removed is None:
                alt = run_impl(na.open_circuit_impedance, net_full, n1, n2, node_index_mapper=mp)
            else:
                alt = run_impl(na.element_impedance, net_full, removed, node_index_mapper=mp)
            out.evaluations += 1
            if alt[0] == 'err' or not core.close(alt[1], z, zscale, 1e-7):
                out.spec_fail(dict(canon, symptom='depends_on_node_mapper', node_mapper=mode),
                              f'{op} with a custom node_index_mapper ({mode} order of the nodes) gives {alt[1]}, unit-current injection gives {z}',
                              pretty, impl=dict(value=alt, default=impl[1]), spec=dict(z=spec['z']), case=dict(case, mapper=mode))
                break
        else:
            out.count('custom_mapper_agrees')
    return impl

def check_metamorphic(ctx, out, desc, n1, n2, exact):
    """symmetry and reference independence on the implementation"""
    from CircuitCalculator.Network.NodalAnalysis import node_analysis as na
    from CircuitCalculator.Network.network import Network
    facts = port_facts(desc, n1, n2)
    case = dict(kind='port', desc=desc, n1=n1, n2=n2, op='open_circuit_impedance', removed=None, exact=exact)
    try:
        net = gen_net.to_impl(desc)
    except Exception:
        return
    with InvSpy() as spy:
        a = run_impl(na.open_circuit_impedance, net, n1, n2)
    if a[0] != 'ok': return
    if port_illcond(desc, n1, n2, spy): return
    if any(port_illcond(dict(desc, zero=r), n1, n2, None) for r in labels_of(desc)): return
    out.evaluations += 1
    b = run_impl(na.open_circuit_impedance, net, n2, n1)
    if b[0] == 'err' or not core.close(a[1], b[1], 0.0, 1e-7):
        f2 = port_facts(desc, n2, n1)
        out.spec_fail(dict(op='open_circuit_impedance', symptom='asymmetric', **or_flags(facts, f2)),
                      f'Z({n1},{n2}) = {a[1]} but Z({n2},{n1}) = {b[1]}', gen_net.pretty(desc), impl=dict(a=a, b=b), case=case)
    for ref in labels_of(desc):
        if ref == desc['zero']: continue
        d2 = dict(desc, zero=ref)
        try:
            net2 = gen_net.to_impl(d2)
        except Exception:
            continue
        c = run_impl(na.open_circuit_impedance, net2, n1, n2)
        f3 = port_facts(d2, n1, n2)
        if c[0] == 'err' or not core.close(a[1], c[1], 0.0, 1e-7):
            out.spec_fail(dict(op='open_circuit_impedance', symptom='reference_dependent', **or_flags(facts, f3)),
                          f'Z({n1},{n2}) = {a[1]} with reference {desc["zero"]!r} but {c[1]} with reference {ref!r}',
                          gen_net.pretty(desc), impl=dict(a=a, c=c, ref=ref), case=case)
            break
    out.count('metamorphic_port')

# --------------------------------------------------------------------------- Thevenin / Norton

def fresh_id(desc, base):
    ids = {d['id'] for d in desc['branches']}
    while base in ids: base += "'"
    return base

def check_equivalent(ctx, out, desc, n1, n2, exact, rng):
    """Voc, Isc of the implementation (model correspondence) and the loaded-port oracle"""
    from CircuitCalculator.Network.NodalAnalysis import node_analysis as na
    from CircuitCalculator.Network.NodalAnalysis import bias_point_analysis as bpa
    drv = ctx.driver
    if drv is None or has_self_loop(desc) or n1 == n2: return
    try:
        net = gen_net.to_impl(desc)
    except Exception:
        return
    jnet = gen_net.desc_to_json(desc)
    out.evaluations += 1
    facts = port_facts(desc, n1, n2)
    canon0 = flags(facts)
    case = dict(kind='equivalent', desc=desc, n1=n1, n2=n2, exact=exact)
    pretty = dict(net=gen_net.pretty(desc), port=[n1, n2])
    wp = drv.call('wellposed', net=jnet)
    A = None
    try:
        A = na.nodal_analysis_coefficient_matrix(net)
    except Exception:
        pass
    illc = A is not None and A.size and not (np.linalg.cond(A) < 1e8)
    # ---- correspondence Voc / Isc
    voc = run_impl(bpa.open_circuit_voltage, net, n1, n2)
    m_voc = model_res(drv.call('oc_voltage', net=jnet, n1=n1, n2=n2))
    ps, is_ = src_scales(net)
    scale = ps                   # what the potentials are made of (sources and their images): the noise floor of Voc
    if wp['wellposed']:
        scale = max([abs(core.cfloat(v)) for v in wp['pot'].values()] + [ps])
    def agree(a, b):
        if a[0] == 'ok' and b[0] == 'ok': return illc or rel_close(a[1], b[1], scale, 1e-7)
        if a[0] == 'err' and b[0] == 'err': return a[1] == b[1]
        return False
    out.traces_validated += 1
    if wp['wellposed'] and not agree(voc, m_voc):
        out.disagree('open_circuit_voltage', pretty, voc, m_voc)
    with InvSpy() as spy:
        isc = run_impl(bpa.short_circuit_current, net, n1, n2)
    spy.args = spy.args[:1]      # the port system is solved first, the bias point afterwards
    illz = port_illcond(desc, n1, n2, spy)
    m_isc = model_res(drv.call('sc_current', net=jnet, n1=n1, n2=n2))
    # Isc = V/Z: the float error of V (relative to the potentials' scale) is amplified by 1/|Z|
    m_z = model_res(drv.call('port_z', net=jnet, n1=n1, n2=n2))
    iscale = max(scale / abs(m_z[1]) if m_z[0] == 'ok' and abs(m_z[1]) > 0 else 0.0, is_)
    def agree_isc(a, b):
        if a[0] == 'ok' and b[0] == 'ok': return illc or rel_close(a[1], b[1], iscale, 1e-7)
        if b == ('err', 'NonFinite') and a[0] == 'ok': return True     # Z = 0 exactly, ~1e-17 in binary64: V/Z is rounding noise
        return agree(a, b)
    if wp['wellposed'] and not illz and not agree_isc(isc, m_isc):
        if not (m_isc == ('err', 'LinAlgError') and isc[0] == 'ok' and abs(isc[1]) < 1e-9 * max(scale, iscale)) and \
           not (m_isc == ('err', 'LinAlgError') and isc == ('err', 'NonFinite')):
            out.disagree('short_circuit_current', pretty, isc, m_isc)
    # ---- oracle: exact open-circuit voltage
    if not wp['wellposed']:
        out.count('equivalent:network_illposed'); return
    if illc: out.skip('ill_conditioned'); return
    if n1 not in wp['pot'] or n2 not in wp['pot']: return
    voc_exact = core.cfloat(wp['pot'][n1]) - core.cfloat(wp['pot'][n2])
    if voc[0] == 'err' or not rel_close(voc[1], voc_exact, scale, 1e-7):
        out.spec_fail(dict(canon0, op='open_circuit_voltage', symptom='wrong_value' if voc[0] == 'ok' else 'raises'),
                      f'open_circuit_voltage reports {voc[1]}, exact solution gives {voc_exact}', pretty,
                      impl=dict(voc=voc), spec=dict(voc=str(voc_exact)), case=case)
        return
    spec = drv.call('port_spec', net=jnet, n1=n1, n2=n2)
    if not spec['defined']:
        out.count('port_undefined'); return
    zth_exact = core.cfloat(spec['z'])
    # ---- oracle: short-circuit current = current through an attached short
    sid = fresh_id(desc, 'SC')
    d_sc = dict(desc, branches=desc['branches'] + [dict(n1=n1, n2=n2, id=sid, kind='short', args={})])
    if drv.call('wellposed', net=gen_net.desc_to_json(d_sc))['wellposed'] and not illz:
        from CircuitCalculator.Network.NodalAnalysis.bias_point_analysis import nodal_analysis_bias_point_solver
        try:
            sol = nodal_analysis_bias_point_solver(gen_net.to_impl(d_sc))
            i_short = complex(sol.get_current(sid))
        except Exception as e:
            i_short = None
        if i_short is not None and cmath.isfinite(i_short):
            out.nontrivial(('isc', gen_net.shape(desc), facts['ideal_vs_elsewhere'], facts['zero_row_node'], facts['floating_island']))
            iscale2 = max(abs(i_short), iscale)
            if isc[0] == 'err' or not rel_close(isc[1], i_short, iscale2, 1e-6):
                out.spec_fail(dict(canon0, op='short_circuit_current', symptom='wrong_value' if isc[0] == 'ok' else 'raises'),
                              f'short_circuit_current reports {isc[1]}, the current through a short attached to the port is {i_short}',
                              pretty, impl=dict(isc=isc), spec=dict(i_short=str(i_short), zth=spec['z']), case=case)
            else:
                out.count('isc_agrees')
    # ---- oracle: loaded port
    zth = run_impl(na.open_circuit_impedance, net, n1, n2)
    lid = fresh_id(desc, 'ZL')
    zl = complex(rng.choice([0.5, 1.0, 2.0, 8.0, 100.0, 1e-3, 1e4]), rng.choice([0.0, 0.0, 1.0, -4.0]))
    d_l = dict(desc, branches=desc['branches'] + [dict(n1=n1, n2=n2, id=lid, kind='impedance', args=dict(Z=zl))])
    if abs(zth_exact + zl) < 1e-6 * (abs(zl) + abs(zth_exact)): return
    if not drv.call('wellposed', net=gen_net.desc_to_json(d_l))['wellposed']: return
    try:
        netl = gen_net.to_impl(d_l)
        Al = na.nodal_analysis_coefficient_matrix(netl)
        if Al.size and not (np.linalg.cond(Al) < 1e8): out.skip('ill_conditioned'); return
        from CircuitCalculator.Network.NodalAnalysis.bias_point_analysis import nodal_analysis_bias_point_solver
        sol = nodal_analysis_bias_point_solver(netl)
        v_load = complex(sol.get_potential(n1)) - complex(sol.get_potential(n2))
    except Exception as e:
        out.count('loaded_solver_error:' + tag(e)); return
    out.nontrivial(('load', gen_net.shape(desc), facts['ideal_vs_elsewhere'], facts['zero_row_node'], facts['floating_island']))
    if zth[0] == 'err':
        out.spec_fail(dict(canon0, op='thevenin_load', symptom='raises', exc=zth[1]),
                      f'Thevenin impedance of a determined port raises {zth[1]}', pretty, impl=dict(zth=zth), spec=dict(z=spec['z']), case=case)
        return
    if illz: out.skip('ill_conditioned'); return
    predicted = voc[1] * zl / (zth[1] + zl) if abs(zth[1] + zl) > 0 else complex('nan')
    if not rel_close(v_load, predicted, max(scale, src_scales(netl)[0]), 1e-6):
        out.spec_fail(dict(canon0, op='thevenin_load', symptom='wrong_value'),
                      f'load {zl} sees {v_load}; Voc·Z_L/(Zth+Z_L) from the reported Voc={voc[1]}, Zth={zth[1]} is {predicted}',
                      pretty, impl=dict(voc=voc, zth=zth, v_load=v_load, zl=zl), spec=dict(zth=spec['z']), case=dict(case, zl=zl))
    else:
        out.count('thevenin_load_agrees')

# --------------------------------------------------------------------------- unit scales

SCALES = [1e-12, 1e-9, 1e-6, 1e-3, 1e3, 1e6, 1e9, 1e12]

def scale_branch(d, k):
    """the branch with its impedance multiplied by k (admittance divided), voltage sources untouched,
    current-source values divided by k — every voltage of the network stays what it was"""
    kind, a = d['kind'], dict(d['args'])
    if kind == 'resistor': a['R'] = a['R'] * k
    elif kind == 'conductor': a['G'] = a['G'] / k
    elif kind == 'impedance': a['Z'] = a['Z'] * k
    elif kind == 'admittance': a['Y'] = a['Y'] / k
    elif kind == 'load_v': a['P'] = a['P'] / k; a['Q'] = a['Q'] / k
    elif kind == 'load_i': a['P'] = a['P'] * k; a['Q'] = a['Q'] * k
    elif kind == 'vs_lossy': a['Z'] = a['Z'] * k
    elif kind == 'cs_ideal': a['I'] = a['I'] / k
    elif kind == 'cs_lossy': a['I'] = a['I'] / k; a['Y'] = a['Y'] / k
    return dict(d, args=a)

def scale_desc(desc, k, only_node=None):
    return dict(desc, branches=[scale_branch(d, k) if only_node is None or only_node in (d['n1'], d['n2']) else d
                                for d in desc['branches']])

def equil_cond(A):
    """condition number after symmetric diagonal equilibration (a few Ruiz steps): the accuracy of an LU
    solve of a nodal system does not suffer from a mere change of units of some unknowns"""
    A = np.array(A, dtype=complex)
    if not A.size: return 1.0
    try:
        for _ in range(6):
            r = np.sqrt(np.max(np.abs(A), axis=1)); c = np.sqrt(np.max(np.abs(A), axis=0))
            r[r == 0] = 1; c[c == 0] = 1
            A = A / r[:, None] / c[None, :]
        v = float(np.linalg.cond(A))
        return v if math.isfinite(v) else float('inf')
    except Exception:
        return float('inf')

def rel_close(a, b, ref, tol):
    a = complex(a); b = complex(b)
    if not (cmath.isfinite(a) and cmath.isfinite(b)): return False
    return abs(a - b) <= tol * max(abs(a), abs(b), ref)

def check_scaled(ctx, out, desc, n1, n2, exact, scales=SCALES, only_node=None):
    """unit scales: all impedances (or only those at `only_node`) multiplied by k.  Homogeneity: Z of the
    scaled network is k × the exact Z of the unscaled one (all impedances scaled); mixed scales: compared with
    the exact Spec value of the mixed network.  Purely relative comparison — nothing is absorbed by an
    absolute floor — guarded by the condition number of the equilibrated system the implementation solved."""
    from CircuitCalculator.Network.NodalAnalysis import node_analysis as na
    drv = ctx.driver
    if drv is None or n1 == n2 or has_self_loop(desc) or has_vs_loop(desc): return
    facts = port_facts(desc, n1, n2)
    if facts['floating_island']: return                      # open finding, reported by check_port
    spec0 = drv.call('port_spec', net=gen_net.desc_to_json(desc), n1=n1, n2=n2)
    if not spec0['defined']: return
    z0 = core.cfloat(spec0['z'])
    c0, zs0 = fallback_cond(desc, n1, n2)
    if c0 is not None and not (c0 < 1e8): out.skip('ill_conditioned'); return
    for k in scales:
        out.evaluations += 1
        d2 = scale_desc(desc, k, only_node)
        try:
            net = gen_net.to_impl(d2)
        except Exception as e:
            out.count('scaled_construct_error:' + tag(e)); continue
        with InvSpy() as spy:
            impl = run_impl(na.open_circuit_impedance, net, n1, n2)
        if only_node is None:
            want = k * z0; ref = k * zs0
        else:
            sp = drv.call('port_spec', net=gen_net.desc_to_json(d2), n1=n1, n2=n2)
            if not sp['defined']: out.count('port_undefined'); continue
            want = core.cfloat(sp['z']); ref = 0.0
        if spy.args and not (equil_cond(spy.args[0]) < 1e8):
            out.skip('ill_conditioned'); continue
        if only_node is not None and spy.args and spy.rhs and spy.rhs[0] is not None:
            try:      # scale of the unknowns of the system the implementation solved (an exact 0 is reported as rounding noise)
                ref = float(np.max(np.abs(np.linalg.solve(spy.args[0], spy.rhs[0]))))
                if not math.isfinite(ref): ref = 0.0
            except Exception:
                ref = 0.0
        canon = dict(op='open_circuit_impedance', symptom='not_homogeneous' if only_node is None else 'wrong_value_at_extreme_scale',
                     impedance_scale='small' if k < 1 else 'large', mixed=only_node is not None, **flags(facts))
        case = dict(kind='scaled', desc=desc, n1=n1, n2=n2, exact=exact, k=k, only_node=only_node)
        pretty = dict(net=gen_net.pretty(d2), port=[n1, n2], impedance_scale=k, scaled='all' if only_node is None else f'at node {only_node!r}')
        out.nontrivial(('scaled', only_node is None, k, gen_net.shape(desc), facts['ideal_vs_elsewhere'], facts['zero_row_node']))
        if impl[0] == 'err':
            out.spec_fail(dict(canon, symptom='raises', exc=impl[1]),
                          f'impedances ×{k:g}: open_circuit_impedance raises {impl[1]}, the port impedance is {want}', pretty,
                          impl=dict(error=impl[1]), spec=dict(z=str(want)), case=case)
        elif not rel_close(impl[1], want, ref, 1e-6):
            out.spec_fail(canon, f'impedances ×{k:g}: open_circuit_impedance reports {impl[1]}, '
                          + (f'k × the exact impedance of the unscaled network is {want}' if only_node is None else f'unit-current injection gives {want}'),
                          pretty, impl=dict(z=impl[1]), spec=dict(z=str(want), z_unscaled=spec0['z']), case=case)
        else:
            out.count('scaled_agrees' if only_node is None else 'mixed_scale_agrees')

def check_scaled_equivalent(ctx, out, desc, n1, n2, exact, es, scales=SCALES):
    """unit scales for the equivalent sources: impedances × k, current sources ÷ k — the open-circuit voltage is
    unchanged, the short-circuit current is divided by k (Thevenin U, Z·k; Norton I/k, Y/k)"""
    from CircuitCalculator.Network.NodalAnalysis import node_analysis as na
    from CircuitCalculator.Network.NodalAnalysis import bias_point_analysis as bpa
    drv = ctx.driver
    if drv is None or n1 == n2 or has_self_loop(desc) or has_vs_loop(desc): return
    facts = port_facts(desc, n1, n2)
    if facts['floating_island'] or facts['early']: return
    jnet = gen_net.desc_to_json(desc)
    wp = drv.call('wellposed', net=jnet)
    if not wp['wellposed'] or n1 not in wp['pot'] or n2 not in wp['pot']: return
    spec0 = drv.call('port_spec', net=jnet, n1=n1, n2=n2)
    if not spec0['defined']: return
    z0 = core.cfloat(spec0['z'])
    voc = core.cfloat(wp['pot'][n1]) - core.cfloat(wp['pot'][n2])
    vscale = max([abs(core.cfloat(v)) for v in wp['pot'].values()] + [1e-300])
    if abs(z0) == 0: return
    c0, zs0 = fallback_cond(desc, n1, n2)
    if c0 is not None and not (c0 < 1e8): out.skip('ill_conditioned'); return
    # natural voltage magnitude of the network (an exact 0 is reported as rounding noise of that size)
    vsrc = [abs(complex(d['args']['V'])) for d in desc['branches'] if d['kind'] in ('vs_ideal', 'vs_lossy')]
    isrc = [abs(complex(d['args']['I'])) for d in desc['branches'] if d['kind'] in ('cs_ideal', 'cs_lossy')]
    vscale = max([vscale] + vsrc + [i * zs0 for i in isrc])
    for k in scales:
        out.evaluations += 1
        d2 = scale_desc(desc, k)
        try:
            net = gen_net.to_impl(d2)
            A = na.nodal_analysis_coefficient_matrix(net)
        except Exception as e:
            out.count('scaled_construct_error:' + tag(e)); continue
        if not (equil_cond(A) < 1e7): out.skip('ill_conditioned'); continue
        v = run_impl(bpa.open_circuit_voltage, net, n1, n2)
        with InvSpy() as spy:
            i = run_impl(bpa.short_circuit_current, net, n1, n2)
        if spy.args and not (equil_cond(spy.args[0]) < 1e8): out.skip('ill_conditioned'); continue
        canon = dict(op='equivalent_sources_scaled', impedance_scale='small' if k < 1 else 'large', **flags(facts))
        case = dict(kind='scaled_equivalent', desc=desc, n1=n1, n2=n2, exact=exact, k=k)
        pretty = dict(net=gen_net.pretty(d2), port=[n1, n2], impedance_scale=k)
        out.nontrivial(('scaled_equivalent', k, gen_net.shape(desc)))
        ps, is_ = src_scales(net)
        vref = max(vscale, ps); iref = max(vscale / abs(z0) / k, is_)
        checks = [('open_circuit_voltage', v, voc, vref), ('short_circuit_current', i, voc / z0 / k, iref)]
        if es is not None:
            def rec(cls, f):
                return run_impl(lambda: getattr(cls(net, n1, n2), f))
            checks += [('TheveninEquivalentSource.U', rec(es.TheveninEquivalentSource, 'U'), voc, vref),
                       ('TheveninEquivalentSource.Z', rec(es.TheveninEquivalentSource, 'Z'), k * z0, k * zs0),
                       ('NortenEquivalentSource.I', rec(es.NortenEquivalentSource, 'I'), voc / z0 / k, iref),
                       ('NortenEquivalentSource.Y', rec(es.NortenEquivalentSource, 'Y'), 1 / (k * z0), 0.0)]
        bad = False
        for name, got, want, ref in checks:
            if got[0] == 'err' or not rel_close(got[1], want, ref, 1e-6):
                out.spec_fail(dict(canon, quantity=name, symptom='raises' if got[0] == 'err' else 'wrong_value'),
                              f'impedances ×{k:g}, current sources ÷{k:g}: {name} is {got[1]}, expected {want}', pretty,
                              impl=dict(value=got), spec=dict(value=str(want)), case=case)
                bad = True; break
        if not bad: out.count('scaled_equivalent_agrees')

# --------------------------------------------------------------------------- equivalent_sources

def check_equivalent_sources_module(ctx, out):
    out.evaluations += 1
    predicted = gen_missing_imports()
    for m in [m for m in sys.modules if m.endswith('Network.equivalent_sources')]:
        del sys.modules[m]
    try:
        es = importlib.import_module('CircuitCalculator.Network.equivalent_sources')
        res = 'ok'
    except Exception as e:
        es = None; res = tag(e)
    out.count('equivalent_sources_import:' + res)
    if predicted is not None:
        out.traces_validated += 1
        if (res == 'ImportError') != bool(predicted):
            out.disagree('import_equivalent_sources', 'import CircuitCalculator.Network.equivalent_sources', res,
                         dict(unresolved_imports=predicted))
    if es is None:
        out.spec_fail(dict(op='import_equivalent_sources', symptom='raises', exc=res),
                      f'Network/equivalent_sources.py cannot be imported ({res}): Thevenin/Norton parameter objects are unavailable',
                      'import CircuitCalculator.Network.equivalent_sources', impl=dict(error=res),
                      spec=dict(unresolved=predicted), case=dict(kind='import'))
    return es

def gen_missing_imports():
    """what the translator generated into CC/Gen/PortImports.lean (None when absent)"""
    p = core.LEAN / 'CC' / 'Gen' / 'PortImports.lean'
    if not p.exists(): return None
    import re
    return re.findall(r'\("([^"]+)", "([^"]+)"\)', p.read_text().split('equivalentSourcesUnresolved', 1)[-1].split('\n\n')[0])

def check_equivalent_records(ctx, out, es, desc, n1, n2):
    """once the module imports: the two records against the model and against Voc / Zth"""
    drv = ctx.driver
    if es is None or drv is None: return
    try:
        net = gen_net.to_impl(desc)
    except Exception:
        return
    jn = gen_net.desc_to_json(desc)
    if not drv.call('wellposed', net=jn)['wellposed']:
        out.count('records:network_illposed'); return     # exactly singular bias point: binary64 need not notice
    if port_illcond(desc, n1, n2, None): out.skip('ill_conditioned'); return
    out.evaluations += 1
    m = drv.call('equivalents', net=jn, n1=n1, n2=n2)
    def rec(cls, fields):
        try:
            o = cls(net, n1, n2)
            vals = [complex(getattr(o, f)) for f in fields]
            if any(v.real == math.inf and v.imag == 0 for v in vals) and all(cmath.isfinite(v) or v.real == math.inf for v in vals): return ('err', 'Infinite')
            if not all(cmath.isfinite(v) for v in vals): return ('err', 'NonFinite')
            return ('ok', vals)
        except Exception as e:
            return ('err', tag(e))
    for name, cls, fields in (('thevenin', es.TheveninEquivalentSource, ('U', 'Z')), ('norton', es.NortenEquivalentSource, ('I', 'Y'))):
        impl = rec(cls, fields)
        mm = m[name]
        out.traces_validated += 1
        if 'err' in mm:
            if impl != ('err', mm['err']) and mm['err'] not in ('LinAlgError', 'NonFinite'):
                out.disagree('equivalent_sources.' + name, gen_net.pretty(desc), impl, mm)
        elif impl[0] == 'err':
            out.disagree('equivalent_sources.' + name, gen_net.pretty(desc), impl, mm)
        else:
            mv = [core.cfloat(mm['ok'][f]) for f in fields]
            ps, is_ = src_scales(net)
            # U, I: relative to what they are made of (an exact 0 left by cancelling sources comes back as noise of
            # that size); Z, Y: relative to themselves above the unit floor of the port system
            def same(f, a, b):
                if f == 'U': return rel_close(a, b, ps, 1e-6)
                if f == 'I': return rel_close(a, b, max(is_, ps * abs(mv[1])), 1e-6)      # I = Voc · Y
                return core.close(a, b, 1.0, 1e-6)
            if not all(same(f, a, b) for f, a, b in zip(fields, impl[1], mv)):
                out.disagree('equivalent_sources.' + name, gen_net.pretty(desc), impl, mm)

# --------------------------------------------------------------------------- circuit level

def mk_circuit(comps):
    from CircuitCalculator.Circuit import components as ccp
    from CircuitCalculator.Circuit.circuit import Circuit
    out = []
    for c in comps:
        k = c['kind']
        if k == 'R': out.append(ccp.resistor(c['id'], tuple(c['nodes']), R=c['v']))
        elif k == 'L': out.append(ccp.inductance(c['id'], tuple(c['nodes']), L=c['v']))
        elif k == 'C': out.append(ccp.capacitor(c['id'], tuple(c['nodes']), C=c['v']))
        elif k == 'Z': out.append(ccp.impedance(c['id'], tuple(c['nodes']), Z=c['v']))
        elif k == 'Vdc': out.append(ccp.dc_voltage_source(c['id'], tuple(c['nodes']), V=c['v'], R=c.get('R', 0)))
        elif k == 'Vac': out.append(ccp.ac_voltage_source(c['id'], tuple(c['nodes']), V=c['v'], w=c['w'], R=c.get('R', 0)))
        elif k == 'Idc': out.append(ccp.dc_current_source(c['id'], tuple(c['nodes']), I=c['v'], G=c.get('G', 0)))
        elif k == 'Iac': out.append(ccp.ac_current_source(c['id'], tuple(c['nodes']), I=c['v'], w=c['w'], G=c.get('G', 0)))
        elif k == 'gnd': out.append(ccp.ground(nodes=(c['nodes'][0],)))
        else: raise ValueError(k)
    return Circuit(out)

def net_desc_of(network):
    """description (for canon facts) of a real Network"""
    br = []
    for b in network.branches:
        e = b.element
        if type(e).__name__ == 'NortenElement':
            br.append(dict(n1=b.node1, n2=b.node2, id=b.id, kind='vs_lossy', args=dict(V=complex(e.V), Z=complex(e.Z))))
        else:
            br.append(dict(n1=b.node1, n2=b.node2, id=b.id, kind='cs_lossy', args=dict(I=complex(e.I), Y=complex(e.Y))))
    return dict(branches=br, zero=network.node_zero_label)

W_RES = 1e-3

def ref_desc(comps, w):
    """the network the PROPERTY TEXT prescribes for the port impedance of a circuit at angular frequency w — written
    from the components, not from transform_circuit: every independent source deactivated keeping its internal
    immittance (voltage source → its internal R, or a short; current source → its internal G, or an open),
    R ↦ R, Z ↦ Z, L ↦ jwL, C ↦ 1/(jwC)"""
    br = []; zero = None
    for c in comps:
        k = c['kind']
        if k == 'gnd': zero = c['nodes'][0]; continue
        a, b = c['nodes'][0], c['nodes'][1]
        if k == 'R': e = ('vs_lossy', dict(V=0j, Z=complex(c['v'])))
        elif k == 'Z': e = ('vs_lossy', dict(V=0j, Z=complex(c['v'])))
        elif k == 'L': e = ('vs_lossy', dict(V=0j, Z=complex(0.0, w * c['v'])))
        elif k == 'C': e = ('cs_lossy', dict(I=0j, Y=complex(0.0, w * c['v'])))
        elif k in ('Vdc', 'Vac'): e = ('vs_lossy', dict(V=0j, Z=complex(c.get('R', 0) or 0)))
        elif k in ('Idc', 'Iac'): e = ('cs_lossy', dict(I=0j, Y=complex(c.get('G', 0) or 0)))
        else: raise ValueError(k)
        br.append(dict(n1=a, n2=b, id=c['id'], kind=e[0], args=e[1]))
    if zero is None: zero = comps[0]['nodes'][0]
    return dict(branches=br, zero=zero)

def lossy_other_frequency(comps, w):
    """a source with internal resistance / conductance whose own frequency is not the analysed one"""
    for c in comps:
        if c['kind'] in ('Vdc', 'Vac') and (c.get('R', 0) or 0) > 0 or c['kind'] in ('Idc', 'Iac') and (c.get('G', 0) or 0) > 0:
            ws = 0.0 if c['kind'] in ('Vdc', 'Idc') else float(c['w'])
            if abs(w - ws) > W_RES: return True
    return False

def random_circuit(rng):
    n = rng.randint(2, 5)
    nodes = [str(k) for k in range(n)]
    rng.shuffle(nodes)
    comps = []; i = 0
    edges = [(nodes[rng.randrange(k)], nodes[k]) for k in range(1, n)]
    for _ in range(rng.randint(0, 3)):
        edges.append(tuple(rng.sample(nodes, 2)))
    for a, b in edges:
        if rng.random() < 0.5: a, b = b, a
        k = rng.choice(['R', 'R', 'L', 'C', 'Z', 'Vdc', 'Vac', 'Idc', 'Iac'])
        i += 1
        c = dict(kind=k, id=f'{k}{i}', nodes=[a, b])
        if k == 'Z': c['v'] = complex(gen_net.exact_real(rng), rng.choice([0.0, gen_net.exact_real(rng), -gen_net.exact_real(rng)]))
        else: c['v'] = gen_net.exact_real(rng)
        if k == 'Vac': c['w'] = rng.choice([1.0, 2.0, 0.5]); c['R'] = rng.choice([0, 2.0, 0.5])
        if k == 'Vdc': c['R'] = rng.choice([0, 4.0, 1.0])
        if k == 'Idc': c['G'] = rng.choice([0, 0.5, 2.0])
        if k == 'Iac': c['w'] = rng.choice([1.0, 2.0, 0.5]); c['G'] = rng.choice([0, 0.25, 1.0])
        comps.append(c)
    comps.append(dict(kind='gnd', id='gnd', nodes=[rng.choice(nodes)]))
    return comps

def check_sweep_consistency(ctx, out, comps, n1, n2, ws, el=None):
    """a frequency sweep is the list of the single-frequency results: point by point (value, ∞, imaginary part and all),
    also for the reversed sweep; the empty sweep is the empty array.  Implementation against itself — plus, in
    `check_circuit`, against the exact values."""
    from CircuitCalculator.Circuit import impedance as cimp
    circuit = mk_circuit(comps)
    f = (lambda w: cimp.open_circuit_impedance(circuit, n1, n2, w)) if el is None else (lambda w: cimp.element_impedance(circuit, el, w))
    op = 'circuit_impedance' if el is None else 'circuit_element_impedance'
    pretty = dict(circuit=[f"{c['id']}:{c['kind']}{tuple(c['nodes'])}={c.get('v', '')}" for c in comps], port=[n1, n2], element=el, w=list(ws))
    case = dict(kind='sweep', comps=comps, n1=n1, n2=n2, ws=list(ws), el=el)
    out.evaluations += 1
    def single(w0):
        try:
            r = f(np.array([w0], dtype=float))
            return ('ok', complex(r[0])) if len(r) == 1 else ('err', 'shape')
        except Exception as e:
            return ('err', tag(e))
    singles = [single(w0) for w0 in ws]
    if any(r[0] == 'err' for r in singles):
        out.count('sweep:single_point_raises'); return
    def same(a, b):
        if not cmath.isfinite(b): return (a.real == b.real or (math.isnan(a.real) and math.isnan(b.real))) and (a.imag == b.imag or not cmath.isfinite(a))
        return cmath.isfinite(a) and abs(a - b) <= 1e-12 * max(abs(a), abs(b), 1e-300)
    out.nontrivial(('sweep', len(ws), ws[0] == 0 if ws else None, el is None, any(not cmath.isfinite(r[1]) for r in singles)))
    for order, wl, want in (('given', list(ws), [r[1] for r in singles]), ('reversed', list(ws)[::-1], [r[1] for r in singles][::-1]), ('empty', [], [])):
        try:
            got = [complex(z) for z in f(np.array(wl, dtype=float))]
        except Exception as e:
            out.spec_fail(dict(op=op, symptom='sweep_raises', exc=tag(e), sweep=order, lossy_other_frequency=False, ideal_vs_elsewhere=False,
                               zero_row_node=False, floating_island=False),
                          f'the {order} sweep {wl} raises {tag(e)} although every single-frequency call succeeds', pretty, impl=dict(error=tag(e)), case=case)
            return
        if len(got) != len(want) or not all(same(a, b) for a, b in zip(got, want)):
            out.spec_fail(dict(op=op, symptom='sweep_differs_from_single_frequency', sweep=order, first_point_special=bool(wl) and (not cmath.isfinite(want[0]) or want[0] == 0),
                               lossy_other_frequency=False, ideal_vs_elsewhere=False, zero_row_node=False, floating_island=False),
                          f'the {order} sweep over {wl} gives {got}; the single-frequency calls give {want}', pretty,
                          impl=dict(sweep=got), spec=dict(single=want), case=case)
            return
    out.count('sweep_consistent')

SWEEP_CORPUS = [
    # first point w = 0 is a special value: integer 0 across an inductor, ∞ behind a series capacitor, 0 across an ideal source
    ([dict(kind='L', id='L', nodes=['a', '0'], v=1.0), dict(kind='R', id='R', nodes=['a', '0'], v=3.0), dict(kind='gnd', id='gnd', nodes=['0'])], 'a', '0', [0.0, 1.0, 10.0], 'R'),
    ([dict(kind='L', id='L', nodes=['a', '0'], v=1.0), dict(kind='R', id='R', nodes=['a', '0'], v=3.0), dict(kind='gnd', id='gnd', nodes=['0'])], 'a', '0', [0.0, 1.0, 10.0], None),
    ([dict(kind='R', id='R', nodes=['a', 'b'], v=50.0), dict(kind='C', id='C', nodes=['b', '0'], v=0.001), dict(kind='R', id='X', nodes=['a', '0'], v=7.0),
      dict(kind='gnd', id='gnd', nodes=['0'])], 'a', '0', [0.0, 1.0, 10.0], 'X'),
    ([dict(kind='R', id='R', nodes=['a', 'b'], v=50.0), dict(kind='C', id='C', nodes=['b', '0'], v=0.001), dict(kind='gnd', id='gnd', nodes=['0'])], 'a', '0', [0.0, 1.0, 10.0], None),
    ([dict(kind='Vdc', id='V', nodes=['a', '0'], v=1.0), dict(kind='L', id='L', nodes=['a', 'b'], v=2.0), dict(kind='R', id='R', nodes=['b', '0'], v=4.0),
      dict(kind='gnd', id='gnd', nodes=['0'])], 'b', '0', [0.0, 0.5, 2.0], 'R'),
    ([dict(kind='Vdc', id='V', nodes=['a', '0'], v=1.0), dict(kind='L', id='L', nodes=['a', 'b'], v=2.0), dict(kind='R', id='R', nodes=['b', '0'], v=4.0),
      dict(kind='gnd', id='gnd', nodes=['0'])], 'a', '0', [0.0, 0.5, 2.0], 'L'),
    ([dict(kind='C', id='C', nodes=['a', 'm'], v=1.0), dict(kind='R', id='R', nodes=['m', '0'], v=5.0), dict(kind='gnd', id='gnd', nodes=['0'])], 'a', '0', [0.0, 1.0, 4.0], 'C'),
]

def check_circuit(ctx, out, comps, n1, n2, ws, el=None):
    """Circuit/impedance.py wrappers: model = sweep of the network-level model over the implementation's own
    transform_circuit outputs (correspondence); Spec per frequency = exact port impedance of the network the
    property text prescribes (`ref_desc`: sources deactivated keeping their internal immittance)"""
    from CircuitCalculator.Circuit import impedance as cimp
    from CircuitCalculator.Circuit.circuit import transform_circuit
    drv = ctx.driver
    check_sweep_consistency(ctx, out, comps, n1, n2, ws, el)
    out.evaluations += 1
    circuit = mk_circuit(comps)
    pretty = dict(circuit=[f"{c['id']}:{c['kind']}{tuple(c['nodes'])}={c.get('v', '')}" for c in comps], port=[n1, n2], element=el, w=list(ws))
    case = dict(kind='circuit', comps=comps, n1=n1, n2=n2, ws=list(ws), el=el)
    w = np.array(ws, dtype=float)
    def impl_call():
        if el is None: return cimp.open_circuit_impedance(circuit, n1, n2, w)
        return cimp.element_impedance(circuit, el, w)
    try:
        zs = ('ok', [complex(z) for z in impl_call()])
    except Exception as e:
        zs = ('err', tag(e))
    def impl_dc():
        if el is None: return cimp.open_circuit_dc_resistance(circuit, n1, n2)
        return cimp.element_dc_resistance(circuit, el)
    try:
        nets = [transform_circuit(circuit, w0) for w0 in ws]
        net0 = transform_circuit(circuit, 0)
    except Exception as e:
        out.count('transform_error:' + tag(e)); return
    if drv is None: return
    args = dict(nets=[gen_net.impl_to_json(N) for N in nets])
    if el is None: args.update(n1=n1, n2=n2)
    else: args.update(id=el)
    m = drv.call('port_sweep', **args)
    out.traces_validated += 1
    ms = m['sweep']
    if 'err' in ms:
        inf_in_sweep = zs[0] == 'ok' and any(z.real == math.inf for z in zs[1])
        if zs != ('err', ms['err']) and ms['err'] != 'LinAlgError' and not (ms['err'] == 'Infinite' and inf_in_sweep):
            out.disagree('circuit.impedance.sweep', pretty, zs, ms)
    elif zs[0] == 'err':
        out.disagree('circuit.impedance.sweep', pretty, zs, ms)
    else:
        mv = [math.inf if x == 'inf' else core.cfloat(x) for x in ms['ok']]
        def same(a, b):
            if b == math.inf: return a.real == math.inf
            return core.close(a, b, 0.0, 1e-6) or not cmath.isfinite(a)
        if len(mv) != len(zs[1]) or not all(same(a, b) for a, b in zip(zs[1], mv)):
            out.disagree('circuit.impedance.sweep', pretty, zs, ms)
    # dc wrapper
    m0 = drv.call('port_sweep', **dict(args, nets=[gen_net.impl_to_json(net0)]))['dc']
    try:
        dc = ('ok', complex(impl_dc()))
    except Exception as e:
        dc = ('err', tag(e))
    if m0 is not None:
        if 'err' in m0:
            if dc != ('err', m0['err']) and m0['err'] != 'LinAlgError' and not (m0['err'] == 'Infinite' and dc[0] == 'ok' and dc[1].real == math.inf):
                out.disagree('circuit.impedance.dc', pretty, dc, m0)
        elif dc[0] == 'err' or not (core.close(dc[1], core.cfloat(m0['ok']), 0.0, 1e-6) or not cmath.isfinite(dc[1])):
            out.disagree('circuit.impedance.dc', pretty, dc, m0)
    # Spec of the DC wrappers: Re Z(0) of the network the property text prescribes (not of transform_circuit's)
    nd0 = ref_desc(comps, 0.0)
    a1, a2 = n1, n2
    ok0 = True
    if el is not None:
        b0 = [x for x in nd0['branches'] if x['id'] == el]
        ok0 = bool(b0)
        if ok0:
            nd0 = dict(nd0, branches=[x for x in nd0['branches'] if x['id'] != el])
            a1, a2 = b0[0]['n1'], b0[0]['n2']
            ok0 = nd0['zero'] in labels_of(nd0)
    if ok0 and not has_self_loop(nd0) and not has_vs_loop(nd0):
        spec0 = drv.call('port_spec', net=raw_json(nd0), n1=a1, n2=a2)
        if not spec0['defined'] and a1 != a2 and (a1 not in labels_of(nd0) or a2 not in labels_of(nd0)):
            out.count('port_node_absent')       # the removed element was the only branch at its terminal: no such node any more
        elif not spec0['defined'] and a1 != a2:
            dcj = dc if dc[0] == 'err' or cmath.isfinite(dc[1]) else ('err', 'NonFinite')
            judge_undefined(out, spec0, dcj, dict(op='circuit_dc_resistance' if el is None else 'circuit_element_dc_resistance',
                            lossy_other_frequency=lossy_other_frequency(comps, 0.0), **flags(port_facts(nd0, a1, a2))),
                            'DC resistance wrapper', pretty, case)
        if spec0['defined']:
            f0 = port_facts(nd0, a1, a2)
            z0 = core.cfloat(spec0['z'])
            canon0 = dict(op='circuit_dc_resistance' if el is None else 'circuit_element_dc_resistance',
                          lossy_other_frequency=lossy_other_frequency(comps, 0.0), **flags(f0))
            out.nontrivial(('dc', len(comps), f0['ideal_vs_elsewhere'], f0['zero_row_node'], f0['floating_island'], el is None))
            if dc[0] == 'err':
                out.spec_fail(dict(canon0, symptom='raises', exc=dc[1]), f'DC resistance wrapper raises {dc[1]}; Re Z(0) is {z0.real}', pretty,
                              impl=dict(error=dc[1]), spec=dict(z=spec0['z']), case=case)
            elif not cmath.isfinite(dc[1]) or not core.close(dc[1], z0.real, abs(z0), 1e-6):
                out.spec_fail(dict(canon0, symptom='wrong_value'), f'DC resistance wrapper reports {dc[1]}, Re Z(0) is {z0.real}', pretty,
                              impl=dict(dc=dc[1]), spec=dict(z=spec0['z']), case=case)
            else:
                out.count('dc_spec_agrees')
    # Spec per frequency
    for k, N in enumerate(nets):
        nd = ref_desc(comps, ws[k])
        if el is not None:
            b = [x for x in nd['branches'] if x['id'] == el]
            if not b: continue
            nd = dict(nd, branches=[x for x in nd['branches'] if x['id'] != el])
            a1, a2 = b[0]['n1'], b[0]['n2']
            if nd['zero'] not in labels_of(nd): continue
        else:
            a1, a2 = n1, n2
        if has_self_loop(nd) or has_vs_loop(nd): continue
        spec = drv.call('port_spec', net=raw_json(nd), n1=a1, n2=a2)
        if not spec['defined']:
            if a1 not in labels_of(nd) or a2 not in labels_of(nd):
                out.count('port_node_absent')
            elif a1 != a2 and not spec.get('consistent', True):
                try:
                    zz = complex((cimp.open_circuit_impedance(circuit, n1, n2, np.array([ws[k]], dtype=float)) if el is None
                                  else cimp.element_impedance(circuit, el, np.array([ws[k]], dtype=float)))[0])
                    zj = ('ok', zz) if cmath.isfinite(zz) else ('err', 'NonFinite')
                except Exception as e:
                    zj = ('err', tag(e))
                judge_undefined(out, spec, zj, dict(op='circuit_impedance' if el is None else 'circuit_element_impedance',
                                lossy_other_frequency=lossy_other_frequency(comps, ws[k]), **flags(port_facts(nd, a1, a2))),
                                f'impedance wrapper at w={ws[k]}', pretty, case)
            else:
                out.count('port_undefined')
            continue
        facts = port_facts(nd, a1, a2)
        out.nontrivial(('circuit', len(comps), ws[k] == 0, facts['ideal_vs_elsewhere'], facts['zero_row_node'], facts['floating_island'], el is None))
        z = core.cfloat(spec['z'])
        canon = dict(op='circuit_impedance' if el is None else 'circuit_element_impedance',
                     lossy_other_frequency=lossy_other_frequency(comps, ws[k]), **flags(facts))
        # the wrapper evaluated at this single frequency (an exception at another frequency of the
        # sweep, where the port may be undefined, says nothing about this one)
        w1 = np.array([ws[k]], dtype=float)
        with InvSpy() as spy:
            try:
                z1 = ('ok', complex((cimp.open_circuit_impedance(circuit, n1, n2, w1) if el is None else cimp.element_impedance(circuit, el, w1))[0]))
            except Exception as e:
                z1 = ('err', tag(e))
        if spy.args and spy.args[-1].size and not (np.linalg.cond(spy.args[-1]) < 1e8):
            out.skip('ill_conditioned'); continue
        if z1[0] == 'err':
            out.spec_fail(dict(canon, symptom='raises', exc=z1[1]),
                          f'impedance wrapper raises {z1[1]} at w={ws[k]}; the port impedance there is {z}', pretty,
                          impl=dict(error=z1[1]), spec=dict(w=ws[k], z=spec['z']), case=case)
            continue
        if not cmath.isfinite(z1[1]) or not core.close(z1[1], z, abs(z), 1e-6):
            out.spec_fail(dict(canon, symptom='wrong_value'),
                          f'at w={ws[k]} the wrapper reports {z1[1]}, unit-current injection gives {z}', pretty,
                          impl=dict(z=z1[1]), spec=dict(w=ws[k], z=spec['z']), case=case)
            continue
        out.count('circuit_spec_agrees')

def raw_json(nd):
    """driver JSON of a description whose branches carry the stored record directly"""
    br = []
    for d in nd['branches']:
        if d['kind'] == 'vs_lossy':
            e = dict(k='N', a=core.qc(d['args']['Z']), b=core.qc(d['args']['V']))
        else:
            e = dict(k='T', a=core.qc(d['args']['Y']), b=core.qc(d['args']['I']))
        br.append(dict(n1=d['n1'], n2=d['n2'], id=d['id'], ty='', e=e))
    return dict(branches=br, zero=nd['zero'])

def check_dc_closed_forms(ctx, out):
    """DC wrappers on ports whose DC impedance is complex or has a negative real part: Re Z(0), not |Z(0)|"""
    from CircuitCalculator.Circuit import impedance as cimp
    for Z in (complex(3, -4), complex(-2, 1), complex(-5, 0), complex(0, 7), complex(1.5, 2)):
        out.evaluations += 1
        comps = [dict(kind='Z', id='Z1', nodes=['a', 'g'], v=Z), dict(kind='Z', id='Z2', nodes=['a', 'g'], v=2 * Z),
                 dict(kind='gnd', id='gnd', nodes=['g'])]
        want = (Z * 2 * Z / (3 * Z)).real
        pretty = dict(circuit=f'Z1={Z} || Z2={2 * Z}', port=['a', 'g'])
        case = dict(kind='dc_closed_form')
        out.nontrivial(('dc_closed_form', str(Z)))
        for name, f, w in (('circuit_dc_resistance', lambda c: cimp.open_circuit_dc_resistance(c, 'a', 'g'), want),
                           ('circuit_element_dc_resistance', lambda c: cimp.element_dc_resistance(c, 'Z1'), (2 * Z).real)):
            got = run_impl(f, mk_circuit(comps))
            if got[0] == 'err' or not core.close(got[1], w, abs(Z), 1e-9):
                out.spec_fail(dict(op=name, symptom='wrong_value' if got[0] == 'ok' else 'raises', lossy_other_frequency=False,
                                   ideal_vs_elsewhere=False, zero_row_node=False, floating_island=False),
                              f'{name}: {got[1]}, Re Z(0) = {w}', pretty, impl=dict(value=got), spec=dict(re_z=w), case=case)
                break
        else:
            out.count('dc_closed_form_agrees')

def check_closed_forms(ctx, out):
    """R + jwL + 1/(jwC) over a sweep; series and parallel composition"""
    from CircuitCalculator.Circuit import impedance as cimp
    ws = [0.5, 1.0, 2.0, 8.0, 1000.0]
    R, Lh, C = 3.0, 0.5, 0.25
    series = [dict(kind='R', id='R', nodes=['a', 'b'], v=R), dict(kind='L', id='L', nodes=['b', 'c'], v=Lh),
              dict(kind='C', id='C', nodes=['c', 'd'], v=C), dict(kind='gnd', id='gnd', nodes=['d'])]
    par = [dict(kind='R', id='R', nodes=['a', 'd'], v=R), dict(kind='L', id='L', nodes=['d', 'a'], v=Lh),
           dict(kind='C', id='C', nodes=['a', 'd'], v=C), dict(kind='gnd', id='gnd', nodes=['d'])]
    cases = [('series_RLC', series, 'a', 'd', lambda w: R + 1j * w * Lh + 1 / (1j * w * C)),
             ('series_RL', series, 'a', 'c', lambda w: R + 1j * w * Lh),
             ('inductor', series, 'b', 'c', lambda w: 1j * w * Lh),
             ('capacitor', series, 'c', 'd', lambda w: 1 / (1j * w * C)),
             ('parallel_RLC', par, 'a', 'd', lambda w: 1 / (1 / R + 1 / (1j * w * Lh) + 1j * w * C))]
    for name, comps, n1, n2, f in cases:
        out.evaluations += 1
        pretty = dict(circuit=name, port=[n1, n2], w=ws)
        try:
            zs = [complex(z) for z in cimp.open_circuit_impedance(mk_circuit(comps), n1, n2, np.array(ws))]
        except Exception as e:
            out.spec_fail(dict(op='circuit_impedance', symptom='raises', exc=tag(e), ideal_vs_elsewhere=False, zero_row_node=False, floating_island=False),
                          f'{name}: sweep raises {tag(e)}', pretty, impl=dict(error=tag(e)), case=dict(kind='closed_form', name=name))
            continue
        out.nontrivial(('closed_form', name))
        for w, z in zip(ws, zs):
            if not core.close(z, f(w), abs(f(w)), 1e-9):
                out.spec_fail(dict(op='circuit_impedance', symptom='wrong_value', ideal_vs_elsewhere=False, zero_row_node=False, floating_island=False),
                              f'{name}: Z({w}) = {z}, closed form {f(w)}', pretty, impl=dict(z=z), spec=dict(z=f(w)), case=dict(kind='closed_form', name=name))
                break
        else:
            out.count('closed_form_agrees')

# --------------------------------------------------------------------------- generators

def gen_floating(rng, desc):
    """add a node that hangs on zero-admittance branches only; its label sorts anywhere"""
    labs = labels_of(desc)
    pool = [l for l in ['!', '0', '5', 'A', 'M', 'a', 'm', 'zz', '~', ' ', '00'] if l not in labs]
    new = rng.choice(pool)
    br = list(desc['branches'])
    for t in range(rng.randint(1, 2)):
        other = rng.choice(labs)
        kind = rng.choice(['open', 'admittance0', 'cs_ideal'])
        if kind == 'open': b = dict(kind='open', args={})
        elif kind == 'admittance0': b = dict(kind='admittance', args=dict(Y=0j))
        else: b = dict(kind='cs_ideal', args=dict(I=complex(gen_net.exact_real(rng), 0)))
        a, c = (new, other) if rng.random() < 0.5 else (other, new)
        br.append(dict(n1=a, n2=c, id=fresh_id(dict(branches=br), f'O{t}'), **b))
    rng.shuffle(br)
    return dict(branches=br, zero=desc['zero'])

CIRCUIT_CORPUS = [
    # audit 2: port at a node that hangs on a capacitor at w = 0 (infinite impedance), label sorting before / after the others
    ([dict(kind='C', id='C', nodes=['a', 'm'], v=1.0), dict(kind='R', id='R', nodes=['m', '0'], v=5.0), dict(kind='R', id='R2', nodes=['x', '0'], v=7.0),
      dict(kind='gnd', id='gnd', nodes=['0'])], 'a', '0', [0.0, 1.0], None),
    ([dict(kind='C', id='C', nodes=['z', 'm'], v=1.0), dict(kind='R', id='R', nodes=['m', '0'], v=5.0), dict(kind='gnd', id='gnd', nodes=['0'])], 'z', '0', [0.0, 1.0], None),
    # parallel L || C at resonance: the admittances at the port node cancel exactly
    ([dict(kind='L', id='L', nodes=['a', '0'], v=1.0), dict(kind='C', id='C', nodes=['a', '0'], v=1.0), dict(kind='R', id='R', nodes=['b', '0'], v=7.0),
      dict(kind='gnd', id='gnd', nodes=['0'])], 'a', '0', [0.5, 1.0, 2.0], None),
    # audit: internal R / G of a source at a foreign frequency (open finding, root cause C09-3)
    ([dict(kind='Vdc', id='V', nodes=['1', '0'], v=1.0, R=4.0), dict(kind='R', id='R', nodes=['1', '0'], v=4.0), dict(kind='gnd', id='gnd', nodes=['0'])], '1', '0', [0.0, 1.0], None),
    ([dict(kind='Idc', id='I', nodes=['0', '1'], v=1.0, G=0.25), dict(kind='R', id='R', nodes=['1', '0'], v=4.0), dict(kind='gnd', id='gnd', nodes=['0'])], '1', '0', [0.0, 1.0], None),
    ([dict(kind='Vac', id='V', nodes=['1', '0'], v=1.0, R=4.0, w=5.0), dict(kind='R', id='R', nodes=['1', '2'], v=4.0), dict(kind='R', id='R2', nodes=['2', '0'], v=4.0),
      dict(kind='gnd', id='gnd', nodes=['0'])], '2', '0', [0.0, 5.0], None),
    ([dict(kind='Vac', id='V', nodes=['1', '0'], v=1.0, R=4.0, w=5.0), dict(kind='R', id='R', nodes=['1', '2'], v=4.0), dict(kind='R', id='R2', nodes=['2', '0'], v=4.0),
      dict(kind='gnd', id='gnd', nodes=['0'])], '2', '0', [0.0, 5.0], 'R2'),
    ([dict(kind='Iac', id='I', nodes=['0', '1'], v=1.0, G=0.5, w=2.0), dict(kind='R', id='R', nodes=['1', '0'], v=2.0), dict(kind='C', id='C', nodes=['1', '0'], v=0.5),
      dict(kind='gnd', id='gnd', nodes=['0'])], '1', '0', [0.0, 2.0, 3.0], None),
]

CORPUS = [
    # audit 2: port node hanging on an open branch (sorting before / after the other labels); source with a dangling terminal
    dict(zero='0', branches=[dict(n1='a', n2='0', id='O', kind='open', args={}), dict(n1='b', n2='0', id='R', kind='resistor', args=dict(R=5.0))]),
    dict(zero='0', branches=[dict(n1='z', n2='0', id='O', kind='open', args={}), dict(n1='b', n2='0', id='R', kind='resistor', args=dict(R=5.0))]),
    dict(zero='0', branches=[dict(n1='a', n2='0', id='I', kind='cs_ideal', args=dict(I=1.0)), dict(n1='a', n2='b', id='O', kind='open', args={}),
                             dict(n1='b', n2='0', id='R', kind='resistor', args=dict(R=5.0))]),
    # unit scales: 1 GΩ / 1 GΩ divider fed through 50 Ω — Z(mid, 0) = 0.5 GΩ (+25 Ω)
    dict(zero='0', branches=[dict(n1='in', n2='0', id='Rs', kind='resistor', args=dict(R=50.0)),
                             dict(n1='in', n2='mid', id='R1', kind='resistor', args=dict(R=1e9)),
                             dict(n1='mid', n2='0', id='R2', kind='resistor', args=dict(R=1e9))]),
    # DESIGN §6: ideal source away from the port is treated as open (10 Ω instead of 5 Ω)
    dict(zero='0', branches=[dict(n1='1', n2='0', id='Vs', kind='vs_ideal', args=dict(V=10.0)),
                             dict(n1='1', n2='2', id='R1', kind='resistor', args=dict(R=10.0)),
                             dict(n1='2', n2='0', id='R2', kind='resistor', args=dict(R=10.0))]),
    # DESIGN §6: node hanging on an open branch, sorting before the port node
    dict(zero='0', branches=[dict(n1='a', n2='0', id='O', kind='open', args={}),
                             dict(n1='b', n2='0', id='R', kind='resistor', args=dict(R=5.0)),
                             dict(n1='c', n2='b', id='R2', kind='resistor', args=dict(R=7.0))]),
    # plain resistive ladders (no source except the port): the three cases the tests know
    dict(zero='0', branches=[dict(n1='1', n2='0', id='R1', kind='resistor', args=dict(R=10.0)),
                             dict(n1='1', n2='2', id='R2', kind='resistor', args=dict(R=20.0)),
                             dict(n1='2', n2='0', id='R3', kind='resistor', args=dict(R=30.0))]),
    # lossy sources: internal immittances are kept
    dict(zero='b', branches=[dict(n1='a', n2='b', id='V', kind='vs_lossy', args=dict(V=complex(3, 1), Z=complex(2, 1))),
                             dict(n1='a', n2='c', id='I', kind='cs_lossy', args=dict(I=complex(1, 0), Y=complex(0.5, 0))),
                             dict(n1='c', n2='b', id='R', kind='resistor', args=dict(R=4.0))]),
]

def all_pairs(desc, rng=None, cap=None):
    labs = labels_of(desc)
    pairs = [(a, b) for a in labs for b in labs if a != b]
    if rng is not None and cap is not None and len(pairs) > cap:
        pairs = rng.sample(pairs, cap)
    return pairs

ES = [None]      # the equivalent_sources module once it imports

def run_network(ctx, out, desc, exact, rng, pair_cap, full):
    pairs = all_pairs(desc, rng, pair_cap)
    for (a, b) in pairs:
        check_port(ctx, out, desc, a, b, exact)
    labs = labels_of(desc)
    # same node, unknown nodes
    if full:
        check_port(ctx, out, desc, labs[0], labs[0], exact)
        check_port(ctx, out, desc, labs[-1], 'no such node', exact)
        check_port(ctx, out, desc, 'no such node', labs[0], exact)
    # every element
    for d in (desc['branches'] if full else rng.sample(desc['branches'], min(3, len(desc['branches'])))):
        rest = dict(desc, branches=[x for x in desc['branches'] if x['id'] != d['id']])
        check_port(ctx, out, rest, d['n1'], d['n2'], exact, op='element_impedance', removed=d['id'], full_desc=desc)
    if pairs:
        a, b = pairs[0]
        ks = SCALES if full else rng.sample(SCALES, 4)
        check_scaled(ctx, out, desc, a, b, exact, ks)
        check_scaled(ctx, out, desc, a, b, exact, rng.sample([1e-13, 1e-11, 1e-10, 1e-9, 1e9, 1e10, 1e11, 1e13], 2), only_node=a)
        check_scaled_equivalent(ctx, out, desc, a, b, exact, ES[0], rng.sample(SCALES, 2 if not full else 4))
        check_metamorphic(ctx, out, desc, a, b, exact)
        check_equivalent(ctx, out, desc, a, b, exact, rng)
        if len(pairs) > 1:
            check_equivalent(ctx, out, desc, *pairs[-1], exact, rng)

def run(ctx, out):
    out.rule = ('networks: connected multigraphs (every element factory, lossy and ideal sources, shorts/opens, ideal voltage '
                'sources away from the port, extra nodes hanging on zero-admittance branches, adversarial labels) × ordered '
                'node pairs × every element × reference nodes; circuits: RLC + sources over frequency sweeps incl. w = 0. '
                'A case is non-trivial when the Spec port impedance is defined (probe network solvable, port voltage unique); '
                'distinct by (node count, branch count, kind multiset, early-return, ideal-VS-elsewhere, zero-row-node, operation)')
    es = check_equivalent_sources_module(ctx, out)
    ES[0] = es
    check_closed_forms(ctx, out)
    check_dc_closed_forms(ctx, out)
    for comps, n1, n2, ws, el in CIRCUIT_CORPUS + SWEEP_CORPUS:
        check_circuit(ctx, out, comps, n1, n2, ws, el=el)
    for desc in CORPUS:
        run_network(ctx, out, desc, True, ctx.rng('corpus'), None, True)
        if es is not None:
            for (a, b) in all_pairs(desc)[:3]:
                check_equivalent_records(ctx, out, es, desc, a, b)
    rng = ctx.rng('random')
    n_random = 70 if ctx.quick else 1500
    for k in range(n_random):
        if ctx.time_left() < 25: out.notes.append(f'stopped after {k} random networks (budget)'); break
        exact = rng.random() < 0.7
        mode = rng.random()
        if mode < 0.45:      # passive + lossy sources only
            desc = gen_net.random_desc(rng, exact=exact, n_nodes=rng.randint(2, 6),
                                       kinds=gen_net.PASSIVE_KINDS + ['vs_lossy', 'cs_ideal', 'cs_lossy'], positive=rng.random() < 0.6)
        elif mode < 0.75:    # ideal voltage sources / shorts somewhere
            desc = gen_net.random_desc(rng, exact=exact, n_nodes=rng.randint(2, 6), degenerate=0.1, positive=rng.random() < 0.6)
        else:                # a node on open branches only
            desc = gen_floating(rng, gen_net.random_desc(rng, exact=exact, n_nodes=rng.randint(2, 5),
                                kinds=gen_net.PASSIVE_KINDS + ['vs_lossy', 'cs_lossy'], positive=rng.random() < 0.6))
        out.count('mode:' + ('plain' if mode < 0.45 else 'ideal_vs' if mode < 0.75 else 'floating'))
        run_network(ctx, out, desc, exact, rng, 4 if ctx.quick else 12, not ctx.quick or k % 5 == 0)
        if es is not None and k % 4 == 0:
            pr = all_pairs(desc, rng, 1)
            if pr: check_equivalent_records(ctx, out, es, desc, *pr[0])
    # circuits
    rngc = ctx.rng('circuits')
    for k in range(25 if ctx.quick else 400):
        if ctx.time_left() < 15: break
        comps = random_circuit(rngc)
        nodes = sorted({n for c in comps for n in c['nodes']})
        n1, n2 = rngc.sample(nodes, 2)
        ws = [0.0] + rngc.sample([0.5, 1.0, 2.0, 3.0, 8.0], 2)
        check_circuit(ctx, out, comps, n1, n2, ws)
        el = rngc.choice([c for c in comps if c['kind'] != 'gnd'])
        check_circuit(ctx, out, comps, n1, n2, ws, el=el['id'])
    # bounded-exhaustive small topologies, every ordered pair
    n_enum = 0
    rnge = ctx.rng('enum')
    for i, desc in enumerate(gen_net.enumerate_small(3, 2 if ctx.quick else 3, kinds=['resistor', 'conductor', 'vs_ideal', 'vs_lossy', 'cs_lossy'])):
        if ctx.time_left() < 8: out.notes.append('enumeration cut by budget'); break
        if ctx.quick and i % 3: continue
        for (a, b) in all_pairs(desc):
            check_port(ctx, out, desc, a, b, True)
        n_enum += 1
    out.extra['enumerated_small'] = n_enum

def replay(ctx, out, rp):
    case = rp.get('case')
    if not case:
        raise SystemExit('replay file carries no case')
    k = case['kind']
    if k == 'port':
        desc = case['desc']
        if case.get('removed'):
            d = [x for x in desc['branches'] if x['id'] == case['removed']][0]
            rest = dict(desc, branches=[x for x in desc['branches'] if x['id'] != case['removed']])
            check_port(ctx, out, rest, d['n1'], d['n2'], case.get('exact', True), op='element_impedance', removed=case['removed'], full_desc=desc)
        else:
            check_port(ctx, out, desc, case['n1'], case['n2'], case.get('exact', True))
            check_metamorphic(ctx, out, desc, case['n1'], case['n2'], case.get('exact', True))
    elif k == 'scaled':
        check_scaled(ctx, out, case['desc'], case['n1'], case['n2'], case.get('exact', True), [case['k']], only_node=case.get('only_node'))
    elif k == 'scaled_equivalent':
        ES[0] = check_equivalent_sources_module(ctx, out)
        check_scaled_equivalent(ctx, out, case['desc'], case['n1'], case['n2'], case.get('exact', True), ES[0], [case['k']])
    elif k == 'equivalent':
        check_equivalent(ctx, out, case['desc'], case['n1'], case['n2'], case.get('exact', True), ctx.rng('replay'))
    elif k == 'sweep':
        check_sweep_consistency(ctx, out, case['comps'], case['n1'], case['n2'], case['ws'], el=case.get('el'))
    elif k == 'circuit':
        check_circuit(ctx, out, case['comps'], case['n1'], case['n2'], case['ws'], el=case.get('el'))
    elif k == 'dc_closed_form':
        check_dc_closed_forms(ctx, out)
    elif k == 'closed_form':
        check_closed_forms(ctx, out)
    elif k == 'import':
        check_equivalent_sources_module(ctx, out)
